"""C10 — defaults are per-instance, computed once, silent; instances are isolated.

Case line (kind `a10`), fields separated by `|`:

  a10 | n=<N> [W=1] [P=<i.j>] [B=b|l] | F=<k:spec,…> [K=<j:code,…>] | C=<class>;<class>;… | H=<beh,…> | op;op;…

  B        the owner classes are alive but FALSY: B=b they define `__bool__` returning False, B=l `__len__`
           returning 0 (an empty container-like model).  Nothing in the statement depends on the owner's truth value;
           the switch is derived from a checksum of the rest of the line (about one case in three each)

  pool     ids 0..N-1 are atoms (0 Uninitialized, 1 Undefined, 2 None, 3.. distinct ints); every other identity is
           allocated by the run (instances, containers) and printed as #k in order of first appearance
  F        default factories: e<v> returns atom v · f<a.b> returns a fresh list [a, b] · t<a> a fresh pair
           (fresh empty list, atom a) · r[TVAR] raises TraitError / ValueError / AttributeError / RuntimeError ·
           y<TVAR><a.b> raises when its call ordinal (number of earlier factory calls of the case) is even, otherwise
           returns a fresh list [a, b] (a failing default followed by a successful retry);
           upper case first letter = built into the trait type (Tuple / Union), not instrumented ·
           sl/sd/ss<a.b> (only in `#` cases) returns ONE AND THE SAME list / dict / set on every call (a template
           object); used as `_name_default` of List / Dict / Set traits, whose validation builds the instance's own
           TraitListObject / TraitDictObject / TraitSetObject.
           W=1: the run turns UserWarning into an error (the `_warn_on_attribute_error` path)
  P        the `post_setattr` hook of `pa<k>` members raises RuntimeError at these call ordinals (number of earlier
           post_setattr calls of the case): a first read during which post_setattr fails AFTER the default was
           computed and stored
  K        reusable trait definitions: ONE CTrait object (`Any(...).as_ctrait()`, like a module-level `Trait(0.0)`)
           that the case binds to several names, in several classes, and/or adds to several instances;
           code c<v> or fa<k>; referred to as member k<j>
  class    <base index or ->:<name>=<member>[~k][/hK],…  with member
           c<v> Any(atom) · al<a.b> Any([a,b]) · ad<a.b> Any({..}) · L/D/S<a.b> List/Dict/Set(Int) with default ·
           fa<k> Any(factory=F[k]) · pa<k> the same with a post_setattr hook (see P; the hook first READS the
           attribute it is called for, as the hook of a mapped trait does through its shadow) ·
           tl / td the legacy declarations Trait(list) / Trait(dict) (a bare Python type: the default is a per-object
           copy of [] / {}) · bl / bd (only as the member of an `at` op in `#` cases) the bare type itself:
           obj.add_trait(name, list) · T<k> Tuple(List(Int), Int) · U<k> Union(List(Int), None) · o self() ·
           n<form><cls><a.b> a trait whose default KIND is inferred from the default VALUE, an instance of a list /
           dict (sub)class: form t = user-defined TraitType with `default_value`, r = Trait(default, list|dict),
           e = Either(Dict(Int, Int) | List(Int), Str, default=…); cls l list · h user list subclass · m dict ·
           o OrderedDict · d defaultdict · c Counter · u user dict subclass ·
           v<v> / vl<a.b> / vd<a.b> plain value overriding the inherited trait · i inherited unchanged;
           ~k : the class body defines _name_default = F[k];  /hK : the class body defines _name_changed = handler K
  ops      new k · get i n · set i n v · mut i n x (append / add / setitem on the value read) ·
           mui i n x (append to element 0 of the value read) · rd i n h · ro i n h · ra i h · at i n <member> ·
           del i n (del obj.name) · q1 i (queries that read no value: traits(type=...), trait_names(type=...),
           editable_traits()) ·
           only in `#` cases (real code + oracle only): rst i n (reset_traits([name]); it swallows errors) ·
           q2 i (copy.copy, clone_traits, trait_get(**metadata), pickle: they read values) · atn i v (add_trait of a
           brand-new name) · sett i n k (assign the template object of factory k: a List / Dict / Set trait stores
           its own copy) ·
           rdi i n h (on_trait_change(h, "<name>_items"); only in `#` cases = real code + oracle only: the items
           events of containers belong to the seq/map/set clusters' models)

Output per op:  ok|err <Exc> v=<value> c=[inst:h:old>new,…] f=[factory indices called] :: <view of every instance>
"""
import warnings

from . import attrlib as A
from .seqlib import exc_name

PROPERTY = "C10"
DRIVER = "TraitsVerif/Driver/Attr.lean"
PROPS_MODULES = ["TraitsVerif.Props.C10"]
TRANSLATORS = ["enums", "cattr"]
RULE = ("generated class hierarchies over the default-kind grid (constant, Any list/dict copy, List/Dict/Set objects, "
        "callable-and-args, _name_default, Tuple(List(Int), Int), Union(List(Int), None), Self, default kinds inferred "
        "from a default value that is a list / dict / OrderedDict / defaultdict / Counter / user subclass in a custom "
        "TraitType, Trait(default, type) and Either(..., default=...); owner classes that are truthy, define __bool__ "
        "False or __len__ 0; subclass overrides by "
        "value and by trait, own _name_default in a subclass, inherited static handlers), 2-4 instances created "
        "before and after a history of 1-14 operations on one acting instance (reads, assignments, container "
        "mutation, inner-container mutation, on_trait_change / observe / anytrait registration, add_trait) "
        "interleaved with reads on the others; plus every single default kind x every operation kind "
        "exhaustively; a case is non-trivial when a default was materialised, a container mutated or a handler "
        "registered; distinct = distinct canonical output line")
TRUSTED = [
    "Generated/AttrProg.lean: the source text of setattr_trait / setattr_event / getattr_trait / default_value_for / "
    "call_notifiers / has_traits_getattro / has_traits_setattro and of the has_notifiers macro, read by "
    "harness/translate/cattr.py (tokenizer + recursive descent, fails closed) into MiniC terms; the meaning of the "
    "CPython API calls and of the trait callbacks in Model/MiniC.lean (callPrim, callFPtr, getField: PyDict_* act on "
    "the one slot, allocation never fails, names are str, NULL default_value reads as None, refcounts dropped) is trusted",
    "containers are modelled as identity + multiset of element identities (order, keys and hashing are not); "
    "mutation = adding one fresh atom",
    "default factories and validators of defaults are parameters of the model (Callback); TraitListObject / "
    "TraitDictObject / TraitSetObject construction from a valid default is modelled as a shallow copy",
    "the oracle's twin run re-creates the classes from the same declarations and skips the acting instance's operations",
    "Generated/Enums.lean: default-value kinds, clone_* sets, flag constants read from the source by regex + ast",
]
ASSUMPTIONS = [
    "default templates hold atoms only (a nested mutable inside an Any([...]) template is shared by the shallow copy, "
    "as with list(...) itself); user factories return fresh containers or immutable atoms (real code + oracle only: "
    "a _name_default of a List / Dict / Set trait may hand out one template object, and one container may be assigned "
    "to several instances: validation builds each instance's own TraitListObject / TraitDictObject / TraitSetObject)",
    "values assigned by the history are atoms; `del` is not part of C10's histories (it re-arms the default)",
    "a failing default computation (factory or validation of its result raises) is outside C10_once",
]
EXHAUSTIVE = {"quick": True, "thorough": True}

NATOMS = 18


def atoms():
    from traits.trait_base import Undefined, Uninitialized
    return [Uninitialized, Undefined, None, 0, 1, 7, 8, 9, 11, 12, 13, 14, 15, 16, 17, 18, 19, 20]


# kind -> (member code, needs factory spec, copy-promising?, mutable?, label)
def member_kinds():
    return ["c", "al", "ad", "L", "D", "S", "fa", "fe", "m", "me", "T", "U", "o", "fr", "mr", "n", "n"]


N_FORMS = "tre"
N_CLASSES = "lhmodcu"
N_LISTY = "lh"


def mk_member(rng, kind, F):
    """Returns the member code for a base-class declaration (adds factories to F)."""
    def two():
        return ".".join(str(x) for x in rng.sample(range(3, 9), rng.randint(0, 2)))
    if kind == "c":
        return "c%d" % rng.choice([2, 3, 4, 5])
    if kind in ("al", "ad", "L", "D", "S"):
        return kind + two()
    if kind == "fa":
        F.append("f" + two())
        return "fa%d" % (len(F) - 1)
    if kind == "fe":
        F.append("e%d" % rng.choice([2, 4, 5]))
        return "fa%d" % (len(F) - 1)
    if kind == "m":
        F.append("f" + two())
        return "c2~%d" % (len(F) - 1)
    if kind == "me":
        F.append("e%d" % rng.choice([4, 5, 6]))
        return "c2~%d" % (len(F) - 1)
    if kind in ("fr", "mr"):
        cls = rng.choice("TVAR")
        F.append(("r" + cls) if rng.random() < 0.35 else ("y" + cls + two()))
        return ("fa%d" if kind == "fr" else "c2~%d") % (len(F) - 1)
    if kind == "T":
        F.append("T3")
        return "T%d" % (len(F) - 1)
    if kind == "U":
        F.append("F")
        return "U%d" % (len(F) - 1)
    if kind == "o":
        return "o"
    if kind == "n":
        return "n" + rng.choice(N_FORMS) + rng.choice(N_CLASSES) + two()
    raise AssertionError(kind)


OVERRIDABLE = {"fr": ["v", "vl"], "mr": ["v", "vl"], "c": ["v", "vl", "vd"], "al": ["v", "vl"], "ad": ["v", "vd"], "L": ["vl"], "D": ["vd"], "fa": ["v", "vl"],
               "fe": ["v", "vl"], "m": ["v", "vl"], "me": ["v"], "o": ["v", "vl"]}


def falsy_switch(text):
    """'' / 'b' / 'l' from a checksum of the case text: truthy owners, `__bool__` False, `__len__` 0."""
    import zlib
    return ["", "b", "l"][zlib.crc32(text.encode()) % 3]


def mk_case(F, classes, H, ops, W=0, K=(), impl_only=False, B=None, P=None):
    rest = "F=%s%s|C=%s|H=%s|%s" % (
        ",".join("%d:%s" % (i, s) for i, s in enumerate(F)) or "-",
        (" K=" + ",".join("%d:%s" % (i, s) for i, s in enumerate(K))) if K else "",
        ";".join(classes), ",".join(H) or "o", ";".join(ops))
    if B is None:
        B = falsy_switch(rest)
    return "%sa10|n=%d%s%s%s|%s" % ("#" if impl_only else "", NATOMS, " W=1" if W else "",
                                    (" P=" + ".".join(str(x) for x in P)) if P else "", (" B=" + B) if B else "", rest)


def corpus():
    import random
    rng = random.Random(77)
    tmpl = [template_case(rng, B=B) for B in ("", "b", "l") for _ in range(4)]
    # default kinds inferred from a container-subclass default value, on truthy and falsy owners
    inferred = [mk_case([], ["-:0=n%s%s4.5,1=n%s%s" % (f, c, f2, c2)], ["o", "o"],
                        ["new 0", "new 0", "get 0 0", "mut 0 0 9", "mut 0 1 10", "get 1 0", "get 1 1", "new 0", "get 2 0",
                         "get 2 1"], B=B)
                for (f, c, f2, c2, B) in (("t", "o", "r", "d", ""), ("r", "c", "e", "o", "b"), ("r", "h", "t", "u", "l"),
                                          ("e", "h", "r", "h", ""))]
    return tmpl + inferred + [
        # post_setattr raises during the first read (after the default was computed and stored): the default stays,
        # the next read returns it, the factory ran once
        mk_case(["f4.5"], ["-:0=pa0,1=c3"], ["o", "o"],
                ["new 0", "new 0", "ro 0 0 1", "get 0 0", "get 0 0", "mut 0 0 9", "get 1 0", "get 0 0"], P=[0]),
        mk_case(["e6"], ["-:0=pa0"], ["o"], ["new 0", "new 0", "get 0 0", "get 1 0", "get 1 0", "get 0 0"], P=[1]),
        # first operation = assignment to a never-read attribute with a post_setattr hook and a handler
        mk_case(["f4.5"], ["-:0=pa0"], ["o", "o"], ["new 0", "new 0", "rd 0 0 0", "set 0 0 5", "get 0 0", "set 1 0 6"]),
        # legacy declarations by bare type: per-object copies
        mk_case([], ["-:0=tl,1=td"], ["o"], ["new 0", "new 0", "get 0 0", "mut 0 0 9", "get 1 0", "mut 0 1 10", "get 1 1",
                                             "new 0", "get 2 0", "get 2 1"]),
        mk_case([], ["-:0=c3,1=c3"], ["o"], ["new 0", "new 0", "at 0 1 bl", "at 1 1 bl", "mut 0 1 9", "get 1 1", "at 0 0 bd",
                                             "at 1 0 bd", "mut 1 0 10", "get 0 0"], impl_only=True),
        # one reusable CTrait object bound to two names and used by classes defined before and after; x0 has a
        # _name_default and no static handler: the siblings keep the declared default
        mk_case(["e6"], ["-:0=k0,1=k0", "-:0=k0~0,1=k0", "-:0=k0,1=k0"], ["o"],
                ["new 0", "new 1", "new 2", "get 1 0", "get 1 1", "get 0 0", "get 0 1", "get 2 0", "get 2 1"], K=["c4"]),
        # the same CTrait object added to two instances; a handler registered on one of them
        mk_case([], ["-:0=c2"], ["o", "o"], ["new 0", "new 0", "at 0 0 k0", "at 1 0 k0", "rd 0 0 1", "set 1 0 5", "set 0 0 6"],
                K=["c4"]),
        # reset with a handler present: the default reported is the default stored; computed once per reset
        mk_case(["f4"], ["-:0=L4.5,1=c2~0/h0"], ["o", "o"],
                ["new 0", "new 0", "rd 0 0 1", "mut 0 0 9", "del 0 0", "get 0 0", "mut 0 0 10", "get 0 0", "set 0 1 5",
                 "del 0 1", "get 0 1", "get 0 1", "get 1 0", "get 1 1"]),
        # instance traits + metadata-filtered queries: nothing leaks into the class
        mk_case([], ["-:0=c3,1=L4"], ["o"], ["new 0", "new 0", "at 0 0 c6", "set 0 0 5", "q1 0", "get 1 0", "new 0", "get 2 0"]),
        mk_case([], ["-:0=c3,1=L4"], ["o"], ["new 0", "new 0", "at 0 0 c6", "atn 0 5", "q1 0", "q2 0", "get 1 0", "new 0",
                                             "get 2 0"], impl_only=True),
        # scenario A: a dynamic Range shared handler; the int-bounded instance is used first
        "#a10x|A|-|new 0;new 1;get 0 level;set 0 level 3;new 2",
        "#a10x|A|-|new 5;new 0;set 0 pick 5;get 0 pick",
        # scenario B: a strict class, an undefined <name>_items probed on one instance, containers mutated on others
        "#a10x|B|0|new;new;has 1 tags;otc 1 index 0;mut 0 tags;new",
        "#a10x|B|1|new;new;gad 0 alt;trt 0 both;mut 1 alt",
        # the implicit path: the on-demand <name>_items instance trait (real code + oracle only)
        mk_case(["F"], ["-:0=U0", "-:0=U0"], ["o", "o"],
                ["new 0", "new 0", "new 1", "mut 0 0 9", "mut 1 0 10", "mut 2 0 11", "rdi 0 0 1", "mut 1 0 12", "mut 2 0 13",
                 "mut 0 0 14"], impl_only=True),
        # a raising default is passed through, stores nothing, is retried (C10_default_raises)
        mk_case(["yV4.5"], ["-:0=fa0/h0"], ["o"], ["new 0", "get 0 0", "get 0 0", "get 0 0", "new 0", "set 1 0 4"]),
        mk_case(["yT4"], ["-:0=c2~0/h0"], ["o"], ["new 0", "rd 0 0 0", "get 0 0", "mut 0 0 9", "get 0 0"]),
        mk_case(["rA"], ["-:0=fa0/h0"], ["o"], ["new 0", "get 0 0", "get 0 0"]),
        mk_case(["yA4"], ["-:0=c2~0"], ["o"], ["new 0", "get 0 0", "get 0 0"], W=1),
        mk_case(["rR"], ["-:0=c2~0/h0"], ["o"], ["new 0", "ro 0 0 0", "set 0 0 4", "get 0 0"]),
        # F9: list default of Any overridden by value in a subclass is shared
        mk_case([], ["-:0=al", "0:0=vl4.5"], ["o"], ["new 1", "new 1", "mut 0 0 9", "get 1 0", "new 1", "get 2 0"]),
        mk_case([], ["-:0=ad", "0:0=vd4"], ["o"], ["new 1", "new 1", "mut 0 0 9", "get 1 0"]),
        mk_case(["f4.5", "T3", "F"], ["-:0=fa0/h0,1=T1,2=U2"], ["o", "o"],
                ["new 0", "new 0", "rd 0 0 1", "get 0 0", "mut 0 0 9", "mui 0 1 10", "mut 0 2 11", "get 1 0", "get 1 1",
                 "get 1 2", "set 0 0 4", "new 0", "get 2 1"]),
        mk_case(["f4", "e5"], ["-:0=c2~0/h0,1=L4.5,2=S4", "0:0=i~1,1=vl6,2=i"], ["o", "o", "o"],
                ["new 0", "new 1", "get 0 0", "get 1 0", "get 1 0", "mut 1 1 9", "get 0 1", "ro 1 1 1", "ra 1 2",
                 "at 1 0 c4", "get 1 0", "new 1", "get 2 0", "get 2 1"]),
    ]


def random_case(rng):
    while True:
        c = _random_case(rng)
        specs = c.split("|")[2][2:].split(",") if c.split("|")[2] != "F=-" else []
        specs = [e.split(":", 1)[1] for e in specs]
        # the ordinal-dependent factory (y…) counts every factory call of the case; the Tuple / Union built-in
        # defaults cannot be counted on the real side: do not mix them
        if any(sp[0] == "y" for sp in specs) and any(sp[0].isupper() for sp in specs):
            continue
        return c


def _random_case(rng):
    F = []
    nnames = rng.randint(1, 3)
    kinds = [rng.choice(member_kinds()) for _ in range(nnames)]
    nh = rng.randint(1, 4)
    H = ["o" if rng.random() < 0.85 else "r" for _ in range(nh)]
    decls = []
    for n, k in enumerate(kinds):
        d = "%d=%s" % (n, mk_member(rng, k, F))
        if rng.random() < 0.35:
            d += "/h%d" % rng.randrange(nh)
        decls.append(d)
    classes = ["-:" + ",".join(decls)]
    if rng.random() < 0.6:
        sub = []
        for n, k in enumerate(kinds):
            r = rng.random()
            if r < 0.35 and k in OVERRIDABLE:
                ov = rng.choice(OVERRIDABLE[k])
                if ov == "v":
                    d = "%d=v%d" % (n, rng.choice([2, 4, 5, 6]))
                else:
                    d = "%d=%s%s" % (n, ov, ".".join(str(x) for x in rng.sample(range(3, 9), rng.randint(0, 2))))
            elif r < 0.5:
                # (a base List/Dict/Set leaves its `<name>_items` event trait behind; re-declaring the name as a
                # Tuple/Union holding a list makes list mutations raise from that stale items trait: not C10's topic)
                ks = [x for x in member_kinds() if not (k in ("L", "D", "S") and x in ("T", "U"))]
                d = "%d=%s" % (n, mk_member(rng, rng.choice(ks), F))
            elif r < 0.62 and k not in ("T", "U", "L", "D", "S", "o", "n"):
                F.append(rng.choice(["f4", "f", "e5"]))
                d = "%d=i~%d" % (n, len(F) - 1)
            else:
                d = "%d=i" % n
            if rng.random() < 0.15:
                d += "/h%d" % rng.randrange(nh)
            sub.append(d)
        classes.append("0:" + ",".join(sub))
    ncls = len(classes)
    # instances: some before, some after
    ops = []
    ninst = 0
    for _ in range(rng.randint(2, 3)):
        ops.append("new %d" % rng.randrange(ncls))
        ninst += 1
    actor = rng.randrange(ninst)
    fresh_atoms = list(range(9, NATOMS))
    rng.shuffle(fresh_atoms)
    for _ in range(rng.randint(1, 14)):
        r = rng.random()
        n = rng.randrange(nnames)
        if r < 0.22:
            ops.append("get %d %d" % (actor, n))
        elif r < 0.42 and fresh_atoms:
            ops.append("mut %d %d %d" % (actor, n, fresh_atoms.pop()))
        elif r < 0.50 and fresh_atoms:
            ops.append("mui %d %d %d" % (actor, n, fresh_atoms.pop()))
        elif r < 0.60:
            ops.append("set %d %d %d" % (actor, n, rng.choice([2, 4, 5, 6])))
        elif r < 0.67:
            ops.append("rd %d %d %d" % (actor, n, rng.randrange(nh)))
        elif r < 0.74:
            ops.append("ro %d %d %d" % (actor, n, rng.randrange(nh)))
        elif r < 0.78:
            ops.append("ra %d %d" % (actor, rng.randrange(nh)))
        elif r < 0.83:
            if rng.random() < 0.5 or not F or not any(s[0] in "fe" for s in F):
                ops.append("at %d %d c%d" % (actor, n, rng.choice([2, 4, 5])))
            else:
                ks = [i for i, s in enumerate(F) if s[0] in "fe"]
                ops.append("at %d %d fa%d" % (actor, n, rng.choice(ks)))
        elif r < 0.93:
            others = [i for i in range(ninst) if i != actor]
            if others:
                ops.append("get %d %d" % (rng.choice(others), n))
        elif ninst < 4:
            ops.append("new %d" % rng.randrange(ncls))
            ninst += 1
    # instances created after the history, and read
    for _ in range(rng.randint(0, 1)):
        if ninst < 5:
            ops.append("new %d" % rng.randrange(ncls))
            ninst += 1
    for i in range(ninst):
        if i != actor and rng.random() < 0.8:
            for n in range(nnames):
                ops.append("get %d %d" % (i, n))
    return mk_case(F, classes, H, ops, W=1 if (any(sp[:2] in ("rA", "yA") for sp in F) and rng.random() < 0.5) else 0)


def shared_case(rng):
    """One reusable CTrait object bound to several names of a class and to names of other classes defined before
    and after it; a `_name_default` on ONE of the uses (mostly without static handler); reads on instances of
    every class, created before and after."""
    F = ["f" + ".".join(str(x) for x in rng.sample(range(3, 9), rng.randint(0, 2))), "e%d" % rng.choice([4, 5, 6])]
    K = [rng.choice(["c3", "c4", "c5", "fa0"]) for _ in range(rng.randint(1, 2))]
    nh = 3
    uses = []
    for n in range(rng.randint(2, 3)):
        uses.append("%d=k%d" % (n, rng.randrange(len(K))))
    with_default = rng.randrange(len(uses))
    uses[with_default] += "~%d" % rng.randrange(2)
    for n in range(len(uses)):
        if rng.random() < (0.15 if n == with_default else 0.3):
            uses[n] += "/h%d" % rng.randrange(nh)
    other = lambda: ",".join("%d=k%d" % (n, rng.randrange(len(K))) for n in range(len(uses)))   # noqa: E731
    classes = []
    if rng.random() < 0.7:
        classes.append("-:" + other())
    main = len(classes)
    classes.append("-:" + ",".join(uses))
    if rng.random() < 0.7:
        classes.append("-:" + other())
    if rng.random() < 0.4:
        classes.append("%d:" % main + ",".join("%d=i" % n for n in range(len(uses))))
    ops = []
    ninst = 0
    for ci in range(len(classes)):
        ops.append("new %d" % ci)
        ninst += 1
    order = list(range(ninst))
    rng.shuffle(order)
    for i in order:
        for n in range(len(uses)):
            if rng.random() < 0.85:
                ops.append("get %d %d" % (i, n))
    if rng.random() < 0.5:
        ci = rng.randrange(len(classes))
        ops.append("new %d" % ci)
        for n in range(len(uses)):
            ops.append("get %d %d" % (ninst, n))
    return mk_case(F, classes, ["o"] * nh, ops, K=K)


def shared_add_trait_case(rng):
    """The same CTrait object is added (add_trait) to two instances; a handler is registered on one of them; then
    both are assigned."""
    F = ["f4.5"]
    K = [rng.choice(["c3", "c4", "fa0"])]
    classes = ["-:0=%s,1=c2" % rng.choice(["c2", "al4", "fa0"])]
    if rng.random() < 0.5:
        classes.append("-:0=c5,1=c2")
    ops = ["new 0", "new 0", "new %d" % (len(classes) - 1)]
    n = rng.randrange(2)
    who = rng.sample(range(3), rng.randint(2, 3))
    for i in who:
        ops.append("at %d %d k0" % (i, n))
    a = who[0]
    ops.append(rng.choice(["rd %d %d 1", "ro %d %d 1"]) % (a, n))
    if rng.random() < 0.3:
        ops.append("ra %d 2" % a)
    others = [i for i in range(3) if i != a]
    rng.shuffle(others)
    for i in others:
        ops.append("set %d %d %d" % (i, n, rng.choice([4, 5, 6])))
    ops.append("set %d %d 6" % (a, n))
    for i in range(3):
        ops.append("get %d %d" % (i, n))
    return mk_case(F, classes, ["o", "o", "o"], ops, K=K)


def items_case(rng):
    """Real code + oracle only: a List nested in a Union (or Tuple) default has no declared `<name>_items` trait; it
    is added to the instance on demand when the default list is first mutated.  A handler registered for it on
    one instance must not hear about other instances (of this or another class)."""
    classes = ["-:0=U0", "-:0=U0,1=c2"]
    ops = ["new 0", "new 0", "new 1"]
    atoms = list(range(9, NATOMS))
    rng.shuffle(atoms)
    for i in range(3):
        ops.append("mut %d 0 %d" % (i, atoms.pop()))
    a = rng.randrange(3)
    ops.append("rdi %d 0 1" % a)
    others = [i for i in range(3) if i != a]
    rng.shuffle(others)
    for i in others:
        ops.append("mut %d 0 %d" % (i, atoms.pop()))
    if rng.random() < 0.5:
        ops += ["new 0", "mut 3 0 %d" % atoms.pop()]
    ops.append("mut %d 0 %d" % (a, atoms.pop()))
    return mk_case(["F"], classes, ["o", "o"], ops, impl_only=True)


def reset_case(rng):
    """A handler (static / on_trait_change / observe / anytrait) is present; the attribute is assigned, reset with
    `del`, read twice; for every default kind that is not a shared constant."""
    F = []
    kind = rng.choice(["L", "D", "S", "al", "ad", "fa", "m", "T", "U", "fa", "m", "c", "fe", "me"])
    m = mk_member(rng, kind, F)
    static = rng.random() < 0.4
    classes = ["-:0=%s%s,1=c2" % (m, "/h0" if static else "")]
    if rng.random() < 0.3:
        classes.append("0:0=i,1=i")
    top = len(classes) - 1
    ops = ["new %d" % top, "new %d" % top]
    if not static or rng.random() < 0.5:
        ops.append(rng.choice(["rd 0 0 1", "ro 0 0 1", "ra 0 1"]))
    if rng.random() < 0.5:
        ops.append("get 0 0")
    settable = kind in ("al", "ad", "fa", "m", "c", "fe", "me")
    atoms = list(range(9, NATOMS))
    rng.shuffle(atoms)
    for _ in range(rng.randint(1, 2)):
        # make the value differ from the default BY VALUE before the reset (the wrappers compare old != new; the
        # model's comparison table knows identities only)
        if settable:
            ops.append("set 0 0 %d" % rng.choice([4, 5, 6]))
        elif kind == "T":
            ops.append("mui 0 0 %d" % atoms.pop())
        else:
            ops.append("mut 0 0 %d" % atoms.pop())
        ops.append("del 0 0")
        ops.append("get 0 0")
        if rng.random() < 0.6 and kind not in ("c", "fe", "me"):
            ops.append("mut 0 0 %d" % atoms.pop())
        ops.append("get 0 0")
    ops += ["get 1 0", "new %d" % top, "get 2 0"]
    return mk_case(F, classes, ["o", "o"], ops)


def query_case(rng, impl_only=False):
    """An instance gets instance traits (add_trait redefinitions, per-instance clones made by registering
    handlers; in `#` cases also brand-new names), then is queried with a metadata filter (`#` cases: also copied,
    cloned, pickled); the class, other instances (before / after) and a later subclass must report what they
    reported before."""
    F = ["f4.5"]
    classes = ["-:0=%s,1=%s" % (rng.choice(["c3", "al4", "L5", "fa0"]), rng.choice(["c2", "c4/h0"]))]
    if rng.random() < 0.4:
        classes.append("0:0=i,1=i")
    top = len(classes) - 1
    ops = ["new %d" % top, "new %d" % top]
    acts = []
    for _ in range(rng.randint(1, 3)):
        r = rng.random()
        if r < 0.5:
            acts.append("at 0 %d %s" % (rng.randrange(2), rng.choice(["c5", "c6", "fa0"])))
        elif r < 0.7:
            acts.append(rng.choice(["rd 0 %d 1", "ro 0 %d 1"]) % rng.randrange(2))
        elif impl_only:
            acts.append("atn 0 %d" % rng.choice([4, 5, 6]))
        else:
            acts.append("set 0 %d %d" % (rng.randrange(2), rng.choice([4, 5])))
    if not any(a.startswith("at") for a in acts):
        acts.insert(0, "at 0 0 c5")
    ops += acts
    ops.append("q1 0")
    if impl_only:
        ops.append("q2 0")
    if rng.random() < 0.5:
        ops += ["get 0 0", "q1 0"]
    ops += ["get 1 0", "get 1 1", "new %d" % top, "get 2 0", "get 2 1"]
    return mk_case(F, classes, ["o", "o"], ops, impl_only=impl_only)


def template_case(rng, B=None):
    """Real code + oracle only: the `_name_default` of a List / Dict / Set trait hands out ONE template object to
    every instance, and one container is assigned to a List / Dict / Set trait of two instances; validation
    builds each instance's own TraitListObject / TraitDictObject / TraitSetObject, so mutations stay on the
    instance (and reach its own <name>_items handler), on truthy and on falsy owners."""
    kind = rng.choice("LDS")
    t = {"L": "l", "D": "d", "S": "s"}[kind]
    two = lambda: ".".join(str(x) for x in rng.sample(range(3, 9), rng.randint(0, 2)))     # noqa: E731
    F = ["s%s%s" % (t, two()), "s%s%s" % (t, two())]
    classes = ["-:0=%s%s~0%s,1=%s%s" % (kind, two(), "/h0" if rng.random() < 0.3 else "", kind, two())]
    if rng.random() < 0.3:
        classes.append("0:0=i,1=i")
    top = len(classes) - 1
    ops = ["new %d" % top, "new %d" % top]
    atoms = list(range(9, NATOMS))
    rng.shuffle(atoms)
    if rng.random() < 0.5:
        ops.append("get 1 0")
    if rng.random() < 0.4:
        ops.append("rdi 0 %d 1" % rng.randrange(2))
    for _ in range(rng.randint(1, 6)):
        r = rng.random()
        if r < 0.35:
            ops.append("mut 0 0 %d" % atoms.pop())
        elif r < 0.5:
            ops.append("get 0 0")
        elif r < 0.65:
            ops.append("sett 0 1 1")
        elif r < 0.8:
            ops.append("mut 0 1 %d" % atoms.pop())
        elif r < 0.9:
            ops.append("get 1 %d" % rng.randrange(2))
        else:
            ops.append("rd 0 0 1")
    if rng.random() < 0.35:
        # the same container assigned to a second instance as well (two acting instances: direct clauses only)
        ops += ["sett 0 1 1", "sett 1 1 1", "mut 0 1 %d" % atoms.pop(), "get 1 1"]
    ops += ["get 1 0", "get 1 1", "new %d" % top, "get 2 0", "get 2 1"]
    if B is None:
        B = rng.choice(["", "b", "l"])
    return mk_case(F, classes, ["o", "o"], ops, impl_only=True, B=B)


def exhaustive():
    """Every default kind (also overridden by value / re-declared with _name_default in a subclass) x every kind
    of operation on the acting instance, with a sibling created before and one after."""
    import random
    rng = random.Random(12345)
    shapes = []
    for form in N_FORMS:
        for cls in N_CLASSES:
            shapes.append(([], ["-:0=n%s%s4.5/h0" % (form, cls)], "n"))
            if form == "t":
                shapes.append(([], ["-:0=n%s%s4.5" % (form, cls), "0:0=i,1=c2"], "n+i"))
    for k in member_kinds()[:-2]:
        F = []
        m = mk_member(rng, k, F)
        shapes.append((F, ["-:0=%s/h0" % m], k))
        for ov in OVERRIDABLE.get(k, []):
            F2 = list(F)
            code = "v4" if ov == "v" else ov + "4.5"
            shapes.append((F2, ["-:0=%s/h0" % m, "0:0=%s" % code], k + "+" + ov))
        if k not in ("T", "U", "L", "D", "S", "o", "n"):
            F3 = list(F) + ["f5"]
            shapes.append((F3, ["-:0=%s" % m, "0:0=i~%d" % (len(F3) - 1)], k + "+~"))
    for cls in "TVAR":
        for sp in ("r" + cls, "y" + cls + "4.5"):
            shapes.append(([sp], ["-:0=fa0/h0"], "fr"))
            shapes.append(([sp], ["-:0=c2~0/h0"], "mr"))
    acts = [["get A 0"], ["get A 0", "get A 0", "get A 0"], ["mut A 0 9"], ["mui A 0 9"], ["set A 0 4"], ["rd A 0 1", "get A 0"], ["ro A 0 1", "set A 0 5"],
            ["ra A 1", "get A 0"], ["at A 0 c5", "get A 0"], ["get A 0", "mut A 0 9", "mut A 0 10", "get A 0"],
            ["rd A 0 1", "set A 0 4", "mut A 0 9"]]
    for F, classes, lab in shapes:
        top = len(classes) - 1
        for act in acts:
            ops = ["new %d" % top, "new %d" % top] + [a.replace("A", "0") for a in act] + \
                  ["get 1 0", "new %d" % top, "get 2 0", "get 1 0"]
            if lab.startswith("n"):
                for B in ("", "b", "l"):        # inferred default kinds: on truthy and on both falsy owners
                    yield mk_case(F, classes, ["o", "o"], ops, B=B)
                continue
            yield mk_case(F, classes, ["o", "o"], ops)
            if F and F[0][:2] in ("rA", "yA"):
                yield mk_case(F, classes, ["o", "o"], ops, W=1)


def post_case(rng):
    """First reads during which `post_setattr` raises after the default was computed and stored: the failed read
    leaves the default in place, later reads return that same object, the factory runs once per instance and name;
    other instances get their own."""
    F = [rng.choice(["f4.5", "f3", "e6", "t4"])]
    P = sorted(rng.sample(range(0, 3), rng.randint(1, 2)))
    ops = ["new 0", "new 0"]
    if rng.random() < 0.5:
        ops.append(rng.choice(["rd 0 0 0", "ro 0 0 1", "ra 0 1"]))
    body = ["get 0 0", "get 0 0", "get 1 0", "get 1 0", "get 0 0"]
    if rng.random() < 0.5:
        body.insert(rng.randint(2, 4), "mut 0 0 9")
    if rng.random() < 0.3:
        body += ["new 0", "get 2 0", "get 2 0"]
    return mk_case(F, ["-:0=pa0,1=c3"], ["o", "o"], ops + body, P=P)


def legacy_case(rng):
    """Legacy declarations by bare Python type — `x = Trait(list)`, `Trait(dict)`, `obj.add_trait(name, list)` —: the
    default is a copy per object; mutate it on one instance, look at the others and at instances created later."""
    impl_only = rng.random() < 0.4
    k0, k1 = rng.choice(["tl", "td"]), rng.choice(["tl", "td", "c3"])
    ops = ["new 0", "new 0"]
    if impl_only:
        ops += ["at 0 1 %s" % rng.choice(["bl", "bd"]), "at 1 1 %s" % rng.choice(["bl", "bd"])]
    body = ["get 0 0", "mut 0 0 9", "get 1 0", "mut 1 0 10", "get 0 1", "mut 0 1 11", "get 1 1", "new 0", "get 2 0",
            "get 2 1", "mut 2 0 12", "get 0 0"]
    rng.shuffle(body)
    return mk_case([], ["-:0=%s,1=%s" % (k0, k1)], ["o", "o"], ops + body[:rng.randint(6, 12)], impl_only=impl_only)


def post_set_case(rng):
    """The FIRST operation on a never-read attribute with a post_setattr hook (and possibly handlers) is an assignment:
    the default is computed once, as the old value, stored, and post_setattr'd before the new value is stored."""
    F = [rng.choice(["f4.5", "e6", "t4"])]
    ops = ["new 0", "new 0"]
    if rng.random() < 0.6:
        ops.append(rng.choice(["rd 0 0 0", "ro 0 0 1", "ra 0 1"]))
    body = ["set 0 0 %d" % rng.randint(3, 8), "get 0 0", "get 1 0", "set 1 0 %d" % rng.randint(3, 8), "get 1 0"]
    if rng.random() < 0.4:
        body += ["del 0 0", "get 0 0"]
    P = [rng.randint(1, 3)] if rng.random() < 0.25 else None
    return mk_case(F, ["-:0=pa0,1=c3"], ["o", "o"], ops + body, P=P)


def generate(rng, tier):
    yield from exhaustive()
    n = {"quick": 3000, "thorough": 100000}.get(tier, 30000)
    for _ in range(n):
        yield random_case(rng)
    for _ in range(n // 8):
        yield shared_case(rng)
    for _ in range(n // 15):
        yield shared_add_trait_case(rng)
    for _ in range(max(20, n // 100)):
        yield items_case(rng)
    for _ in range(n // 10):
        yield reset_case(rng)
    for _ in range(n // 20):
        yield query_case(rng)
    for _ in range(max(30, n // 60)):
        yield query_case(rng, impl_only=True)
    for _ in range(max(90, n // 12)):
        yield template_case(rng)
    for _ in range(max(60, n // 15)):
        yield scenario_case(rng, "A")
    for _ in range(max(60, n // 15)):
        yield scenario_case(rng, "B")
    for _ in range(max(40, n // 60)):
        yield post_case(rng)
    for _ in range(max(40, n // 60)):
        yield post_set_case(rng)
    for _ in range(max(40, n // 60)):
        yield legacy_case(rng)


# ---------------------------------------------------------------------------

def _hit(sig, what, **kw):
    d = {"signature": sig, "what": what}
    d.update(kw)
    return d


class Run:
    """One execution of a case on the real code (optionally skipping the acting instance's operations)."""

    def __init__(self, case):
        f = case.lstrip("#").split("|")
        assert f[0] == "a10", case
        hdr = A.kv(f[1])
        self.N = int(hdr["n"])
        self.W = hdr.get("W") == "1"
        self.P = [int(x) for x in hdr.get("P", "").split(".") if x != ""]
        self.npost = 0            # post_setattr calls so far
        self.post_raised = []     # call ordinals at which the hook raised
        self.post_failed = set()  # (instance, name): a read during which only post_setattr failed
        self.falsy = hdr.get("B", "")
        self.templates = {}       # factory index -> the one object an `s…` factory hands out
        self.fraised = []         # (global ordinal, exception class name) of factory calls that raised
        fk = A.kv(f[2])
        self.F = [] if fk["F"] == "-" else [e.split(":", 1)[1] for e in fk["F"].split(",")]
        self.K = [e.split(":", 1)[1] for e in fk["K"].split(",")] if "K" in fk else []
        self.shared = None
        self.class_specs = f[3][2:].split(";")
        self.H = f[4][2:].split(",")
        self.ops = [o.split() for o in f[5].split(";") if o.strip()]
        self.A = atoms()
        assert len(self.A) == self.N
        self.keep = []            # keeps every rendered object alive (ids must not be reused)
        self.log = []             # (obj, h, old, new)
        self.fcalls = []          # factory indices, in call order
        self.cur = None           # (instance index, name index) of the operation in progress
        self.fattr = []           # (factory index, instance index, name index)
        self.atom_ids = {id(a): i for i, a in enumerate(self.A)}
        self.fn_cache = {}
        self.failed_defaults = set()
        self.epoch = {}           # (instance, name) -> number of resets so far
        self.slot_after = []      # per op: what is stored under the op's name afterwards

    # ----- factories, handlers
    def template(self, k):
        if k not in self.templates:
            spec = self.F[k]
            xs = [self.A[int(x)] for x in spec[2:].split(".") if x != ""]
            self.templates[k] = (xs if spec[1] == "l" else set(xs) if spec[1] == "s"
                                 else {100 + i: v for i, v in enumerate(xs)})
        return self.templates[k]

    def result_of(self, spec, k=None):
        from traits.api import TraitError
        c = spec[0].lower()
        if c == "s":
            return self.template(k)
        n = len(self.fcalls) - 1          # ordinal of this call (the call was recorded just before)
        if c in ("r", "y"):
            cls = {"T": TraitError, "V": ValueError, "A": AttributeError, "R": RuntimeError}.get(spec[1:2], RuntimeError)
            if c == "r" or n % 2 == 0:
                self.fraised.append((n, exc_name(cls("x"))))
                raise cls("default factory raises")
            return [self.A[int(x)] for x in spec[2:].split(".") if x != ""]
        xs = [int(x) for x in spec[1:].split(".") if x != ""]
        if c == "e":
            return self.A[xs[0]]
        if c == "f":
            return [self.A[x] for x in xs]
        if c == "t":
            return ([], self.A[xs[0]])
        raise RuntimeError("factory raises")

    def factory(self, k):
        def f():
            self.fcalls.append(k)
            self.fattr.append((k,) + (self.cur or (None, None)) + (self.epoch.get(self.cur, 0),))
            return self.result_of(self.F[k], k)
        return f

    def default_method(self, k, name):
        def m(obj):
            self.fcalls.append(k)
            self.fattr.append((k,) + (self.cur or (None, None)) + (self.epoch.get(self.cur, 0),))
            return self.result_of(self.F[k], k)
        m.__name__ = "_%s_default" % name
        return m

    def fire(self, obj, h, old, new):
        self.log.append((obj, h, old, new))
        if h < len(self.H) and self.H[h] == "r":
            raise A.HandlerError("handler raises")

    def static(self, h):
        def m(obj, name, old, new):
            self.fire(obj, h, old, new)
        return m

    def cached(self, key, make):
        if key not in self.fn_cache:
            self.fn_cache[key] = make()
        return self.fn_cache[key]

    def dyn(self, h, name):
        def make():
            def fn(obj, nm, old, new):
                if nm == name:
                    self.fire(obj, h, old, new)
            return fn
        return self.cached(("dyn", h, name), make)

    def anyh(self, h):
        def make():
            def fn(obj, nm, old, new):
                if nm in ("x0", "x1", "x2"):
                    self.fire(obj, h, old, new)
            return fn
        return self.cached(("any", h), make)

    def obs(self, h):
        def make():
            def fn(event):
                self.fire(event.object, h, event.old, event.new)
            return fn
        return self.cached(("obs", h), make)

    # ----- classes
    def member(self, code):
        from traits.api import Any, Dict, Int, List, Set, Tuple, Union
        from traits.api import self as self_trait
        A_ = self.A
        xs = lambda s: [A_[int(x)] for x in s.split(".") if x != ""]     # noqa: E731
        if code[0] == "k":
            if self.shared is None:       # the reusable CTrait objects of this run
                self.shared = [self.member(c).as_ctrait() for c in self.K]
            return self.shared[int(code[1:])]
        if code == "o":
            return self_trait()
        if code[0] == "n":
            return self.inferred_member(code[1], code[2], xs(code[3:]))
        if code.startswith("al"):
            return Any(xs(code[2:]))
        if code.startswith("ad"):
            return Any({100 + i: v for i, v in enumerate(xs(code[2:]))})
        if code.startswith("fa"):
            return Any(factory=self.factory(int(code[2:])))
        if code in ("tl", "td", "bl", "bd"):
            from traits.api import Trait
            ty = list if code[1] == "l" else dict
            return ty if code[0] == "b" else Trait(ty)
        if code.startswith("pa"):
            run = self

            class PostAny(Any):
                def post_setattr(self, object, name, value):
                    getattr(object, name)        # what is stored for the attribute at this moment
                    n = run.npost
                    run.npost += 1
                    if n in run.P:
                        run.post_raised.append(n)
                        raise RuntimeError("post_setattr raises at call %d" % n)
            return PostAny(factory=self.factory(int(code[2:])))
        if code.startswith("vl"):
            return xs(code[2:])
        if code.startswith("vd"):
            return {100 + i: v for i, v in enumerate(xs(code[2:]))}
        if code[0] == "c":
            return Any(A_[int(code[1:])])
        if code[0] == "v":
            return A_[int(code[1:])]
        if code[0] == "L":
            return List(Int, xs(code[1:]))
        if code[0] == "D":
            return Dict(Int, Int, {100 + i: v for i, v in enumerate(xs(code[1:]))})
        if code[0] == "S":
            return Set(Int, set(xs(code[1:])))
        if code[0] == "T":
            return Tuple(List(Int), Int)
        if code[0] == "U":
            return Union(List(Int), None)
        raise AssertionError(code)

    def inferred_member(self, form, cls, items):
        """A trait whose default kind is inferred from the default value (see the module docstring)."""
        import collections
        from traits.api import Dict, Either, Int, List, Str, Trait, TraitType

        class History(list):
            def last(self):
                return self[-1] if self else None

        class Registry(dict):
            def names(self):
                return sorted(self)
        pairs = [(100 + i, v) for i, v in enumerate(items)]
        if cls == "l":
            dv = list(items)
        elif cls == "h":
            dv = History(items)
        elif cls == "m":
            dv = dict(pairs)
        elif cls == "o":
            dv = collections.OrderedDict(pairs)
        elif cls == "d":
            dv = collections.defaultdict(list, pairs)
        elif cls == "c":
            dv = collections.Counter(dict(pairs))
        elif cls == "u":
            dv = Registry(pairs)
        else:
            raise AssertionError(cls)
        base = list if cls in N_LISTY else dict
        self.keep.append(dv)
        if form == "t":
            def validate(self_, object, name, value):
                if isinstance(value, base):
                    return value
                self_.error(object, name, value)
            Custom = type("Custom", (TraitType,), {"default_value": dv, "info_text": "a " + base.__name__,
                                                    "validate": validate})
            return Custom()
        if form == "r":
            return Trait(dv, base)
        if form == "e":
            return Either(List(Int) if base is list else Dict(Int, Int), Str, default=dv)
        raise AssertionError(form)

    def build_classes(self):
        from traits.api import HasTraits
        self.classes = []
        self.names = []
        for spec in self.class_specs:
            bs, ds = spec.split(":", 1)
            base = HasTraits if bs == "-" else self.classes[int(bs)]
            ns = {}
            names = [] if bs == "-" else list(self.names[int(bs)])
            for d in ds.split(","):
                n, rhs = d.split("=", 1)
                name = "x" + n
                hs = None
                if "/h" in rhs:
                    rhs, hs = rhs.split("/h")
                df = None
                if "~" in rhs:
                    rhs, df = rhs.split("~")
                if rhs != "i":
                    ns[name] = self.member(rhs)
                if df is not None:
                    ns["_%s_default" % name] = self.default_method(int(df), name)
                if hs is not None:
                    ns["_%s_changed" % name] = self.static(int(hs))
                if name not in names:
                    names.append(name)
            if bs == "-" and self.falsy == "b":
                ns["__bool__"] = lambda self_: False
            elif bs == "-" and self.falsy == "l":
                ns["__len__"] = lambda self_: 0
            with warnings.catch_warnings():
                warnings.simplefilter("ignore")
                self.classes.append(type("K%d" % len(self.classes), (base,), ns))
            self.names.append(sorted(names))

    # ----- rendering
    def tok(self, o):
        i = self.atom_ids.get(id(o))
        if i is not None and (o is self.A[i]):
            return "p%d" % i
        self.keep.append(o)
        return "@%d@" % id(o)

    def elems(self, o):
        if isinstance(o, dict):
            return list(o.values())
        if isinstance(o, (list, tuple, set, frozenset)):
            return list(o)
        return None

    def show(self, o, depth=0):
        es = self.elems(o)
        if es is None or depth >= 2:
            return self.tok(o)
        at = sorted((e for e in es if self.atom_ids.get(id(e)) is not None and e is self.A[self.atom_ids[id(e)]]),
                    key=lambda e: self.atom_ids[id(e)])
        ot = [e for e in es if not (self.atom_ids.get(id(e)) is not None and e is self.A[self.atom_ids[id(e)]])]
        if depth == 0:
            parts = [self.tok(e) for e in at] + [self.show(e, 1) for e in ot]
        else:
            parts = [self.tok(e) for e in at] + [self.tok(e) for e in ot]
        return "%s[%s]" % (self.tok(o), ",".join(parts))

    def view(self):
        out = []
        for idx, (o, k) in enumerate(self.objs):
            names = self.names[k]
            slots = []
            for nm in names:
                v = o.__dict__.get(nm, A)
                slots.append("%s=%s" % (nm[1:], "-" if v is A else self.show(v)))
            its = sorted(int(nm[1:]) for nm in o._instance_traits() if nm in names)
            lens = []
            for nm in names:
                ns = o._trait(nm, 0)._notifiers(False)
                lens.append("-" if ns is None else str(len(ns)))
            on = o._notifiers(False)
            out.append("I%d(%s;it=%s;n=%s;on=%s)" % (idx, ",".join(slots), ".".join(map(str, its)), ".".join(lens),
                                                      "-" if on is None else len(on)))
        return " ".join(out)

    # ----- execution
    def execute(self, skip=None, record=True):
        """Runs the ops; `skip` = instance index whose operations (except its creation) are left out."""
        self.build_classes()
        self.objs = []
        outs = []
        self.per_op = []       # (op, exc, val, log delta, fcalls delta)
        self.raised_ops = []   # (op, exc, factory raises during the op, slot stored afterwards, log delta)
        self.read_structs = [] # structure of the value read by the op, at the time of the read
        with A.ExcHandlers(False, False), warnings.catch_warnings():
            warnings.simplefilter("ignore")
            if self.W:
                warnings.simplefilter("error", UserWarning)
            for op in self.ops:
                k = op[0]
                if skip is not None and k != "new" and int(op[1]) == skip:
                    continue
                log0, f0, r0 = len(self.log), len(self.fcalls), len(self.fraised)
                p0 = len(self.post_raised)
                exc, val, read, read_struct = None, A, A, None
                self.cur = None
                try:
                    if k == "new":
                        ci = int(op[1])
                        if ci >= len(self.classes):
                            raise IndexError("no such class")
                        o = self.classes[ci]()
                        self.objs.append((o, ci))
                        val = o
                    else:
                        i = int(op[1])
                        if i >= len(self.objs):
                            raise IndexError("no such instance")
                        o, ci = self.objs[i]
                        if k == "ra":
                            o.on_trait_change(self.anyh(int(op[2])))
                        elif k == "q1":
                            o.traits(type="trait")
                            o.trait_names(type="trait")
                            o.editable_traits()
                        elif k == "q2":
                            import copy
                            import pickle
                            for fn in (lambda: copy.copy(o), lambda: o.clone_traits(),
                                       lambda: o.trait_get(transient=None),
                                       lambda: pickle.dumps(o.trait_get(type="trait")), lambda: o.traits(type="trait")):
                                try:
                                    fn()
                                except Exception:
                                    pass
                        elif k == "atn":
                            from traits.api import Any
                            o.add_trait("extra%s" % op[2], Any(self.A[int(op[2])]))
                        else:
                            n = int(op[2])
                            name = "x%d" % n
                            if name not in self.names[ci]:
                                raise AttributeError(name)
                            self.cur = (i, n)
                            if k in ("del", "rst"):
                                self.epoch[(i, n)] = self.epoch.get((i, n), 0) + 1
                            if k == "del":
                                delattr(o, name)
                            elif k == "rst":
                                o.reset_traits([name])
                            elif k == "get":
                                val = getattr(o, name)
                            elif k == "set":
                                setattr(o, name, self.A[int(op[3])])
                            elif k == "sett":
                                setattr(o, name, self.template(int(op[3])))
                            elif k == "mut":
                                read = getattr(o, name)
                                read_struct = structure(self, read)
                                x = self.A[int(op[3])]
                                if isinstance(read, dict):
                                    read[200 + int(op[3])] = x
                                elif isinstance(read, set):
                                    read.add(x)
                                else:
                                    read.append(x)
                                val = read
                            elif k == "mui":
                                read = getattr(o, name)
                                es = self.elems(read)
                                if es is None or not es:
                                    raise IndexError("no first element")
                                if isinstance(read, (set, dict)):
                                    raise AttributeError("element is an atom")     # harness pseudo-op: elements are atoms
                                read[0].append(self.A[int(op[3])])
                                val = read[0]
                            elif k == "rd":
                                o.on_trait_change(self.dyn(int(op[3]), name), name)
                            elif k == "rdi":
                                o.on_trait_change(self.dyn(int(op[3]), name + "_items"), name + "_items")
                            elif k == "ro":
                                o.observe(self.obs(int(op[3])), name)
                            elif k == "at":
                                o.add_trait(name, self.member(op[3]))
                            else:
                                raise AssertionError(op)
                except Exception as e:
                    exc = e
                if (self.cur is not None and self.fcalls[f0:] and not self.fraised[r0:] and exc is not None
                        and self.post_raised[p0:]):
                    self.post_failed.add(self.cur)          # the default was computed; only post_setattr failed
                if self.cur is not None and self.fcalls[f0:] and ("x%d" % self.cur[1]) not in self.objs[self.cur[0]][0].__dict__:
                    self.failed_defaults.add(self.cur)      # the factory ran but no default was established
                if k == "get":
                    read = val
                    read_struct = None if val is A else structure(self, val)
                self.read_structs.append(read_struct)
                self.slot_after.append(self.objs[self.cur[0]][0].__dict__.get("x%d" % self.cur[1], A)
                                       if self.cur is not None else A)
                stored = (self.cur is not None and
                          ("x%d" % self.cur[1]) in self.objs[self.cur[0]][0].__dict__)
                self.raised_ops.append((op, exc, self.fraised[r0:], stored, self.log[log0:]))
                self.per_op.append((op, exc, read, self.log[log0:], self.fcalls[f0:]))
                if record:
                    idx = {id(o): i for i, (o, _) in enumerate(self.objs)}
                    calls = ",".join("%s:%d:%s>%s" % (idx.get(id(ob), "?"), h, self.show(old), self.show(new))
                                     for ob, h, old, new in self.log[log0:])
                    fc = ",".join(str(x) for x in self.fcalls[f0:])
                    outs.append("%s v=%s c=[%s] f=[%s] :: %s" % (
                        "ok" if exc is None else "err " + exc_name(exc), "-" if val is A else self.show(val),
                        calls, fc, self.view()))
        return outs


def renumber(s):
    parts = s.split("@")
    seen = {}
    out = []
    for i, p in enumerate(parts):
        if i % 2 == 1:
            if p not in seen:
                seen[p] = len(seen)
            out.append("#%d" % seen[p])
        else:
            out.append(p)
    return "".join(out)


def structure(run, o, depth=0):
    """Value of an object by structure (no identities): what a sibling must not see change."""
    es = run.elems(o)
    if es is None or depth >= 3:
        i = run.atom_ids.get(id(o))
        if i is not None and o is run.A[i]:
            return "p%d" % i
        idx = {id(x): j for j, (x, _) in enumerate(run.objs)}
        if id(o) in idx:
            return "inst%d" % idx[id(o)]
        return type(o).__name__
    inner = sorted(structure(run, e, depth + 1) for e in es)
    return "%s[%s]" % ("dict" if isinstance(o, dict) else "set" if isinstance(o, (set, frozenset)) else "seq",
                       ",".join(inner))


def containers(run, o, depth=0, acc=None):
    acc = [] if acc is None else acc
    es = run.elems(o)
    if es is not None and not isinstance(o, tuple):
        acc.append(o)
    if es is not None and depth < 3:
        for e in es:
            containers(run, e, depth + 1, acc)
    return acc


def resolve_shared(run, code):
    """k<j>[~f] -> the code of the reusable definition j (keeping the ~f part)."""
    m, sep, d = code.partition("~")
    if m.startswith("k"):
        m = run.K[int(m[1:])]
    return m + sep + d


def _seq(kind, items):
    return "%s[%s]" % (kind, ",".join(sorted(items)))


def spec_structure(spec):
    """Structure of what factory spec returns (None = raises / unknown)."""
    c = spec[0].lower()
    xs = [x for x in spec[1:].split(".") if x != ""]
    if c == "e":
        return "p%s" % xs[0]
    if c == "f":
        return _seq("seq", ["p" + x for x in xs])
    if c == "t":
        return _seq("seq", ["p" + xs[0], "seq[]"])
    if c == "s":
        return _seq({"l": "seq", "d": "dict", "s": "set"}[spec[1]], ["p" + x for x in spec[2:].split(".") if x != ""])
    return None


def member_structure(run, code, inst):
    """Structure of the declared default of a member code (None = unknown)."""
    xs = lambda t: ["p" + x for x in t.split(".") if x != ""]     # noqa: E731
    if code == "o":
        return "inst%d" % inst
    if code[0] == "n":
        return _seq("seq" if code[2] in N_LISTY else "dict", xs(code[3:]))
    if code in ("tl", "bl"):
        return _seq("seq", [])
    if code in ("td", "bd"):
        return _seq("dict", [])
    if code.startswith("al") or code.startswith("vl"):
        return _seq("seq", xs(code[2:]))
    if code.startswith("ad") or code.startswith("vd"):
        return _seq("dict", xs(code[2:]))
    if code.startswith("fa") or code.startswith("pa"):
        return spec_structure(run.F[int(code[2:])])
    if code[0] in "cv":
        return "p" + code[1:]
    if code[0] == "L":
        return _seq("seq", xs(code[1:]))
    if code[0] == "D":
        return _seq("dict", xs(code[1:]))
    if code[0] == "S":
        return _seq("set", xs(code[1:]))
    if code[0] in "TU":
        return spec_structure(run.F[int(code[1:])])
    return None


def declared_default(run, ci, name, inst):
    """The declared default of class ci / name, from the declarations alone: the last member declared along the
    base chain, replaced by the result of the `_name_default` of the class that declares one (a subclass that
    re-declares the trait drops the base's `_name_default`; one that only inherits keeps it)."""
    chain = []
    k = ci
    while True:
        bs, ds = run.class_specs[k].split(":", 1)
        for d in ds.split(","):
            n, rhs = d.split("=", 1)
            if "x" + n == name:
                chain.append(resolve_shared(run, rhs.split("/h")[0]))
        if bs == "-":
            break
        k = int(bs)
    cur = None
    for code in reversed(chain):
        m, sep, d = code.partition("~")
        if m != "i":
            cur = member_structure(run, m, inst)
        if sep:
            cur = spec_structure(run.F[int(d)])
    return cur


def kind_of(run, ci, name):
    """Label of the default kind in effect for class ci / name (for signatures)."""
    lab = None
    chain = []
    k = ci
    while True:
        spec = run.class_specs[k]
        bs, ds = spec.split(":", 1)
        for d in ds.split(","):
            n, rhs = d.split("=", 1)
            if "x" + n == name:
                chain.append(resolve_shared(run, rhs.split("/h")[0]))
        if bs == "-":
            break
        k = int(bs)
    chain.reverse()           # base first
    base = chain[0]

    def lab_of(code):
        code0 = code.split("~")[0]
        if "~" in code:
            return "_name_default"
        if code0[0] == "n":
            return "inferred-%s-%s" % ({"t": "TraitType", "r": "Trait()", "e": "Either"}[code0[1]],
                                       {"l": "list", "h": "list-subclass", "m": "dict", "o": "OrderedDict",
                                        "d": "defaultdict", "c": "Counter", "u": "dict-subclass"}[code0[2]])
        for p, l in (("tl", "Trait(list)"), ("td", "Trait(dict)"), ("bl", "add_trait(list)"), ("bd", "add_trait(dict)"),
                     ("al", "list-of-Any"), ("ad", "dict-of-Any"), ("fa", "factory"), ("pa", "factory"), ("vl", "list"), ("vd", "dict")):
            if code0.startswith(p):
                return l
        return {"c": "constant", "L": "List", "D": "Dict", "S": "Set", "T": "Tuple", "U": "Union", "o": "Self",
                "v": "value", "i": "inherited"}[code0[0]]
    lab = lab_of(base)
    for c in chain[1:]:
        c0 = c.split("~")[0]
        if "~" in c:
            lab = "_name_default"
        elif c0.startswith("vl"):
            lab = "subclass-overridden-list-of-" + ("Any" if lab in ("list-of-Any", "dict-of-Any", "constant", "factory",
                                                                     "_name_default", "Self") else lab)
        elif c0.startswith("vd"):
            lab = "subclass-overridden-dict-of-" + ("Any" if lab in ("list-of-Any", "dict-of-Any", "constant", "factory",
                                                                     "_name_default", "Self") else lab)
        elif c0 == "i":
            pass
        elif c0[0] == "v":
            lab = "subclass-overridden-value"
        else:
            lab = lab_of(c)
    return lab


# ---------------------------------------------------------------------------
# Scenario cases (`#a10x|<scenario>|<param>|ops`, real code + oracle only): state that lives OUTSIDE the attribute
# model — a trait handler shared by all instances, class-level placeholders for undefined names — checked with
# the same twin principle: the run without the acting instance's operations must look the same from every
# other instance (created before or after).

A_CFGS = [{}, {"lo": 0.25, "hi": 0.75}, {"lo": 0.5, "hi": 1.5}, {"lo": 2, "hi": 5}, {"lo": 1.0, "hi": 9.0},
          {"choices": ["a", "b"]}, {"choices": [0.5, 1.5]}, {"flo": 0.25, "fhi": 0.5, "ilo": 3, "ihi": 4},
          {"lo": 0.25, "hi": 0.75, "choices": [7, 8]}]
A_VALUES = [0, 0.5, 3, 7, 1.0, "a", 2, 0.3, 8]
A_ATTRS = ["level", "flevel", "ilevel", "pick", "lo", "hi"]
B_ATTRS = ["tags", "index", "alt", "plain", "raw", "both"]
B_BASES = ["HasStrictTraits", "HasPrivateTraits", "HasTraits"]


def scenario_case(rng, scn):
    """A: defaults / validation that depend on per-instance state read through a handler shared by all instances
    (Range with trait-named bounds of Any / Float / Int type, Enum(values=name)); instances with bounds of
    different numeric types; the acting instance is read and assigned first.
    B: classes (strict, private, plain) holding containers in Union / Either / Instance(list) traits without a
    declared <name>_items trait; the acting instance probes undefined names (hasattr, on_trait_change / observe
    with a missing name, trait(name), getattr with default) and mutates; the others mutate their own defaults."""
    ops = []
    if scn == "A":
        ninst = rng.randint(2, 4)
        cfgs = [rng.randrange(len(A_CFGS)) for _ in range(ninst)]
        if rng.random() < 0.6:
            cfgs[0] = rng.choice([0, 3])                 # an int-bounded instance …
            cfgs[1] = rng.choice([1, 2, 4, 8])           # … and a fractional one
        early = rng.randint(2, ninst)
        for c in cfgs[:early]:
            ops.append("new %d" % c)
        actor = rng.randrange(early)
        for _ in range(rng.randint(1, 6)):
            r = rng.random()
            if r < 0.45:
                ops.append("get %d %s" % (actor, rng.choice(A_ATTRS[:4])))
            elif r < 0.85:
                ops.append("set %d %s %d" % (actor, rng.choice(A_ATTRS[:4]), rng.randrange(len(A_VALUES))))
            elif r < 0.93:
                ops.append("set %d %s %d" % (actor, rng.choice(["lo", "hi"]), rng.randrange(len(A_VALUES))))
            else:
                others = [i for i in range(early) if i != actor]
                ops.append("get %d %s" % (rng.choice(others), rng.choice(A_ATTRS[:4])))
        for c in cfgs[early:]:
            ops.append("new %d" % c)
        body = ";".join(ops)
        return "#a10x|A|-%s|" % ("/" + falsy_switch(body) if falsy_switch(body) else "") + body
    base = rng.randrange(len(B_BASES)) if rng.random() < 0.5 else 0
    ninst = rng.randint(2, 3)
    for _ in range(ninst):
        ops.append("new")
    actor = rng.randrange(ninst)
    for _ in range(rng.randint(1, 5)):
        r = rng.random()
        nm = rng.choice(B_ATTRS)
        if r < 0.25:
            ops.append("has %d %s" % (actor, nm))
        elif r < 0.45:
            ops.append("otc %d %s %d" % (actor, nm, rng.randrange(2)))
        elif r < 0.55:
            ops.append("obs %d %s %d" % (actor, nm, rng.randrange(2)))
        elif r < 0.65:
            ops.append("trt %d %s" % (actor, nm))
        elif r < 0.75:
            ops.append("gad %d %s" % (actor, nm))
        elif r < 0.9:
            ops.append("mut %d %s" % (actor, nm))
        else:
            others = [i for i in range(ninst) if i != actor]
            ops.append("mut %d %s" % (rng.choice(others), nm))
    if rng.random() < 0.5:
        ops.append("new")
    body = ";".join(ops)
    return "#a10x|B|%d%s|" % (base, "/" + falsy_switch(body) if falsy_switch(body) else "") + body


class Scenario:
    def __init__(self, scn, param, ops):
        param, _, self.falsy = param.partition("/")      # owner classes that are alive but falsy (see `B=`)
        self.scn, self.param, self.ops = scn, param, ops
        self.objs = []
        self.calls = []          # (object, handler id)
        self.outcomes = []
        self.low_at_read = {}    # position in outcomes -> the instance's low bound when `level` was read
        self.fns = {}

    def handler(self, h):
        if h not in self.fns:
            def fn(obj, name, old, new):
                self.calls.append((obj, h))
            self.fns[h] = fn
        return self.fns[h]

    def ohandler(self, h):
        if ("o", h) not in self.fns:
            def fn(event):
                self.calls.append((event.object, 10 + h))
            self.fns[("o", h)] = fn
        return self.fns[("o", h)]

    def build(self):
        import traits.api as T
        if self.scn == "A":
            class Gauge(T.HasTraits):
                lo = T.Any(0)
                hi = T.Any(10)
                level = T.Range(low="lo", high="hi")
                flo = T.Float(0.0)
                fhi = T.Float(1.0)
                flevel = T.Range(low="flo", high="fhi")
                ilo = T.Int(0)
                ihi = T.Int(10)
                ilevel = T.Range(low="ilo", high="ihi")
                choices = T.List([1, 2, 3])
                pick = T.Enum(values="choices")
            self.cls = Gauge
        else:
            base = getattr(T, B_BASES[int(self.param)])

            class Store(base):
                tags = T.Union(T.List(T.Str), None)
                index = T.Union(T.Dict(T.Str, T.Int), None)
                alt = T.Either(T.List(T.Int), None)
                plain = T.List(T.Int)
                raw = T.Instance(list, ())
                both = T.Union(T.Set(T.Int), T.List(T.Int))
            self.cls = Store
        if self.falsy == "b":
            self.cls.__bool__ = lambda self_: False
        elif self.falsy == "l":
            self.cls.__len__ = lambda self_: 0

    def new(self, arg=None):
        if self.scn == "A":
            return self.cls(**A_CFGS[int(arg)])
        return self.cls()

    def mutate(self, o, nm):
        c = getattr(o, nm)
        if isinstance(c, dict):
            c["k%d" % len(c)] = len(c)
        elif isinstance(c, set):
            c.add(len(c))
        elif nm == "tags":
            c.append("x")
        else:
            c.append(len(c))

    def apply(self, op):
        k = op[0]
        if k == "new":
            self.objs.append(self.new(op[1] if len(op) > 1 else None))
            return "ok"
        o = self.objs[int(op[1])]
        try:
            if k == "get":
                if op[2] == "level":
                    self.low_at_read[len(self.outcomes)] = (o.lo, o.hi)
                return "ok:%r" % (getattr(o, op[2]),)
            if k == "set":
                setattr(o, op[2], A_VALUES[int(op[3])])
            elif k == "has":
                return "ok:%r" % hasattr(o, op[2] + "_items")
            elif k == "otc":
                o.on_trait_change(self.handler(int(op[3])), op[2] + "_items")
            elif k == "obs":
                o.observe(self.ohandler(int(op[3])), op[2] + "_items")
            elif k == "trt":
                o.trait(op[2] + "_items")
            elif k == "gad":
                getattr(o, op[2] + "_items", None)
            elif k == "mut":
                self.mutate(o, op[2])
            else:
                raise AssertionError(op)
        except Exception as e:
            return "raised " + exc_name(e)
        return "ok"

    def run(self, skip=None, exclude=None):
        with A.ExcHandlers(False, False), warnings.catch_warnings():
            warnings.simplefilter("ignore")
            self.build()
            for op in self.ops:
                if skip is not None and op[0] != "new" and int(op[1]) == skip:
                    continue
                self.outcomes.append((tuple(op), self.apply(op)))
            return self.observe(exclude if exclude is not None else skip)

    def observe(self, actor):
        """What every instance but the acting one shows, plus instances created now."""
        out = {}
        late = []
        if self.scn == "A":
            for c in range(len(A_CFGS)):
                late.append(("late%d" % c, self.new(c)))
        else:
            late.append(("late", self.new()))
        who = [(str(i), o) for i, o in enumerate(self.objs) if i != actor] + late
        idx = {id(o): name for name, o in who}
        for name, o in who:
            if self.scn == "A":
                for at in A_ATTRS[:4]:
                    try:
                        v = getattr(o, at)
                        out[(name, at, "value")] = "%s:%r" % (type(v).__name__, v)
                    except Exception as e:
                        out[(name, at, "value")] = "raises " + exc_name(e)
                    acc = []
                    for val in A_VALUES:
                        try:
                            setattr(o, at, val)
                            v = getattr(o, at)
                            acc.append("%s:%r" % (type(v).__name__, v))
                        except Exception as e:
                            acc.append(exc_name(e))
                    out[(name, at, "accepts")] = acc
            else:
                for at in B_ATTRS:
                    try:
                        self.mutate(o, at)
                        out[(name, at, "mutation")] = "ok"
                    except Exception as e:
                        out[(name, at, "mutation")] = "raised " + exc_name(e)
                    try:
                        out[(name, at, "value")] = repr(getattr(o, at))
                    except Exception as e:
                        out[(name, at, "value")] = "raises " + exc_name(e)
        for ob, h in self.calls:
            if id(ob) in idx:
                out.setdefault((idx[id(ob)], "*", "handler-calls"), []).append(h)
        return out


def run_scenario(case):
    f = case.lstrip("#").split("|")
    scn, param = f[1], f[2]
    ops = [o.split() for o in f[3].split(";") if o.strip()]
    tags = {"scenario:" + scn + (":" + B_BASES[int(param.partition("/")[0])] if scn == "B" else ""),
            "scenario-owner:" + {"": "truthy", "b": "falsy-__bool__", "l": "falsy-__len__"}[param.partition("/")[2]]}
    for o in ops:
        tags.add("scn-op:" + o[0])
    hits = []
    real = Scenario(scn, param, ops)
    actors = {int(o[1]) for o in ops if o[0] not in ("new", "get")}
    others_mut = {int(o[1]) for o in ops if o[0] == "mut"}
    first_actor = next((int(o[1]) for o in ops if o[0] != "new"), None)
    actor = first_actor if scn == "A" else (min(actors - others_mut) if actors - others_mut else first_actor)
    if scn == "B":
        # the acting instance is the one that probes / registers
        probes = [int(o[1]) for o in ops if o[0] in ("has", "otc", "obs", "trt", "gad")]
        actor = probes[0] if probes else first_actor
    robs = real.run(skip=None, exclude=actor)
    # direct clause: a handler registered on one instance hears about that instance only
    reg = {}
    for o in ops:
        if o[0] in ("otc", "obs"):
            reg.setdefault((10 if o[0] == "obs" else 0) + int(o[3]), set()).add(int(o[1]))
    pos = {id(o): i for i, o in enumerate(real.objs)}
    for ob, h in real.calls:
        j = pos.get(id(ob))
        if j is None or j not in reg.get(h, ()):
            hits.append(_hit("handler-heard-other-instance:scenario-" + scn,
                             "handler %d, registered on instance(s) %s only, was called for %s" % (
                                 h, sorted(reg.get(h, ())), "instance %s" % j if j is not None else "a later instance")))
            break
    if scn == "A":
        # direct clause: the first read of a never-assigned dynamic Range returns the instance's OWN low bound
        seen = set()
        for pos_, (op, res) in enumerate(real.outcomes):
            if op[0] == "set" and op[2] == "level":
                seen.add(int(op[1]))
            if op[0] == "get" and op[2] == "level" and int(op[1]) not in seen:
                seen.add(int(op[1]))
                low, high = real.low_at_read.get(pos_, (None, None))
                try:
                    sane = low <= high
                except Exception:
                    sane = False
                if sane and res.startswith("ok") and res != "ok:%r" % (low,):
                    hits.append(_hit("first-read-not-declared-default:dynamic-Range",
                                     "first read of level returned %s, the instance's own low bound is %r" % (res[3:], low)))
    if actor is not None:
        twin = Scenario(scn, param, ops)
        tobs = twin.run(skip=actor)
        real2 = {k: v for k, v in robs.items() if k[0] != str(actor)}
        for key in sorted(set(real2) | set(tobs), key=str):
            if real2.get(key) != tobs.get(key):
                name, at, what = key
                hits.append(_hit("interference:scenario-%s:%s:%s" % (scn, what, at if scn == "B" or what != "accepts" else at),
                                 "operations on instance %d changed the %s of %s on %s: %s instead of %s" % (
                                     actor, what, at, "instance " + name if name.isdigit() else "an instance created "
                                     "afterwards (" + name + ")", str(real2.get(key))[:120], str(tobs.get(key))[:120])))
    seen = set()
    out = []
    for h in hits:
        if h["signature"] not in seen:
            seen.add(h["signature"])
            out.append(h)
    return "scenario " + " ; ".join("%s" % r for _, r in real.outcomes), out, tags


def run_impl(case):
    if case.lstrip("#").startswith("a10x|"):
        return run_scenario(case)
    real = Run(case)
    outs = real.execute()
    tags = set()
    hits = []
    ops = real.ops
    # acting instance = the one with non-read operations (generator guarantees at most one)
    actors = {int(o[1]) for o in ops if o[0] not in ("new", "get")}
    for o in ops:
        tags.add("op:" + o[0])
    tags.add("owner:" + {"": "truthy", "b": "falsy-__bool__", "l": "falsy-__len__"}[real.falsy])
    if real.falsy and any(bool(o) for o, _ in real.objs):
        raise AssertionError("the owner instances of a B= case must be falsy")
    for spec in real.class_specs:
        for d in spec.split(":", 1)[1].split(","):
            code = d.split("=", 1)[1].split("/h")[0]
            tags.add("member:" + ("~" if "~" in code else "") + "".join(ch for ch in code.split("~")[0] if ch.isalpha()))
    # ---- per-op clauses: first read, same object later, silent, once
    first_val = {}
    count = {}
    for (k, i, n, ep) in real.fattr:
        if i is None:
            continue
        count[(i, n, ep)] = count.get((i, n, ep), 0) + 1
    for (i, n, ep), c in count.items():
        if (i, n) in real.post_failed:
            # the default computation itself succeeded and only post_setattr failed during that read: the default
            # was computed (and stored) then; a later read must return it, not compute another one
            tags.add("first-read-post-setattr-raises")
            if c > 1:
                ci = real.objs[i][1]
                hits.append(_hit("default-recomputed-after-failed-first-read:" + kind_of(real, ci, "x%d" % n),
                                 "default factory ran %d times for instance %d attribute x%d: the first read failed "
                                 "in post_setattr AFTER the default had been computed, and a later read computed "
                                 "another one" % (c, i, n)))
            continue
        if (i, n) in real.failed_defaults:
            tags.add("failing-default")
            continue
        if c > 1:
            ci = real.objs[i][1]
            hits.append(_hit("default-computed-twice:" + kind_of(real, ci, "x%d" % n),
                             "default factory / _name_default ran %d times for instance %d attribute x%d%s" % (
                                 c, i, n, " after its reset number %d" % ep if ep else "")))
    assigned = set()
    added = {}              # (instance, name index) -> member code added with add_trait
    items_reg = {}          # (instance, name index) -> handler registered for <name>_items
    for opi, (op, exc, val, dlog, dfc) in enumerate(real.per_op):
        k = op[0]
        if k == "rdi" and exc is None:
            items_reg[(int(op[1]), int(op[2]))] = int(op[3])
        if k == "mut" and exc is None and (int(op[1]), int(op[2])) in items_reg:
            # a List / Dict / Set value reports its item changes to its own instance
            from traits.api import Dict as _D, List as _L, Set as _S
            i, n = int(op[1]), int(op[2])
            o_, ci_ = real.objs[i]
            if isinstance(o_.trait("x%d" % n).handler, (_L, _D, _S)):
                tags.add("items-event-expected")
                if not any(ob is o_ and h == items_reg[(i, n)] for ob, h, _, _ in dlog):
                    hits.append(_hit("items-event-missing:" + kind_of(real, ci_, "x%d" % n),
                                     "mutating the container of x%d on instance %d did not reach the handler registered "
                                     "for x%d_items on that instance" % (n, i, n)))
        if k == "sett":
            key = (int(op[1]), int(op[2]))
            assigned.discard(key)
            first_val.pop(key, None)
            tags.add("template-assigned")
            if exc is None and real.slot_after[opi] is not A:
                first_val[key] = real.slot_after[opi]
            continue
        if k in ("set", "at"):
            if k == "set":
                assigned.add((int(op[1]), int(op[2])))
            elif exc is None:
                added[(int(op[1]), int(op[2]))] = resolve_shared(real, op[3])
            continue
        if k in ("del", "rst"):
            key = (int(op[1]), int(op[2]))
            assigned.discard(key)
            first_val.pop(key, None)
            stored = real.slot_after[opi]
            if key[0] < len(real.objs):
                lab = kind_of(real, real.objs[key[0]][1], "x%d" % key[1])
                tags.add("reset:" + lab + (":notified" if dlog else ""))
                # the default a reset reports to the handlers is the default of the instance: the object stored,
                # which later reads return
                if dlog and exc is None and any(new is not stored for (_, _, _, new) in dlog):
                    hits.append(_hit("reset-reports-other-object:" + lab,
                                     "del reported a default object to a handler that is not the object stored on "
                                     "the instance afterwards (%s)" % ("nothing stored" if stored is A else "another object")))
                if stored is not A and exc is None:
                    first_val[key] = stored
            continue
        if k in ("get", "mut", "mui") and val is not A:
            key = (int(op[1]), int(op[2]))
            ci = real.objs[key[0]][1]
            lab = kind_of(real, ci, "x%d" % key[1])
            if key not in first_val and key not in assigned:
                first_val[key] = val
                tags.add("first-read:" + lab)
                # the first read returns the DECLARED default (by structure; identities are the freshness clause's)
                if k != "mui":
                    want = (member_structure(real, added[key], key[0]) if key in added
                            else declared_default(real, ci, "x%d" % key[1], key[0]))
                    got_s = real.read_structs[opi]
                    if want is not None and got_s is not None and got_s != want:
                        hits.append(_hit("first-read-not-declared-default:" + lab,
                                         "first read of x%d on instance %d returned %s, the declared default is %s" % (
                                             key[1], key[0], got_s, want)))
                # (the items event of the mutation that follows the read, heard by the instance's own
                # <name>_items handler, is not a notification of the read)
                dl = [e for e in dlog if not (k == "mut" and key in items_reg and e[1] == items_reg[key])]
                if dl:
                    hits.append(_hit("default-read-notified:" + lab, "first read of a default reached a handler",
                                     calls=len(dl)))
            elif key in first_val and key not in assigned:
                if val is not first_val[key]:
                    hits.append(_hit("default-not-stable:" + lab, "a later read returned a different object"))
                if dfc:
                    hits.append(_hit("default-recomputed-on-read:" + lab, "a later read ran the default factory again"))
    # ---- a handler registered on one instance hears about that instance only
    reg_on = {}
    for o in ops:
        if o[0] in ("rd", "ro", "rdi"):
            reg_on.setdefault(int(o[3]), set()).add(int(o[1]))
        elif o[0] == "ra":
            reg_on.setdefault(int(o[2]), set()).add(int(o[1]))
    statics = []
    for ci, spec in enumerate(real.class_specs):
        own = {int(d.split("/h")[1]) for d in spec.split(":", 1)[1].split(",") if "/h" in d}
        bs = spec.split(":", 1)[0]
        statics.append(own | (statics[int(bs)] if bs != "-" else set()))
    idx_of = {id(o): i for i, (o, _) in enumerate(real.objs)}
    for ob, h, old, new in real.log:
        j = idx_of.get(id(ob))
        if j is None:
            continue
        if h not in statics[real.objs[j][1]] and j not in reg_on.get(h, ()):
            hits.append(_hit("handler-heard-other-instance",
                             "handler %d, registered on instance(s) %s only, was called for instance %d" % (
                                 h, sorted(reg_on.get(h, ())), j)))
            break
    # ---- a raising default: passed through (same class; UserWarning instead of AttributeError when warnings are
    # errors), nothing stored, nobody notified
    for (op, exc, raised, stored, dlog) in real.raised_ops:
        if not raised or op[0] not in ("get", "mut", "mui"):
            continue
        cls = raised[-1][1]
        tags.add("default-raises:" + cls + (":W" if real.W else ""))
        want = "Other" if (cls == "AttributeError" and real.W) else cls
        if exc is None or exc_name(exc) != want:
            hits.append(_hit("raising-default:wrong-exception:" + cls, "the default factory raised %s, the read raised %s" % (
                cls, "nothing" if exc is None else exc_name(exc))))
        if stored:
            hits.append(_hit("raising-default:stored:" + cls, "a value was stored although the default factory raised"))
        if dlog:
            hits.append(_hit("raising-default:notified:" + cls, "a handler was called although the default factory raised"))
    # ---- freshness: containers reachable from two instances' (never assigned) values are disjoint
    owner = {}
    for k_, t_ in real.templates.items():
        # what a `_name_default` handed out / what was assigned to several instances stays the user's object
        owner[id(t_)] = (-1, "template of factory %d" % k_)
        tags.add("template-default")
        if structure(real, t_) != spec_structure(real.F[k_]):
            hits.append(_hit("template-object-changed", "the object handed out by factory %d (%s) was changed by "
                             "operations on instance values: now %s" % (k_, real.F[k_], structure(real, t_))))
    for idx, (o, ci) in enumerate(real.objs):
        for nm in real.names[ci]:
            n = int(nm[1:])
            if (idx, n) in assigned or nm not in o.__dict__:
                continue
            v = o.__dict__[nm]
            for c in containers(real, v):
                prev = owner.get(id(c))
                if prev is not None and prev[0] != idx:
                    lab = kind_of(real, ci, nm)
                    hits.append(_hit("shared-default:" + lab,
                                     ("instances %d and %d share a mutable default object (attribute %s)" % (
                                         prev[0], idx, nm)) if prev[0] >= 0 else
                                     ("instance %d holds the %s itself, not its own container (attribute %s)" % (
                                         idx, prev[1], nm)), no_shrink=False))
                owner.setdefault(id(c), (idx, nm))
    # ---- non-interference: twin run without the acting instance's operations
    if any(sp[0] == "y" for sp in real.F) or real.P:
        # (likewise a post_setattr hook that raises at given call ordinals of the case)
        # a factory whose outcome depends on how often factories were called before is shared state of the user's
        # own making: the twin run (fewer calls) legitimately sees other outcomes
        tags.add("twin-skipped:stateful-factory")
    elif len(actors) == 1:
        actor = next(iter(actors))
        twin = Run(case)
        twin.execute(skip=actor, record=False)
        # read every attribute of every other instance, and of a fresh instance of every class, in both runs
        for run in (real, twin):
            run.cur = None
            with A.ExcHandlers(False, False), warnings.catch_warnings():
                warnings.simplefilter("ignore")
                run.final = {}
                run.fresh = {}
                for idx, (o, ci) in enumerate(run.objs):
                    if idx == actor:
                        continue
                    for nm in run.names[ci]:
                        try:
                            run.final[(idx, nm)] = structure(run, getattr(o, nm))
                        except Exception as e:
                            run.final[(idx, nm)] = "raises " + exc_name(e)
                        tq = o.traits().get(nm)           # what traits() reports (built from __base_traits__)
                        run.final[(idx, nm, "traits()")] = None if tq is None else (
                            tq.default_kind, structure(run, tq.default_value()[1])
                            if tq.default_value()[0] in (0, 3, 4, 5, 6, 9) else "-")
                        t = o.trait(nm)
                        run.final[(idx, nm, "trait")] = (t.default_kind, int(t.comparison_mode), t.type,
                                                          structure(run, t.default_value()[1])
                                                          if t.default_value()[0] in (0, 3, 4, 5, 6, 9) else "-",
                                                          nm in o._instance_traits())
                # probe assignments: handlers registered through the acting instance must not hear about others
                run.probe_objs = {}
                for idx, (o, ci) in enumerate(run.objs):
                    if idx == actor:
                        continue
                    for nm in run.names[ci]:
                        try:
                            setattr(o, nm, run.A[4])
                        except Exception:
                            pass
                hidden = ("trait_added", "trait_modified")
                for idx, (o, ci) in enumerate(run.objs):
                    if idx != actor:
                        run.final[(idx, "*names", "names")] = sorted(n for n in o.trait_names() if n not in hidden)
                for ci, cls in enumerate(run.classes):
                    # what the class itself reports, and a subclass defined afterwards
                    run.fresh[(ci, "*class", "names")] = (
                        sorted(n for n in cls.class_traits() if n not in hidden),
                        sorted(n for n in cls.__base_traits__ if n not in hidden),
                        sorted(n for n in cls.class_trait_names() if n not in hidden))
                    for nm in run.names[ci]:
                        bt = cls.__base_traits__.get(nm)
                        run.fresh[(ci, nm, "base")] = None if bt is None else (
                            bt.default_kind, structure(run, bt.default_value()[1])
                            if bt.default_value()[0] in (0, 3, 4, 5, 6, 9) else "-")
                    with warnings.catch_warnings():
                        warnings.simplefilter("ignore")
                        late = type("Late%d" % ci, (cls,), {})
                    lo = late()
                    run.keep.append(lo)
                    run.fresh[(ci, "*late", "names")] = (
                        sorted(n for n in late.class_traits() if n not in hidden),
                        sorted(n for n in lo.trait_names() if n not in hidden),
                        [None if lo.traits().get(nm) is None else lo.traits()[nm].default_kind for nm in run.names[ci]])
                for ci, cls in enumerate(run.classes):
                    o = cls()
                    run.probe_objs[id(o)] = ("fresh", ci)
                    run.fresh[(ci, "*fresh", "names")] = sorted(n for n in o.trait_names() if n not in hidden)
                    run.keep.append(o)
                    for nm in run.names[ci]:
                        try:
                            run.fresh[(ci, nm)] = structure(run, getattr(o, nm))
                        except Exception as e:
                            run.fresh[(ci, nm)] = "raises " + exc_name(e)
                    for nm in run.names[ci]:
                        try:
                            setattr(o, nm, run.A[4])
                        except Exception:
                            pass
                        t = cls.class_traits()[nm]
                        ns = t._notifiers(False)
                        run.fresh[(ci, nm, "trait")] = (t.default_kind, int(t.comparison_mode),
                                                         None if ns is None else len(ns))
                run.calls = {}
                idx = {id(o): i for i, (o, _) in enumerate(run.objs)}
                for ob, h, old, new in run.log:
                    i = idx.get(id(ob), run.probe_objs.get(id(ob)))
                    if i is not None and i != actor:
                        run.calls.setdefault(i, []).append(h)      # which handlers heard about this object
        for key in real.final:
            if real.final[key] != twin.final.get(key):
                i, nm = key[0], key[1]
                ci = real.objs[i][1]
                what = ("trait-names" if key[2:] == ("names",) else "traits()" if key[2:] == ("traits()",)
                        else "trait-definition") if len(key) == 3 else "value"
                if nm.startswith("*"):
                    hits.append(_hit("interference:trait-names:other-instance",
                                     "operations on instance %d changed the trait names instance %d reports: %s instead "
                                     "of %s" % (actor, i, real.final[key], twin.final.get(key))))
                    continue
                hits.append(_hit("interference:%s:%s" % (what, kind_of(real, ci, nm)),
                                 "operations on instance %d changed the %s of %s on instance %d: %s instead of %s" % (
                                     actor, what, nm, i, real.final[key], twin.final.get(key))))
        for key in real.fresh:
            if real.fresh[key] != twin.fresh.get(key):
                ci, nm = key[0], key[1]
                if nm.startswith("*"):
                    hits.append(_hit("interference:trait-names:%s" % {"*class": "class", "*late": "later-subclass",
                                                                     "*fresh": "later-instance"}[nm],
                                     "operations on instance %d changed the trait names / definitions reported by %s of "
                                     "class %d: %s instead of %s" % (actor, nm[1:], ci, real.fresh[key], twin.fresh.get(key))))
                    continue
                what = ("class-base-trait" if key[2:] == ("base",) else "class-trait") if len(key) == 3 \
                    else "fresh-instance-default"
                hits.append(_hit("interference:%s:%s" % (what, kind_of(real, ci, nm)),
                                 "operations on instance %d changed the %s of %s of class %d: %s instead of %s" % (
                                     actor, what, nm, ci, real.fresh[key], twin.fresh.get(key))))
        if real.calls != twin.calls:
            hits.append(_hit("interference:handler-calls", "operations on instance %d caused handler calls on "
                             "another instance" % actor, real=str(real.calls)[:200], twin=str(twin.calls)[:200]))
    # one signature per kind is enough
    seen = set()
    uniq = []
    for h in hits:
        if h["signature"] not in seen:
            seen.add(h["signature"])
            uniq.append(h)
    # a shared (constant) mutable default also shows up as interference through the shared object, e.g. when only
    # one instance has materialised it yet: same root cause, same signature
    out = []
    sigs = set()
    for h in uniq:
        s = h["signature"]
        if s.startswith("interference:") and s.count(":") >= 2 and s.split(":", 2)[2].startswith("subclass-overridden-") \
                and s.split(":", 2)[2].endswith("-of-Any"):
            h = dict(h)
            h["signature"] = s = "shared-default:" + s.split(":", 2)[2]
        if s.startswith("first-read-not-declared-default:subclass-overridden-") and s.endswith("-of-Any"):
            h = dict(h)       # the shared object was mutated through another instance before this first read
            h["signature"] = s = "shared-default:" + s.split(":", 1)[1]
        if s not in sigs:
            sigs.add(s)
            out.append(h)
    return renumber(" ; ".join(outs)), out, tags


def nontrivial(case, out):
    return "#" in out or "c=[" in out and "c=[]" not in out
