"""C09 — observe registration is counted, reversible, failure-atomic and weak."""
from . import obslib as O
from . import obsdeco as DECO

PROPERTY = "C09"
DRIVER = "TraitsVerif/Driver/Obs.lean"
PROPS_MODULES = ["TraitsVerif.Props.C09"]
TRANSLATORS = ["obsl", "notl", "nodel"]
RULE = ("histories over the C08 pool interleaving observe / observe(remove=True) of 2 bound-method handlers (each "
        "also through traits.observation.api.observe with a custom dispatcher that is a fresh, equal bound method at "
        "every call = handler keys 10, 11; failing removals of expression lists whose later part was never "
        "registered, on `*` / `+tag` nodes) x 1-3 "
        "random expressions x several roots (n-fold registration, removal in any order, one removal too many, "
        "never-registered removal) with graph mutations, failing registrations/removals (missing trait, "
        "non-container where a container is required, trait of a non-HasTraits value, injected at every position "
        "of a random expression; the oracle demands unchanged notifier populations after every call that raises) and collection of a handler's owner; after EVERY op every Int trait is probed and "
        "the notifier populations are printed; `#gc` cases (implementation only) drop the observing object or the "
        "handler's owner at every point of a history, gc.collect(), check the weakref died and probe. "
        "non-trivial = an op delivered, changed a population or raised; distinct = distinct output line")
TRUSTED = O_TRUSTED = [
    "same model, driver and from-scratch oracle as C08 (harness/props/obslib.py)",
    "SOURCE TIE (translators obsl, notl): the registration walk, the shared undo log, apply_observers and the "
    "notifier reference counting are translated from the source text on every run and the model is PROVED equal "
    "to their interpretation (C09_*_is_source), and so are the IObserver methods of the five observer classes "
    "(translator nodel) and observer_change_handler; the runtime of the interpreters (NodeL primitives, "
    "identity of notifier objects, ==-equal handlers/dispatchers as one identifier) is trusted - see C08 TRUSTED",
    "TEST, not proof: the garbage-collection clause (registrations keep neither the observed object nor a "
    "bound-method handler's owner alive; nothing is called or raised after collection) is checked on the real "
    "code with weakref + gc.collect() at every point of generated histories; the Lean side proves only "
    "C09_dead_is_mute over weak fields flagged dead",
]
ASSUMPTIONS = ["dispatch='same' only",
               "unregistering an expression that was never registered but overlaps an active registration of the "
               "same handler and object is outside the statement (the history is not judged after such a call)",
               "CPython reference counting / gc semantics"]
RULE = RULE + DECO.RULE
EXHAUSTIVE = {"quick": False, "thorough": True}

F4_WITNESS = "obs|3|N,N,N|addt 1 extra 0;setl 0 kids 100 [1,2];obs 0 0 t.kids.1.0 li.1.0 then t.extra.1.0 then"


# regression corpus for the repaired findings F4 / F4b / F4c (fix 4ea62e3): on the
# unrepaired code these give `registration-not-rolled-back:completed-sibling-subtree`,
# `…:completed-sibling-graph` and `removal-not-rolled-back:completed-sibling-subtree`
F4B_WITNESS = "obs|3|N,N,N|addt 0 extra 0;obs 0 0 t.extra.1.0 t.nosuch.1.0 or"
F4C_WITNESS = ("obs|3|2,N,N|obs 0 0 t.child.1.0 t.value.1.0 then;set 0 child 2;"
               "unobs 0 0 t.child.1.0 t.value.1.0 then")


def corpus():
    return [
        F4_WITNESS,
        F4B_WITNESS,
        F4C_WITNESS,
        # fixed f0764c2: `*` + add_trait(List) hooked the `l2_items` companion trait for good
        "obs|3|N,N,N|obs 0 0 any.1;addt 0 l2 0;get 0 l2 100;la 100 1;unobs 0 0 any.1;la 100 2",
        "obs|3|N,N,N|addt 1 l2 1;obs 0 0 t.child.1.0 meta.1 then;set 0 child 1;addt 2 l2 2;set 0 child 2;"
        "unobs 0 0 t.child.1.0 meta.1 then",
        # add_trait('l2', List) abandoned after the `l2_items` companion was defined (the `trait_added`
        # maintainer of `*:*` raises on a str), repeated, then the registration is removed
        "obs|3|N,N,N|obs 0 0 any.0 any.1 then;addt 0 l2 0;addt 0 l2 0;unobs 0 0 any.0 any.1 then;addt 0 l2 0;"
        "get 0 l2 100;la 100 0;addt 1 l2 3",
        # known: ad-hoc attribute defined through another instance (implementation + oracle only)
        "#obs|3|N,N,N|obs 0 0 any.1;obs 0 1 any.1;adhoc 0 1;adhoc 1 2;unobs 0 1 any.1;unobs 0 0 any.1",
        # handler key 10 + h: handler h through traits.observation.api.observe(dispatcher=queue.dispatch),
        # a new bound method at every call: register twice, unregister twice, once too many
        "obs|3|N,N,N|set 0 child 1;obs 10 0 t.child.1.0 t.value.1.0 then;obs 10 0 t.child.1.0 t.value.1.0 then;"
        "obs 0 0 t.child.1.0 t.value.1.0 then;unobs 10 0 t.child.1.0 t.value.1.0 then;"
        "unobs 10 0 t.child.1.0 t.value.1.0 then;unobs 10 0 t.child.1.0 t.value.1.0 then;unobs 0 0 t.child.1.0 t.value.1.0 then",
        # a failing removal on a node with several observables: `[*, value]` with only `*` registered
        "obs|3|N,N,N|addt 0 extra 1;obs 0 0 any.1;unobs 0 0 any.1 t.value.1.0 or;addt 0 xchild 1;unobs 0 0 any.1;unobs 0 0 any.1",
        "obs|3|N,N,N|addt 0 extra 1;obs 1 0 meta.1;unobs 1 0 meta.1 t.mate.1.0 or;unobs 1 0 meta.1",
        # two distinct owners that compare == share a child and register the same handler: one
        # notifier per owner (targets are compared with `is`), one call per registration
        "obs|3|N~0,N~2,N~2|set 2 child 0;set 1 child 0;obs 0 2 t.child.1.0 t.value.1.0 then;"
        "obs 0 1 t.child.1.0 t.value.1.0 then;unobs 0 2 t.child.1.0 t.value.1.0 then;"
        "unobs 0 1 t.child.1.0 t.value.1.0 then;unobs 0 1 t.child.1.0 t.value.1.0 then",
        "obs|3|N,N,N|set 0 child 1;obs 0 0 t.child.1.0 t.value.1.0 then;obs 0 0 t.child.1.0 t.value.1.0 then;"
        "unobs 0 0 t.child.1.0 t.value.1.0 then;unobs 0 0 t.child.1.0 t.value.1.0 then;unobs 0 0 t.child.1.0 t.value.1.0 then",
        "obs|3|N,N,N|set 0 child 1;obs 0 0 t.child.1.0 t.value.1.0 then;kill 0;set 0 child 2",
    ]


def generate(rng, tier):
    nh = {"quick": 2000, "thorough": 50000}.get(tier, 20000)
    ngc = {"quick": 150, "thorough": 3000}.get(tier, 500)
    if tier != "quick":
        yield from O.failure_positions(12)
    else:
        yield from O.failure_positions(5)
    for _ in range(nh):
        yield O.history_c09(rng)
    for _ in range(nh // 6):
        yield O.history_eq(rng, c09=True)
    for _ in range(nh // 8):
        yield O.history_mult(rng, c09=True)
    for _ in range(nh // 6):
        yield O.history_failrm(rng)
    for _ in range(nh // 12):
        yield O.history_filt(rng)
    for _ in range(ngc):
        yield "#gc" + O.history_c09(rng, maxops=8, gc_case=True)
    yield from O.adhoc_cases(rng, 12 if tier == "quick" else 200)
    yield from DECO.corpus()              # `#deco|…`: class shapes with decorator-form observers (obsdeco.py)
    yield from DECO.generate(rng, tier)


def run_impl(case):
    if case.startswith("#deco|"):
        return DECO.run_case(case)
    if case.startswith("#gc"):
        return O.run_gc_case(case[3:])
    out, _hits08, hits09, tags = O.run_case(case)
    return out, hits09, tags


def nontrivial(case, out):
    return any(("D{}" not in s) or ("P{}" not in s) or s.startswith("err") for s in out.split(" ; "))
