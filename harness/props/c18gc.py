"""C18, three more families executed in the subprocess server (props/subserver.py), twins of Props/C18GC.lean:

#GREF kind|fields|variant     what tp_traverse REPORTS.  A generated object (HasTraits instance of a class defined in a
   function, with / without values, instance traits, object-level and trait-level notifiers; a CTrait - Python class
   `traits.ctrait.CTrait` or the static `ctraits.cTrait` - with a chosen subset of its eight reference members set
   to distinct payload objects, some payloads put into two members) is handed to `gc.get_referents` and the answer
   is compared, as a MULTISET of identities, with what the members hold (+ the class, once, for an instance of a heap
   type: `subtype_traverse` reports it).  A reference reported more often than it is held makes the collector
   under-count the external references of the target (a live object is cleared); one reported less often makes
   cycles through it immortal.
#GLIVE variant extra garbage  what the collector DOES with it.  A class defined inside a function, referenced by
   1 + `extra` locals of the running frame only; `garbage` instances in reference cycles (through a trait value, a
   list value, a handler closure, an instance trait / a CTrait subclass: handler, __dict__, default value) are
   dropped; gc.collect(); then the class is USED (instantiated, a trait read, assigned, its handler called, its MRO
   and class traits inspected).  An exception ('No ctrait_dict', …) or a crash is a hit.
#REJ setter|shape|prior       a raw CTrait setter REFUSES its argument.  For every setter (set_default_value,
   set_validate, delegate, _set_property, post_setattr, comparison_mode, __dict__, clone, the flag properties, …) x
   every malformed argument shape (wrong type, wrong tuple length, kind out of range, non-callable where a
   callable is wanted, refused (callable, args, kw) triples, attribute deletion) x nine previously valid
   configurations of the trait: when the call raises, `default_value()`, `__getstate__()`, `_get_property()`,
   `get_validate()`, `post_setattr`, `handler`, `comparison_mode` and the flag properties must be what they were,
   and USING the trait on fresh objects (instance trait and class attribute: default_value_for, read, two
   assignments, delete) must give what it gave before the call.  Runs in the crash-isolated subprocess: a crash in
   the use is reported with the program (the case line) as replay.
#DPX kind|value|op            a class-prefix delegate (`Delegate('d', prefix='*')`, also modify=True, PrototypedFrom)
   whose owner class gets a NON-STRING `__prefix__` (int, None, bytes, float, tuple, object) after a first successful
   read: reading / assigning the delegated attribute must raise TypeError (the name computation fails), never
   crash, and with a str `__prefix__` restored the delegate must work again.
"""
import json

# ===================================================================== child side: GREF

HT_VARIANTS = ["plain", "values", "itrait", "anynotifier", "traitnotifier", "all", "self-cycle", "list-value",
               "observe"]
CT_FIELDS = ["post", "validate", "dflt", "dname", "dprefix", "notifiers", "handler", "dict"]
CT_VARIANTS = ["heap", "static", "heap-shared", "static-shared", "from-class"]


def do_GREF(spec):
    import gc
    import traits.api as T
    from traits import ctraits
    from traits.ctrait import CTrait
    kind, variant = spec["kind"], spec["variant"]
    problems = []

    def compare(obj, expected, label, got=None):
        """expected: list of (name, object) the object legitimately holds; multiset comparison by identity."""
        if got is None:
            got = gc.get_referents(obj)
        gcount, ecount, names = {}, {}, {}
        for x in got:
            gcount[id(x)] = gcount.get(id(x), 0) + 1
        for n, x in expected:
            ecount[id(x)] = ecount.get(id(x), 0) + 1
            names.setdefault(id(x), []).append(n)
        for i, c in gcount.items():
            if c != ecount.get(i, 0):
                what = "+".join(names.get(i, [])) or next(type(x).__name__ for x in got if id(x) == i)
                who = next(x for x in got if id(x) == i)
                problems.append({"label": label, "what": what, "reported": c, "held": ecount.get(i, 0),
                                 "is_class": who is type(obj)})
        for i, c in ecount.items():
            if i not in gcount:
                problems.append({"label": label, "what": "+".join(names[i]), "reported": 0, "held": c,
                                 "is_class": False})

    if kind == "hastraits":
        def mk():
            class A(T.HasTraits):
                x = T.Int(3)
                ref = T.Any()
                lst = T.List()

                def _x_changed(self, new):
                    pass
            return A
        A = mk()
        a = A()
        want_it = want_nt = False
        if variant in ("values", "all"):
            a.x = 5
            a.ref = [1, 2]
        if variant in ("itrait", "all"):
            a.add_trait("z", T.Int(4))
            a.z = 9
            want_it = True
        if variant in ("anynotifier", "all"):
            a.on_trait_change(lambda: None)
            want_nt = True
        if variant in ("traitnotifier", "all"):
            a.on_trait_change(lambda: None, "x")
            want_it = True                     # the handler lives on an instance trait
        if variant == "self-cycle":
            a.ref = a
        if variant == "list-value":
            a.lst = [a]
        if variant == "observe":
            a.observe(lambda e: None, "x")
            want_it = True
        # 1. the object as built: the optional members (instance-trait dict, notifier list) are read AFTER the
        #    referents were taken, because their accessors create the member when it is absent
        got = gc.get_referents(a)
        got_ids = set(id(x) for x in got)
        it = a._instance_traits()
        nt = a._notifiers(True)
        expected = [("class", A), ("ctrait_dict", a._class_traits()), ("obj_dict", a.__dict__)]
        if id(it) in got_ids or want_it:
            expected.append(("itrait_dict", it))
        if id(nt) in got_ids or want_nt:
            expected.append(("notifiers", nt))
        compare(a, expected, "as-built", got)
        # 2. now that all four members exist
        compare(a, [("class", A), ("ctrait_dict", a._class_traits()), ("obj_dict", a.__dict__),
                    ("itrait_dict", it), ("notifiers", nt)], "all-members")
        return {"problems": problems, "n": len(gc.get_referents(a))}

    if kind == "ctrait":
        fields = spec["fields"]
        shared = variant.endswith("shared")

        class Payload(object):
            def __init__(self, i):
                self.i = i

            def __call__(self, *args):
                return args[-1] if args else None

        class S(str):
            pass
        if variant == "from-class":
            class H(T.HasTraits):
                v = T.List(T.Int)
                p = T.Property(T.Int)
                i = T.Int(7)
            for name in ("v", "p", "i"):
                t = H.__dict__["__class_traits__"][name] if name in H.__dict__["__class_traits__"] else None
                if t is None:
                    continue
                prop = t._get_property()
                expected = [("class", type(t))]
                pairs = [("post", t.post_setattr), ("validate", t.get_validate()),
                         ("dflt", t.default_value()[1] if t.default_value()[0] != 8 or True else None),
                         ("handler", t.handler), ("dict", t.__dict__), ("notifiers", t._notifiers(False))]
                if prop is not None:
                    pairs += [("dname", prop[0]), ("dprefix", prop[1])]
                    if prop[2] is not None and prop[2] is not t.get_validate():
                        pairs.append(("validate", prop[2]))
                st = t.__getstate__()
                got = gc.get_referents(t)
                # members whose content cannot be read back through the API (delegate names of non-properties, a NULL
                # default): take them from the state tuple
                have = [x for _, x in pairs if x is not None]
                for idx, nm in ((9, "dname"), (10, "dprefix"), (7, "dflt"), (3, "post"), (5, "validate")):
                    if prop is None or nm not in ("dname", "dprefix"):
                        x = st[idx]
                        if x is not None and not any(x is h for h in have) and any(x is g for g in got):
                            pairs.append((nm, x))
                            have.append(x)
                expected += [(n, x) for n, x in pairs if x is not None]
                compare(t, expected, "class-trait-" + name)
            return {"problems": problems, "n": 0}
        cls = CTrait if variant.startswith("heap") else ctraits.cTrait
        t = cls(0)
        expected = [("class", cls)] if variant.startswith("heap") else []
        P = [Payload(i) for i in range(8)]
        for j, f in enumerate(fields):
            p = P[0] if (shared and j % 2 == 0) else P[j]
            if f == "post":
                t.post_setattr = p
            elif f == "validate":
                t.set_validate(p)
            elif f == "dflt":
                t.set_default_value(0, p)
            elif f in ("dname", "dprefix"):
                continue
            elif f == "handler":
                t.handler = p
            elif f == "dict":
                p = {"k": p}
                t.__dict__ = p
            elif f == "notifiers":
                p = t._notifiers(True)
            else:
                raise ValueError(f)
            expected.append((f, p))
        if "dname" in fields or "dprefix" in fields:
            if "validate" in fields:
                # _set_property stores its validator into py_validate (replacing what set_validate put there)
                t._set_property(P[6], 0, P[7], 0, P[5], 0)
                expected = [(n, x) for n, x in expected if n != "validate"]
                expected += [("dname", P[6]), ("dprefix", P[7]), ("validate", P[5])]
            else:
                n1, n2 = S("target"), S("pre")
                t.delegate(n1, n2, 0, True)
                expected += [("dname", n1), ("dprefix", n2)]
        compare(t, expected, "fields")
        return {"problems": problems, "n": len(expected)}
    raise ValueError(kind)


# ===================================================================== child side: GLIVE

LIVE_VARIANTS = ["self-ref", "list-value", "handler-closure", "instance-trait", "pair", "ctrait-handler",
                 "ctrait-dict", "ctrait-default"]


def do_GLIVE(spec):
    import gc
    import traits.api as T
    from traits.ctrait import CTrait
    variant, extra, garbage = spec["variant"], spec["extra"], spec["garbage"]
    is_ct = variant.startswith("ctrait")

    def make_class():
        if is_ct:
            class C(CTrait):
                pass
            return C

        class A(T.HasTraits):
            x = T.Int(3)
            ref = T.Any()
            lst = T.List()

            def _x_changed(self, new):
                self.seen = new
        return A

    def use(cls):
        """Everything a live class must still be able to do; a list of failures."""
        bad = []
        try:
            if cls.__mro__ is None or len(cls.__mro__) < 3:
                bad.append("mro=%r" % (cls.__mro__,))
            if is_ct:
                t = cls(0)
                t.set_default_value(0, 41)
                t.handler = t
                if t.default_value() != (0, 41):
                    bad.append("default_value()")
                t.handler = None

                class Host(T.HasTraits):
                    pass
                h = Host()
                h.add_trait("z", t)
                if h.z != 41:
                    bad.append("read through a fresh trait of the class: %r" % (h.z,))
            else:
                if "__class_traits__" not in cls.__dict__ or "x" not in cls.__dict__["__class_traits__"]:
                    bad.append("class traits gone")
                o = cls()
                if o.x != 3:
                    bad.append("default read %r" % (o.x,))
                o.x = 7
                if o.x != 7 or o.__dict__.get("seen") != 7:
                    bad.append("assignment / static handler")
                o.lst = [1]
                if o.trait("x") is None or "x" not in o.trait_names():
                    bad.append("trait()")
        except BaseException as e:      # a cleared class raises all sorts of errors
            bad.append("%s: %s" % (type(e).__name__, str(e)[:80]))
        return bad

    def scenario():
        cls = make_class()
        r1 = cls if extra >= 1 else None
        r2 = cls if extra >= 2 else None
        r3 = cls if extra >= 3 else None
        for k in range(garbage):
            o = cls(0) if is_ct else cls()
            if variant == "self-ref":
                o.ref = o
            elif variant == "list-value":
                o.lst = [o]
            elif variant == "handler-closure":
                o.on_trait_change(lambda o=o: o, "x")
            elif variant == "instance-trait":
                o.add_trait("z", T.Any())
                o.z = o
            elif variant == "pair":
                p = cls()
                o.ref, p.ref = p, o
                del p
            elif variant == "ctrait-handler":
                o.handler = o
            elif variant == "ctrait-dict":
                o.__dict__ = {"me": o}
            elif variant == "ctrait-default":
                o.set_default_value(0, [o])
            else:
                raise ValueError(variant)
            del o
        gc.collect()
        bad = use(cls)
        del r1, r2, r3
        return bad

    was = gc.isenabled()
    gc.disable()
    try:
        gc.collect()
        bad = scenario()
    finally:
        if was:
            gc.enable()
    ans = {"bad": bad}
    if bad:
        ans["exiting"] = True       # a type object was torn down while in use: nothing in this process is trustworthy
    return ans


# ===================================================================== child side: REJ

PRIORS = ["int", "const", "cargs", "callable", "validated", "property", "delegate", "list", "bare"]


def _f(*args):
    return args[-1] if args else None


class BadBool(object):
    def __bool__(self):
        raise ZeroDivisionError("bool")


class NotCallable(object):
    pass


BIG = 2 ** 70

# setter -> [(shape name, argument tuple)]; `_f` is a callable; for attribute setters the tuple has one element,
# the shape `del` deletes the attribute
SHAPES = {
    "set_default_value": [
        ("noargs", ()), ("one-arg", (0,)), ("three-args", (0, 1, 2)), ("kind-str", ("x", 1)), ("kind-none", (None, 1)),
        ("kind-neg", (-1, 1)), ("kind-max+1", (13, 1)), ("kind-max+2", (14, 1)), ("kind-big", (BIG, 1)), ("kind-float", (1.5, 1)),
        ("cargs-none", (7, None)), ("cargs-int", (7, 123)), ("cargs-2tuple", (7, (int, (2,)))),
        ("cargs-4tuple", (7, (int, 2, 3, 4))), ("cargs-list", (7, [len, ((),), None])), ("cargs-empty", (7, ())),
        ("cargs-str", (7, "abc")), ("cargs-dict", (7, {1: 2, 3: 4, 5: 6})),
    ],
    "set_validate": [
        ("noargs", ()), ("two-args", (_f, _f)), ("none", (None,)), ("int", (5,)), ("str", ("s",)), ("list", ([11, int],)),
        ("empty", ((),)), ("kind-99", ((99,),)), ("kind-neg", ((-1,),)), ("kind-str", (("a",),)), ("kind-big", ((BIG,),)),
        ("kind-none", ((None,),)),
        ("k0-short", ((0,),)), ("k0-nontype", ((0, 5),)), ("k0-long", ((0, None, int, int),)),
        ("k1-short", ((1,),)), ("k1-long", ((1, None, int, 3),)), ("k2-long", ((2, 1, 2),)),
        ("k3", ((3, 1),)), ("k4-short", ((4, 1, 2),)), ("k4-long", ((4, 1, 2, 3, 4),)), ("k5-nontuple", ((5, 1),)),
        ("k5-short", ((5,),)), ("k6-nondict", ((6, []),)), ("k6-short", ((6,),)), ("k7-short", ((7,),)),
        ("k7-nontuple", ((7, 5),)), ("k8", ((8, 1),)), ("k9-short", ((9,),)), ("k9-nontuple", ((9, 5),)),
        ("k10-short", ((10,),)), ("k10-noncallable", ((10, 5, 0, None),)), ("k11-short", ((11,),)),
        ("k11-long", ((11, int, int),)), ("k12-short", ((12,),)), ("k13-noncallable", ((13, 5),)),
        ("k13-short", ((13,),)), ("k14", ((14, _f),)), ("k15", ((15,),)), ("k19-short", ((19, int),)),
        ("k19-long", ((19, int, 0, False, 1),)), ("k20-long", ((20, 1),)), ("k23-long", ((23, 1),)), ("k24", ((24,),)),
        ("tuple-subclass", (type("TS", (tuple,), {})((11, int)),)),
    ],
    "delegate": [
        ("noargs", ()), ("two-args", ("a", "b")), ("five-args", ("a", "b", 0, True, 1)), ("name-int", (5, "x", 0, True)),
        ("name-bytes", (b"a", "x", 0, True)), ("name-none", (None, "x", 0, True)), ("prefix-int", ("a", 5, 0, True)),
        ("prefix-none", ("a", None, 0, True)), ("type-str", ("a", "b", "c", True)), ("type-big", ("a", "b", BIG, True)),
        ("type-none", ("a", "b", None, True)), ("modify-badbool", ("a", "b", 0, BadBool())),
    ],
    "_set_property": [
        ("noargs", ()), ("four-args", (_f, 0, _f, 0)), ("seven-args", (_f, 0, _f, 0, None, 0, 1)),
        ("get-int", (5, 0, _f, 0, None, 0)), ("get-none", (None, 0, _f, 0, None, 0)), ("set-int", (_f, 0, 5, 0, None, 0)),
        ("set-none", (_f, 0, None, 0, None, 0)), ("validate-int", (_f, 0, _f, 0, 5, 0)),
        ("validate-noncallable", (_f, 0, _f, 0, NotCallable(), 0)), ("get_n-4", (_f, 4, _f, 0, None, 0)),
        ("get_n-neg", (_f, -1, _f, 0, None, 0)), ("set_n-4", (_f, 0, _f, 4, None, 0)), ("set_n-neg", (_f, 0, _f, -1, None, 0)),
        ("validate_n-4", (_f, 0, _f, 0, _f, 4)), ("validate_n-neg", (_f, 0, _f, 0, _f, -1)),
        ("validate_n-4-none", (_f, 0, _f, 0, None, 4)), ("get_n-str", (_f, "a", _f, 0, None, 0)),
        ("set_n-big", (_f, 0, _f, BIG, None, 0)), ("validate_n-none", (_f, 0, _f, 0, _f, None)),
    ],
    "post_setattr": [("int", (5,)), ("str", ("s",)), ("tuple", ((),)), ("noncallable", (NotCallable(),)), ("del", None)],
    "comparison_mode": [("neg", (-1,)), ("three", (3,)), ("str", ("x",)), ("big", (BIG,)), ("none", (None,)),
                        ("float", (1.5,)), ("del", None)],
    "__dict__": [("int", (5,)), ("none", (None,)), ("list", ([],)), ("del", None)],
    "handler": [("del", None)],
    "clone": [("noargs", ()), ("int", (5,)), ("none", (None,)), ("two-args", (None, None)), ("hastraits", ("HT",))],
    "modify_delegate": [("badbool", (BadBool(),)), ("del", None)],
    "setattr_original_value": [("badbool", (BadBool(),)), ("del", None)],
    "post_setattr_original_value": [("badbool", (BadBool(),)), ("del", None)],
    "is_mapped": [("badbool", (BadBool(),)), ("del", None)],
    "__setstate__": [("noargs", ()), ("int", (5,)), ("empty", ((),)), ("short", ((0, 0, 0),)), ("none", (None,))],
    "_notifiers": [("noargs", ()), ("badbool", (BadBool(),)), ("two-args", (True, True))],
    "default_value_for": [("noargs", ()), ("one-arg", (None,)), ("three-args", (None, "z", 1))],
}
FLAG_SETTERS = ("modify_delegate", "setattr_original_value", "post_setattr_original_value", "is_mapped")
ATTR_SETTERS = ("post_setattr", "comparison_mode", "__dict__", "handler", "modify_delegate", "setattr_original_value",
                "post_setattr_original_value", "is_mapped")


def _shape_args(setter, shape):
    for n, a in SHAPES[setter]:
        if n == shape:
            return a
    raise ValueError("no shape %s of %s" % (shape, setter))


def do_REJ(spec):
    import traits.api as T
    from traits.ctrait import CTrait
    from props.seqlib import exc_name
    setter, shape, prior, do_use = spec["setter"], spec["shape"], spec["prior"], spec.get("use", True)
    args = _shape_args(setter, shape)

    class Target(T.HasTraits):
        x = T.Int(42)

    # ---- a previously valid configuration
    if prior == "int":
        class A(T.HasTraits):
            x = T.Int(12345)
        t = A().trait("x")
    elif prior == "list":
        class A(T.HasTraits):
            x = T.List(T.Int, [1, 2])
        t = A().trait("x")
    else:
        t = CTrait({"property": 4, "delegate": 3}.get(prior, 0))
        t.__dict__ = {}
        if prior == "const":
            t.set_default_value(0, 5)
        elif prior == "cargs":
            t.set_default_value(7, (list, ((1, 2),), None))
        elif prior == "callable":
            t.set_default_value(8, lambda o: 3)
        elif prior == "validated":
            t.set_validate((11, int))
            t.post_setattr = _f
            t.set_default_value(0, 1)
        elif prior == "property":
            t._set_property(lambda o: 17, 1, lambda o, v: None, 2, lambda v: v, 1)
        elif prior == "delegate":
            t.delegate("target", "x", 0, True)
        elif prior != "bare":
            raise ValueError(prior)

    def state():
        st = {}
        for nm, f in (("default_value()", lambda: t.default_value()), ("__getstate__()", lambda: t.__getstate__()),
                      ("_get_property()", lambda: t._get_property()), ("get_validate()", lambda: t.get_validate()),
                      ("post_setattr", lambda: t.post_setattr), ("handler", lambda: t.handler),
                      ("comparison_mode", lambda: int(t.comparison_mode)), ("is_property", lambda: t.is_property),
                      ("modify_delegate", lambda: t.modify_delegate),
                      ("setattr_original_value", lambda: t.setattr_original_value),
                      ("post_setattr_original_value", lambda: t.post_setattr_original_value),
                      ("is_mapped", lambda: t.is_mapped), ("__dict__", lambda: t.__dict__),
                      ("_notifiers(False)", lambda: t._notifiers(False))):
            try:
                st[nm] = ("v", f())
            except Exception as e:
                st[nm] = ("e", exc_name(e))
        return st

    def same(a, b):
        if a is b:
            return True
        if type(a) is not type(b):
            return False
        if isinstance(a, tuple):
            return len(a) == len(b) and all(same(x, y) for x, y in zip(a, b))
        if isinstance(a, (int, str, bool, float)):
            return a == b
        return False

    def show(v):
        r = repr(v)
        return r if len(r) < 60 and " at 0x" not in r else type(v).__name__

    def use():
        """The trait on fresh objects: instance trait and class attribute."""
        out = []

        def host():
            class Host(T.HasTraits):
                target = T.Instance(Target, ())
            return Host

        def rec(label, f):
            try:
                v = f()
                out.append("%s=%s" % (label, show(v)))
            except Exception as e:
                out.append("%s!%s" % (label, exc_name(e)))
        h = host()()
        h.add_trait("z", t)
        rec("dvf", lambda: t.default_value_for(h, "z"))
        rec("get", lambda: h.z)
        h = host()()
        h.add_trait("z", t)
        rec("set1", lambda: setattr(h, "z", 1))
        rec("get1", lambda: h.z)
        rec("setS", lambda: setattr(h, "z", "a"))
        rec("del", lambda: delattr(h, "z"))
        h = host()()
        h.add_trait("z", t)
        h.on_trait_change(_f, "z")
        rec("del-listened", lambda: delattr(h, "z"))
        H2 = type(T.HasTraits)("H2", (host(),), {"z": t})
        rec("cls-get", lambda: H2().z)
        h2 = H2()
        rec("cls-set", lambda: setattr(h2, "z", 2))
        rec("cls-get2", lambda: h2.z)
        rec("trait_get", lambda: sorted(H2().trait_get("z")))
        return out

    before = state()
    used_before = use() if do_use else None
    before2 = state()
    if any(not same(before[k], before2[k]) for k in before):
        return {"error": "using the trait changed its state: %s" % [k for k in before if not same(before[k], before2[k])]}
    # ---- the call
    if args is not None and len(args) == 1 and args[0] == "HT" and setter == "clone":
        args = (Target(),)
    try:
        if setter in ATTR_SETTERS:
            if args is None:
                delattr(t, setter)
            else:
                setattr(t, setter, args[0])
        elif setter == "default_value_for":
            t.default_value_for(*args)
        else:
            getattr(t, setter)(*args)
        raised = None
    except Exception as e:
        raised = exc_name(e)
    if raised is None:
        return {"out": "accepted"}
    after = state()
    changed = [k for k in before if not same(before[k], after[k])]
    ans = {"out": "raised " + raised, "changed": [
        "%s: %s -> %s" % (k, show(before[k][1]), show(after[k][1])) for k in changed]}
    if do_use:
        used_after = use()
        ans["use_diff"] = [[a, b] for a, b in zip(used_before, used_after) if a != b]
        ans["use"] = used_after
    return ans


# ===================================================================== child side: DPX

DPX_KINDS = ["delegate", "delegate-modify", "prototyped", "delegate-listened"]
DPX_VALUES = ["int", "none", "bytes", "float", "tuple", "object", "list"]
DPX_OPS = ["read", "write", "read-fresh", "write-fresh"]


def do_DPX(spec):
    import traits.api as T
    from props.seqlib import exc_name
    kind, value, op = spec["kind"], spec["value"], spec["op"]
    bad = {"int": 5, "none": None, "bytes": b"p", "float": 1.5, "tuple": ("p",), "object": NotCallable(),
           "list": ["p"]}[value]

    class D(T.HasTraits):
        px = T.Int(7)
        x = T.Int(1)

    if kind == "prototyped":
        tr = T.PrototypedFrom("d", prefix="*")
    else:
        tr = T.Delegate("d", prefix="*", modify=(kind == "delegate-modify"))

    class A(T.HasTraits):
        __prefix__ = "p"
        d = T.Instance(D, ())
        x = tr
    a = A()
    if kind == "delegate-listened":
        a.on_trait_change(_f, "x")
    if a.x != 7:
        return {"error": "the delegate does not work to begin with: %r" % (a.x,)}
    A.__prefix__ = bad
    if op.endswith("fresh"):
        try:
            a = A()         # the Python-level listener set-up formats the prefix with %s and may refuse the result
        except Exception as e:
            A.__prefix__ = "p"
            return {"out": "construct-raised " + exc_name(e), "after": "ok", "not_applicable": True}
    try:
        if op.startswith("read"):
            r = a.x
            out = "returned " + type(r).__name__
        else:
            a.x = 1
            out = "assigned"
    except BaseException as e:
        out = "raised " + exc_name(e) + " " + type(e).__name__
    A.__prefix__ = "p"
    b = A()
    try:
        after = "ok" if b.x == 7 and a.d.px in (7, 1) else "wrong"
    except Exception as e:
        after = "raised " + type(e).__name__
    return {"out": out, "after": after}


# ===================================================================== parent side

def dpx_spec(case):
    p = [x.strip() for x in case[len("#DPX "):].split("|")]
    return {"kind": p[0], "value": p[1], "op": p[2]}


def judge_dpx(case, ans, crash_summary):
    sp = dpx_spec(case)
    rw = "read" if sp["op"].startswith("read") else "write"
    if "crash" in ans:
        return "crash", [{"signature": "crash:delegate-prefix-not-str:" + rw,
                          "what": "class A(HasTraits): __prefix__ = 'p'; d = Instance(D, ()); x = %s; a.x (fine); "
                                  "A.__prefix__ = <%s>; then %s of a.x kills the interpreter: %s" % (
                                      sp["kind"], sp["value"], sp["op"], crash_summary(ans)),
                          "stderr_tail": ans.get("stderr", "")[-1500:]}]
    if ans.get("error"):
        return "harness-exception " + ans["error"], []
    hits = []
    out = ans["out"]
    if ans.get("not_applicable"):
        return out, hits
    if not out.endswith(" TypeError"):
        hits.append({"signature": "delegate-prefix-not-str:wrong-exception:" + rw,
                     "what": "%s with a non-string `__prefix__` (%s) on the owner class: %s of the delegated attribute "
                             "%s; the name computation cannot succeed: TypeError expected" % (
                                 sp["kind"], sp["value"], sp["op"], out)})
    if ans.get("after") != "ok":
        hits.append({"signature": "delegate-prefix-not-str:broken-afterwards:" + rw,
                     "what": "after the failed %s and with `__prefix__ = 'p'` restored the delegate gives %s" % (
                         sp["op"], ans.get("after"))})
    return out.split(" ")[0] + " " + out.split(" ")[-1], hits


def gen_dpx(rng, tier):
    out = []
    for k in DPX_KINDS:
        for v in DPX_VALUES:
            for op in DPX_OPS:
                if tier == "quick" and v not in ("int", "none") and rng.random() < 0.6:
                    continue
                out.append("#DPX %s|%s|%s" % (k, v, op))
    return out


def gref_spec(case):
    p = [x.strip() for x in case[len("#GREF "):].split("|")]
    return {"kind": p[0], "fields": [f for f in p[1].split() if f], "variant": p[2]}


def judge_gref(case, ans, crash_summary):
    sp = gref_spec(case)
    if "crash" in ans:
        return "crash", [{"signature": "crash:gc-referents:" + sp["kind"],
                          "what": "gc.get_referents of a generated %s object: %s" % (sp["kind"], crash_summary(ans)),
                          "stderr_tail": ans.get("stderr", "")[-1500:]}]
    if ans.get("error"):
        return "harness-exception " + ans["error"], []
    hits = []
    for p in ans.get("problems", []):
        if p["is_class"] and p["reported"] > p["held"]:
            sig = "gc-referents:class-visited-twice:" + sp["kind"]
            what = ("tp_traverse of a %s instance reports the instance's class %d times; the instance holds %d "
                    "reference to it (the collector under-counts the external references of the class: with as many "
                    "garbage instances as frame references the live class is cleared)" % (
                        sp["kind"], p["reported"], p["held"]))
        else:
            sig = "gc-referents:mismatch:%s:%s" % (sp["kind"], p["what"])
            what = ("tp_traverse of a %s object (%s, %s) reports %s %d time(s), the object holds %d reference(s) to it" % (
                sp["kind"], sp["variant"], p["label"], p["what"], p["reported"], p["held"]))
        hits.append({"signature": sig, "what": what})
        break
    return "ok n=%s" % ans.get("n"), hits


def glive_spec(case):
    p = case.split()
    return {"variant": p[1], "extra": int(p[2]), "garbage": int(p[3])}


def judge_glive(case, ans, crash_summary):
    sp = glive_spec(case)
    base = "ctrait" if sp["variant"].startswith("ctrait") else "hastraits"
    if "crash" in ans:
        return "crash", [{"signature": "crash:gc-clear:live-class:" + base,
                          "what": "a class referenced by %d frame local(s), %d cyclic-garbage instance(s) (%s), "
                                  "gc.collect(), then the class is used: %s" % (
                                      sp["extra"] + 1, sp["garbage"], sp["variant"], crash_summary(ans)),
                          "stderr_tail": ans.get("stderr", "")[-1500:]}]
    if ans.get("error"):
        return "harness-exception " + ans["error"], []
    if ans.get("bad"):
        return "cleared", [{"signature": "gc-clear:live-class-cleared:" + base,
                            "what": "a class defined in a function and referenced by %d local(s) of the running frame "
                                    "was torn down by gc.collect() when %d of its instances were cyclic garbage (%s): "
                                    "using it afterwards gives %s" % (
                                        sp["extra"] + 1, sp["garbage"], sp["variant"], "; ".join(ans["bad"])[:300])}]
    return "ok", []


def rej_spec(case):
    p = [x.strip() for x in case[len("#REJ "):].split("|")]
    return {"setter": p[0], "shape": p[1], "prior": p[2]}


def run_rej(case, srv, crash_summary):
    sp = rej_spec(case)
    ans = srv.request({"k": "REJ", "spec": sp})
    tags = ["REJ:" + sp["setter"]]
    if "crash" in ans:
        # where did it die?  the same call without the use, for the state it leaves behind
        ans2 = srv.request({"k": "REJ", "spec": dict(sp, use=False)})
        hits = []
        if "crash" in ans2:
            what = "the call itself kills the interpreter"
            sig = "crash:rejected-call:%s:%s" % (
                "flag-property" if sp["setter"] in FLAG_SETTERS else sp["setter"], sp["shape"])
        else:
            sig = "crash:after-rejected:" + sp["setter"]
            what = ("the call %s; state changed by it: %s; USING the trait afterwards (default_value_for / read / "
                    "assign / delete on a fresh object) kills the interpreter" % (
                        ans2.get("out"), ans2.get("changed") or "nothing visible through the API"))
            if ans2.get("changed"):
                hits.append({"signature": "rejected-call-changed-state:%s:%s" % (sp["setter"], sp["shape"]),
                             "what": "%s(%s) on a `%s` trait %s and changed the trait: %s" % (
                                 sp["setter"], sp["shape"], sp["prior"], ans2.get("out"), "; ".join(ans2["changed"]))})
        hits.insert(0, {"signature": sig, "what": "CTrait.%s with malformed argument `%s` on a trait configured as `%s`: %s: %s" % (
            sp["setter"], sp["shape"], sp["prior"], what, crash_summary(ans)),
            "stderr_tail": ans.get("stderr", "")[-1500:]})
        return "crash", hits, tags + ["REJ:crash"]
    if ans.get("error"):
        return "harness-exception " + ans["error"], [], tags
    hits = []
    out = ans["out"]
    if out == "accepted":
        return out, hits, tags + ["REJ:accepted"]
    if ans.get("changed"):
        hits.append({"signature": "rejected-call-changed-state:%s:%s" % (sp["setter"], sp["shape"]),
                     "what": "%s(%s) on a `%s` trait %s, but changed the trait: %s" % (
                         sp["setter"], sp["shape"], sp["prior"], out, "; ".join(ans["changed"])[:400])})
    if ans.get("use_diff"):
        hits.append({"signature": "rejected-call-changed-behaviour:%s:%s" % (sp["setter"], sp["shape"]),
                     "what": "%s(%s) on a `%s` trait %s; the trait on a fresh object behaved differently before and "
                             "after: %s" % (sp["setter"], sp["shape"], sp["prior"], out, ans["use_diff"][:4])})
    return out, hits, tags + ["REJ:" + out.split()[1] if " " in out else "REJ:?"]


def gen_gref(rng, n):
    out = []
    for v in HT_VARIANTS:
        out.append("#GREF hastraits||%s" % v)
    for v in ("heap", "static"):
        out.append("#GREF ctrait||%s" % v)
        for f in CT_FIELDS:
            out.append("#GREF ctrait|%s|%s" % (f, v))
        out.append("#GREF ctrait|%s|%s" % (" ".join(CT_FIELDS), v))
        out.append("#GREF ctrait|%s|%s-shared" % (" ".join(f for f in CT_FIELDS if f not in ("dname", "dprefix")), v))
    out.append("#GREF ctrait||from-class")
    for _ in range(n):
        fs = [f for f in CT_FIELDS if rng.random() < 0.5]
        rng.shuffle(fs)
        out.append("#GREF ctrait|%s|%s" % (" ".join(fs), rng.choice(CT_VARIANTS[:4])))
    return list(dict.fromkeys(out))


def gen_glive(rng, tier):
    """quick: per cycle shape the two (extra, garbage) points where as many instances are garbage as frame locals
    refer to the class (the point at which a type reported twice per instance is taken for garbage) + one drawn
    point; thorough: the grid."""
    out = []
    if tier == "quick" and rng is not None:
        for v in LIVE_VARIANTS:
            pts = [(1, 1), (3, 2)] if v == "pair" else [(0, 1), (1, 2)]
            pts.append((rng.randint(0, 3), rng.randint(0, 5)))
            for e, g in dict.fromkeys(pts):
                out.append("#GLIVE %s %d %d" % (v, e, g))
        return out
    emax, gmax = (2, 4) if tier == "quick" else (3, 7)
    for v in LIVE_VARIANTS:
        for e in range(emax + 1):
            for g in range(gmax + 1):
                out.append("#GLIVE %s %d %d" % (v, e, g))
    return out


def gen_rej(rng, tier):
    """quick: every (setter, shape) once, on the configuration its family is about or on a drawn one; thorough:
    every (setter, shape) on all nine configurations."""
    out = []
    fixed = {"set_default_value": ["int", "const", "list"], "_set_property": ["property"], "delegate": ["delegate"],
             "set_validate": ["validated", "int"], "post_setattr": ["validated"]}
    for setter, shapes in SHAPES.items():
        for shape, _ in shapes:
            if tier == "quick":
                ps = [rng.choice(fixed.get(setter, ["const"])) if rng.random() < 0.5 else rng.choice(PRIORS)]
            else:
                ps = PRIORS
            for p in ps:
                out.append("#REJ %s|%s|%s" % (setter, shape, p))
    return out
