"""C04 — container traits never hold an invalid element or an illegal length.

Three streams:
  tlo:<min>:<max>|validator|init|ops   List(T, minlen, maxlen) trait on a real HasTraits object, compared
                                       line by line with Model/TraitListObject (Lean driver `seq`)
  #{json}                              nested List(List(T)), Dict(K, List(T)), Set(T), Dict(K, V) traits: oracle only
                                       (the Lean theorems about them are stated over abstract validators)
  og:<kind>|<items>|<inner>|<states>   object-level gates of real List/Dict/Set trait values (props/objgate.py),
                                       compared with Model/ContainerObject (Lean driver `ObjGate`)
"""
import copy
import json

from . import seqlib as S

PROPERTY = "C04"
DRIVERS = {"tlo:": "TraitsVerif/Driver/Seq.lean", "nl:": "TraitsVerif/Driver/Nested.lean",
           "og:": "TraitsVerif/Driver/ObjGate.lean"}
PROPS_MODULES = ["TraitsVerif.Props.C04"]
TRANSLATORS = ["mutators", "lenguard", "pyl", "pylobj", "ctorcopy", "ctorprog", "pylmap", "dictevent"]
RULE = ("List(T, minlen, maxlen) traits on real HasTraits objects: exhaustive single mutator calls on lists of "
        "length 0..3 for (minlen, maxlen) in a grid, plus seeded random histories (all mutators, whole-value "
        "assignment, valid / coercible / invalid items) compared with the Lean model; a second stream of "
        "random histories on nested List(List(T)), Dict(K, List(T)), Dict(K, V), Set(T) traits checked by the "
        "statement-level oracle (re-validation of every element with a fresh inner trait, length bounds, "
        "TraitError => deep-equal snapshot and no items event); non-trivial = produced an observation, "
        "distinct = distinct canonical output line")
TRUSTED = ["inner traits are arbitrary validators in the theorems; the concrete item traits used by the "
           "correspondence are Int, Range(low=0), a coercing x%7 TraitType and a k-th-call-fails TraitType",
           "Py.List model of CPython list (validated by C05's `pl` stream)"]
ASSUMPTIONS = ["stand-alone deep-copied / unpickled containers (owner None) do not validate by design; that is C14's subject",
               "Model/Nested.lean is a value tree without aliasing: `outer *= n` (n >= 2), which makes several positions hold the "
               "same inner TraitListObject, is excluded from the model-compared nested stream and covered by the oracle-only stream"]

_classes = {}
LAST_FIRED = []   # per op of the last run_impl call: did the k-th-call-fails validator fire?


def _item_trait(vspec):
    from traits.api import Int, Range, TraitType, TraitError

    class Mod7(TraitType):
        default_value = 0

        def validate(self, obj, name, value):
            if isinstance(value, int):
                return value % 7
            self.error(obj, name, value)

    class FailK(TraitType):
        default_value = 0
        counter = [0]
        k = 0
        exc = "TraitError"

        def validate(self, obj, name, value):
            n = self.counter[0]
            self.counter[0] += 1
            if n == self.k:
                raise S.exc_class(self.exc)("k-th call fails")
            return value
    if vspec == "id":
        return Int(), None
    if vspec == "rejneg":
        return Range(low=0), None
    if vspec == "mod7":
        return Mod7(), None
    if vspec.startswith("failk"):
        _, k, exc = vspec.split(":")
        t = FailK()
        t.counter = [0]
        t.k = int(k)
        t.exc = exc
        return t, t.counter
    raise AssertionError(vspec)


def _falsy(case):
    """half of the cases run on an owner that is alive but FALSY (a HasTraits class defining __bool__ / __len__):
    nothing in the statement depends on the owner's truth value"""
    import zlib
    return zlib.crc32(case.encode()) % 2 == 0


def _list_class(vspec, lo, hi, falsy=False):
    key = (vspec, lo, hi, falsy)
    if key not in _classes:
        from traits.api import HasTraits, List
        item, counter = _item_trait(vspec)
        ns = {"x": List(item, minlen=lo, maxlen=hi)}
        if falsy:
            ns["__bool__"] = lambda self: False
            ns["__len__"] = lambda self: 0
        cls = type("A", (HasTraits,), ns)
        _classes[key] = (cls, counter)
    return _classes[key]


def corpus():
    return [
        "tlo:1:3|rejneg|[1,2]|ap 3;ap 4;as [5,-1];as [];as [7,8];ds N N 2;po 0;po 0;im 3;im 2;rv",
        "tlo:2:2|id|[1,2]|di 5;di 0;ss 0 1 N [7,8];ss 0 1 N [9];ss N N -1 [1];cl;rm 1;in 0 1;po -1",
        "tlo:0:4|mod7|[9,8]|ss N N 2 [15];ex [20,21];ex [1];ia [3];im -1;as [50,51,52,53]",
        "tlo:0:3|failk:1:ValueError|[]|ex [1,2];ex [1];as [1,2,3];ss 0 0 N [4,5]",
        "nl:0:3:0:2|rejneg|[[1],[2,3]]|o ap [4];o ap [5,6,7];i 0 ap 9;i 0 ap 9;i 1 si 0 -1;o ex [[1],[2]];as [[1,2],[3]];as [[1,2,3]];i 5 ap 1;o di 0",
    ]


CFGS = [(0, 3), (1, 3), (2, 2), (0, 0), (1, 100), (0, 2)]


def generate(rng, tier):
    if tier == "quick":
        for lo, hi in [(0, 2), (1, 3), (2, 2)]:
            for c in S.exhaustive_single_ops(3, [None, -4, -2, -1, 0, 1, 2, 4], [None, 1, -1, 2, -2], "tlo:%d:%d" % (lo, hi)):
                kind, v, init, op = c.split("|")
                if lo <= len(S.parse_list(init)) <= hi:
                    yield c
        nh, nn = 2500, 1500
    elif tier == "thorough":
        for lo, hi in CFGS:
            for c in S.exhaustive_single_ops(4, [None] + list(range(-5, 6)), S.STEPS_SMALL, "tlo:%d:%d" % (lo, hi)):
                kind, v, init, op = c.split("|")
                if lo <= len(S.parse_list(init)) <= hi:
                    yield c
        nh, nn = 60000, 30000
    else:
        nh, nn = 20000, 10000
    for _ in range(nh):
        lo, hi = rng.choice(CFGS)
        h = S.random_history(rng, "tlo:%d:%d" % (lo, hi))
        kind, v, init, ops = h.split("|")
        init_l = S.parse_list(init)
        while len(init_l) < lo:
            init_l.append(rng.choice([0, 1, 2, 3, 5]))
        init_l = init_l[:hi]
        if v.startswith("failk"):
            if lo > 0:
                v = "id"
        ops = ops.split(";")
        for i in range(len(ops)):
            if rng.random() < 0.08:
                k = rng.randint(0, 4)
                ops[i] = "as " + S.show_list([rng.choice([0, 1, 2, 3, 5, 8, 9, 13, -1, -4]) for _ in range(k)])
        yield "%s|%s|%s|%s" % (kind, v, S.show_list(init_l), ";".join(ops))
    for _ in range(nn):
        yield "#" + json.dumps(random_nested_case(rng), separators=(",", ":"))
    for _ in range(nn):
        yield random_nl_case(rng)
    for _ in range(nn // 3):
        yield "#" + json.dumps({"wi": random_weird_index_case(rng)}, separators=(",", ":"))
    yield from default_cases()
    # the object-level gates (validators, length check, items-event delivery) of real trait values in every
    # situation Model/ContainerObject.lean distinguishes: exhaustive, compared with the model (Driver/ObjGate)
    from . import objgate
    yield from objgate.cases()


# ----------------------------------------------------------------------------
# nested List(List(T)) traits compared with Model/Nested.lean (driver `nl:`)
# ----------------------------------------------------------------------------

def _nl_list(rng, n=None, maxlen=3):
    n = rng.randint(0, maxlen) if n is None else n
    return [rng.choice([0, 1, 2, 3, 5, 8, 9, -1, -4]) if rng.random() < 0.85 else rng.randint(-9, 20) for _ in range(n)]


def _nl_show(x):
    return json.dumps(x, separators=(",", ":"))


def random_nl_case(rng):
    omin, omax = rng.choice([(0, 3), (1, 3), (0, 2), (2, 4)])
    imin, imax = rng.choice([(0, 2), (1, 2), (0, 3), (1, 3)])
    v = rng.choice(["id", "rejneg", "rejneg", "mod7"])
    init = [[rng.choice([0, 1, 2, 3, 5]) for _ in range(rng.randint(imin, imax))] for _ in range(rng.randint(omin, omax))]
    ops = []
    for _ in range(rng.randint(1, 10)):
        r = rng.random()
        if r < 0.45:    # inner op
            k = rng.randint(0, 3)
            o = S.random_op(rng, 2, selfarg=True)
            while o.split()[0] in ("rm", "so", "sk") or any(m in o for m in ("g[", "t[", "i[")):
                o = S.random_op(rng, 2, selfarg=True)
            ops.append("i %d %s" % (k, o))
        elif r < 0.92:  # outer op with list items
            m = rng.choice(["ap", "ex", "ia", "in", "si", "ss", "di", "ds", "po", "cl", "rv", "im"])
            il = lambda: _nl_show(_nl_list(rng))  # noqa: E731
            ils = lambda: _nl_show([_nl_list(rng) for _ in range(rng.randint(0, 3))])  # noqa: E731
            sl = lambda: "%s %s %s" % (S.show_opt(rng.choice([None, 0, 1, -1, 2])), S.show_opt(rng.choice([None, 1, 2, 5, -1])),  # noqa: E731
                                       S.show_opt(rng.choice([None, 1, 1, 2, -1])))
            ops.append("o " + {"ap": "ap " + il(), "ex": "ex " + ils(), "ia": "ia " + ils(), "in": "in %d %s" % (rng.randint(-2, 3), il()),
                               "si": "si %d %s" % (rng.randint(-3, 3), il()), "ss": "ss %s %s" % (sl(), ils()),
                               "di": "di %d" % rng.randint(-3, 3), "ds": "ds " + sl(), "po": "po %d" % rng.randint(-3, 3),
                               "cl": "cl", "rv": "rv",
                               # `outer *= n` with n >= 2 makes several positions hold the SAME inner TraitListObject
                               # (aliasing); the value-tree model has no aliasing, so that is left to the oracle stream
                               "im": "im %d" % rng.choice([0, 1, 1, -1])}[m])
        else:
            ops.append("as " + _nl_show([_nl_list(rng) for _ in range(rng.randint(0, 4))]))
    return "nl:%d:%d:%d:%d|%s|%s|%s" % (omin, omax, imin, imax, v, _nl_show(init), ";".join(ops))


_nl_classes = {}


def _nl_class(key):
    if key not in _nl_classes:
        from traits.api import HasTraits, List
        omin, omax, imin, imax, v = key
        item, _ = _item_trait(v)
        _nl_classes[key] = type("NL", (HasTraits,), {"x": List(List(item, minlen=imin, maxlen=imax), minlen=omin, maxlen=omax)})
    return _nl_classes[key]


def run_nl(case):
    from traits.trait_list_object import TraitListObject
    kind, v, init, ops = case.split("|")
    _, omin, omax, imin, imax = kind.split(":")
    omin, omax, imin, imax = int(omin), int(omax), int(imin), int(imax)
    cls = _nl_class((omin, omax, imin, imax, v))
    hits, tags, outs = [], set(), []
    try:
        a = cls(x=json.loads(init))
    except Exception as e:
        return "err " + S.exc_name(e), [], ["nl-init-err"]

    def snap():
        return [list(i) for i in a.x]

    def check(sig):
        x = a.x
        if not isinstance(x, TraitListObject) or not (omin <= len(x) <= omax):
            hits.append(_hit("nested-invalid:outer:" + sig, "outer list type/length", value=snap()))
        for inner in x:
            if not isinstance(inner, TraitListObject):
                hits.append(_hit("nested-invalid:inner-not-wrapped:" + sig, "inner list is a %s" % type(inner).__name__, value=snap()))
            elif not (imin <= len(inner) <= imax):
                hits.append(_hit("nested-invalid:inner-length:" + sig, "inner length %d outside %d..%d" % (len(inner), imin, imax), value=snap()))
            if not all(_valid_item(v, y) for y in inner):
                hits.append(_hit("nested-invalid:leaf:" + sig, "invalid leaf", value=snap()))
    for opstr in [o for o in ops.split(";") if o.strip()]:
        w = opstr.split()
        before = snap()
        exc = None
        try:
            if w[0] == "as":
                tags.add("nl:as")
                a.x = json.loads(w[1])
            else:
                target = a.x if w[0] == "o" else a.x[int(w[1])]
                rest = w[1:] if w[0] == "o" else w[2:]
                tags.add("nl:%s:%s" % (w[0], rest[0]))
                if w[0] == "o":
                    k = rest[0]
                    J = json.loads
                    P = S.parse_opt
                    if k == "ap":
                        target.append(J(rest[1]))
                    elif k == "ex":
                        target.extend(J(rest[1]))
                    elif k == "ia":
                        target += J(rest[1])
                    elif k == "in":
                        target.insert(int(rest[1]), J(rest[2]))
                    elif k == "si":
                        target[int(rest[1])] = J(rest[2])
                    elif k == "ss":
                        target[slice(P(rest[1]), P(rest[2]), P(rest[3]))] = J(rest[4])
                    elif k == "di":
                        del target[int(rest[1])]
                    elif k == "ds":
                        del target[slice(P(rest[1]), P(rest[2]), P(rest[3]))]
                    elif k == "po":
                        target.pop(int(rest[1]))
                    elif k == "cl":
                        target.clear()
                    elif k == "rv":
                        target.reverse()
                    elif k == "im":
                        target *= int(rest[1])
                else:
                    S.apply_op(target, S.parse_op(" ".join(rest)))
        except Exception as e:
            exc = e
        sig = w[0] + ":" + (w[1] if w[0] == "o" else (w[2] if w[0] == "i" else "as"))
        check(sig)
        if exc is not None:
            if snap() != before:
                hits.append(_hit("failed-op-mutated:nested:" + sig, "failing operation changed the nested value", before=before, after=snap()))
            outs.append("err " + S.exc_name(exc))
        else:
            outs.append("ok " + _nl_show(snap()))
    return " ; ".join(outs), hits, tags


def _hit(sig, what, **kw):
    d = {"signature": sig, "what": what}
    d.update(kw)
    return d


# ----------------------------------------------------------------------------
# declared defaults of container traits (oracle only): the first read either
# raises TraitError or hands out a value satisfying the invariant
# ----------------------------------------------------------------------------

DEFAULT_SHAPES = {
    "list-min2-implicit": ("List(Int, minlen=2)", 2, None),
    "list-max2-three": ("List(Int, [1, 2, 3], maxlen=2)", 0, 2),
    "list-min1-one": ("List(Int, [1], minlen=1)", 1, None),
    "list-1to3-two": ("List(Int, [1, 2], minlen=1, maxlen=3)", 1, 3),
    "list-max0-implicit": ("List(Int, maxlen=0)", 0, 0),
    "list-range-bad-item": ("List(Range(low=0), [-1])", 0, None),
    "list-range-good": ("List(Range(low=0), [1, 2])", 0, None),
    "nested-inner-too-long": ("List(List(Int, maxlen=1), [[1, 2]])", 0, None),
    "nested-ok": ("List(List(Int, maxlen=2), [[1, 2]], maxlen=2)", 0, 2),
    "dict-bad-value": ("Dict(Str, Range(0, 9), {'a': 12})", None, None),
    "set-bad-item": ("Set(Range(0, 9), [1, 12])", None, None),
}


def default_cases():
    for name in DEFAULT_SHAPES:
        for first in ("read", "append", "len", "clone-read", "deepcopy-read"):
            yield "#" + json.dumps({"dflt": name, "first": first}, separators=(",", ":"))


def run_default(c):
    from traits.api import HasTraits, List, Dict, Set, Str, Int, Range, TraitError  # noqa: F401
    from traits.trait_list_object import TraitListObject
    decl, lo, hi = DEFAULT_SHAPES[c["dflt"]]
    hits, tags = [], {"dflt:" + c["dflt"], "dflt-first:" + c["first"]}
    try:
        cls = type("D", (HasTraits,), {"x": eval(decl)})
    except TraitError:
        return "class-rejected", [], tags | {"dflt-class-rejected"}
    o = cls()
    if c["first"] == "clone-read":
        o = o.clone_traits()
    elif c["first"] == "deepcopy-read":
        o = copy.deepcopy(o)
    try:
        if c["first"] == "append":
            o.x.append(5) if isinstance(o.x, list) else None
        elif c["first"] == "len":
            len(o.x)
        v = o.x
    except TraitError:
        return "err TraitError", [], tags | {"dflt-rejected"}
    except Exception as e:
        return "err " + S.exc_name(e), [_hit("default-read-raises:" + c["dflt"], "first read of the declared default raised %s" % S.exc_name(e))], tags
    sig = c["dflt"]

    def bad_leaf(x):
        return not isinstance(x, int) or isinstance(x, bool)
    if isinstance(v, list):
        if not isinstance(v, TraitListObject):
            hits.append(_hit("default-not-live:" + sig, "default is a %s" % type(v).__name__))
        if (lo is not None and len(v) < lo) or (hi is not None and len(v) > hi):
            hits.append(_hit("default-length-out-of-bounds:" + sig, "declared default handed out with length %d outside %s..%s" % (
                len(v), lo, hi), value=repr(v)))
        if "range" in sig and any(bad_leaf(x) or x < 0 for x in v):
            hits.append(_hit("default-invalid-item:" + sig, "declared default holds an invalid item", value=repr(v)))
        if sig.startswith("nested"):
            for inner in v:
                if not isinstance(inner, TraitListObject) or len(inner) > (1 if "too-long" in sig else 2):
                    hits.append(_hit("default-invalid-inner:" + sig, "inner default list invalid", value=repr(v)))
    elif isinstance(v, dict):
        if any(not (0 <= x <= 9) for x in v.values()):
            hits.append(_hit("default-invalid-item:" + sig, "declared dict default holds an invalid value", value=repr(v)))
    elif isinstance(v, set):
        if any(not (0 <= x <= 9) for x in v):
            hits.append(_hit("default-invalid-item:" + sig, "declared set default holds an invalid member", value=repr(v)))
    return "ok " + repr(v if not isinstance(v, set) else sorted(v)), hits, tags


def _valid_item(vspec, x):
    """Independent reference: does x satisfy the inner trait after conversion?"""
    if not isinstance(x, int) or isinstance(x, bool):
        return False
    if vspec == "rejneg":
        return x >= 0
    if vspec == "mod7":
        return 0 <= x < 7
    return True


def random_weird_index_case(rng):
    """List(Int, minlen, maxlen) mutated through indices / slice parts that are not plain ints: objects defining only
    __index__ (they compare unequal to the int they stand for), numpy integers, bools.  list accepts all of them."""
    lo, hi = rng.choice(CFGS)
    n = rng.randint(lo, min(hi, lo + 3))
    init = [rng.choice([0, 1, 2, 3, 5]) for _ in range(n)]

    def w(x):
        if x is None:
            return None
        return rng.choice([x, {"I": x}, {"I": x}, {"np": x}, bool(x) if x in (0, 1) else {"I": x}])

    def sl():
        return {"S": [w(rng.choice([None, 0, 1, 2, -1])), w(rng.choice([None, 0, 1, 2, 3, -1])), w(rng.choice([None, 1, 1, 1, 2, -1]))]}
    items = lambda k=3: [rng.choice([0, 1, 2, 7, 9]) for _ in range(rng.randint(0, k))]  # noqa: E731
    ops = []
    for _ in range(rng.randint(1, 6)):
        m = rng.choice(["setslice", "setslice", "setslice", "delslice", "delslice", "setitem", "delitem", "insert", "pop", "imul"])
        ops.append({"setslice": [m, sl(), items()], "delslice": [m, sl()], "setitem": [m, w(rng.randint(-2, 2)), rng.choice([0, 4])],
                    "delitem": [m, w(rng.randint(-2, 2))], "insert": [m, w(rng.randint(-2, 3)), 6], "pop": [m, w(rng.randint(-2, 2))],
                    "imul": [m, w(rng.choice([0, 1, 2]))]}[m])
    return {"lo": lo, "hi": hi, "init": init, "ops": ops}


def _weird(v):
    if isinstance(v, dict) and "I" in v:
        class Idx:
            def __init__(self, n):
                self.n = n

            def __index__(self):
                return self.n
        return Idx(v["I"])
    if isinstance(v, dict) and "np" in v:
        import numpy
        return numpy.int64(v["np"])
    if isinstance(v, dict) and "S" in v:
        return slice(*[_weird(x) for x in v["S"]])
    return v


def run_weird_index(c):
    from traits.api import TraitError
    cls, _ = _list_class("id", c["lo"], c["hi"], False)
    hi = c["hi"]
    try:
        a = cls(x=list(c["init"]))
    except TraitError:
        return "init-rejected", [], {"wi:init-rejected"}
    fired = []
    a.on_trait_change(lambda: fired.append(1), "x_items")
    hits, tags, outs = [], set(), []
    for op in c["ops"]:
        m, args = op[0], [_weird(x) for x in op[1:]]
        before = list(a.x)
        del fired[:]
        flat = json.dumps(op[1:])
        tags.add("wi:%s:%s" % (m, "+".join(k for k, t in (("I", '"I"'), ("np", '"np"'), ("bool", "true"), ("bool", "false")) if t in flat) or "plain"))
        exc = None
        try:
            if m == "setslice" or m == "setitem":
                a.x[args[0]] = args[1]
            elif m == "delslice" or m == "delitem":
                del a.x[args[0]]
            elif m == "insert":
                a.x.insert(args[0], args[1])
            elif m == "pop":
                a.x.pop(args[0])
            elif m == "imul":
                x = a.x
                x *= args[0]
        except Exception as e:
            exc = e
        after = list(a.x)
        if not (c["lo"] <= len(after) <= hi) or not all(type(i) is int for i in after):
            hits.append(_hit("invalid-state:weird-index:" + m, "after %s with a non-int index object the List(Int, minlen=%d, maxlen=%d) "
                             "holds %r" % (m, c["lo"], hi, after), before=before, op=op))
        if exc is not None:
            tags.add("wi-err:" + S.exc_name(exc))
            if after != before:
                hits.append(_hit("failed-op-mutated:weird-index:" + m, "failing %s (%s) changed the contents" % (m, S.exc_name(exc)),
                                 before=before, after=after, op=op))
            if fired:
                hits.append(_hit("failed-op-notified:weird-index:" + m, "failing %s emitted an items event" % m, op=op))
            outs.append("err " + S.exc_name(exc))
        else:
            if after != before and not fired:
                hits.append(_hit("silent-change:weird-index:" + m, "%s changed the list without an items event" % m, before=before, after=after, op=op))
            outs.append("ok %s" % after)
    return " ; ".join(outs), hits, tags


def run_impl(case):
    if case.startswith("#"):
        c = json.loads(case[1:])
        if "dflt" in c:
            return run_default(c)
        if "wi" in c:
            return run_weird_index(c["wi"])
        return run_nested(c)
    if case.startswith("nl:"):
        return run_nl(case)
    if case.startswith("og:"):
        from . import objgate
        return objgate.run(case)
    from traits.api import TraitError
    from traits.trait_list_object import TraitListObject
    kind, vspec, init, ops = case.split("|")
    _, lo, hi = kind.split(":")
    lo, hi = int(lo), int(hi)
    cls, counter = _list_class(vspec, lo, hi, _falsy(case))
    init = S.parse_list(init)
    tags, hits, outs = set(), [], []
    tags.add("owner:falsy" if _falsy(case) else "owner:truthy")
    events = []
    del LAST_FIRED[:]
    kfail = int(vspec.split(":")[1]) if vspec.startswith("failk") else None
    if counter is not None:
        counter[0] = 0
    try:
        a = cls(x=list(init))
    except Exception as e:
        return "err " + S.exc_name(e), [], ["init-err"]
    a.on_trait_change(lambda obj, name, old, new: events.append((new.index, list(new.removed), list(new.added))), "x_items")
    # the same deltas as seen by an observer of the items (observation/_list_change_event.py)
    obs_events = []
    a.observe(lambda ev: obs_events.append((ev.index, list(ev.removed), list(ev.added), ev.object)), "x:items")
    for opstr in [o for o in ops.split(";") if o.strip()]:
        w = opstr.split()
        snap = list(a.x)
        snap_obj = a.x
        del events[:]
        del obs_events[:]
        if counter is not None:
            counter[0] = 0
        exc = None
        ret = None
        try:
            if w[0] == "as":
                tags.add("as")
                a.x = S.parse_list(w[1])
            else:
                op = S.parse_op(opstr)
                tags.add(op[0])
                ret = S.apply_op(a.x, op)
        except Exception as e:
            exc = e
        after = list(a.x)
        sig_op = w[0]
        LAST_FIRED.append(counter is not None and counter[0] > kfail)
        # -------- oracle: the property statement
        if not isinstance(a.x, TraitListObject):
            hits.append(_hit("not-a-trait-list:" + sig_op, "value is no longer a TraitListObject"))
        if not (lo <= len(after) <= hi):
            hits.append(_hit("length-out-of-bounds:" + sig_op, "length %d outside %d..%d" % (len(after), lo, hi),
                             before=snap, after=after))
        bad = [x for x in after if not _valid_item(vspec, x)]
        if bad:
            hits.append(_hit("invalid-element:" + sig_op, "element(s) %r do not satisfy the inner trait" % bad[:3],
                             before=snap, after=after))
        if [e[:3] for e in obs_events] != events or any(e[3] is not snap_obj for e in obs_events):
            hits.append(_hit("observer-event-differs:" + sig_op, "the ListChangeEvent delivered to an observer of x.items differs "
                             "from the TraitList notification", items_events=repr(events), observer_events=repr([e[:3] for e in obs_events])))
        if exc is not None:
            tags.add("err:" + S.exc_name(exc))
            if after != snap or a.x is not snap_obj:
                hits.append(_hit("failed-op-mutated:" + sig_op, "failing operation changed the value", before=snap, after=after))
            if events:
                hits.append(_hit("failed-op-notified:" + sig_op, "failing operation emitted an items event"))
            outs.append("err " + S.exc_name(exc))
            continue
        ev = "-"
        if events:
            ix, removed, added = events[0]
            ev = "E %s %s %s" % (S.show_index(ix), S.show_list(removed), S.show_list(added))
        outs.append("ok %s %s %s" % (S.show_list(after), "-" if ret is None else ret, ev))
    return " ; ".join(outs), hits, tags


# ----------------------------------------------------------------------------
# nested / dict / set traits: oracle-only stream
# ----------------------------------------------------------------------------

_nested_cls = {}


def _noitems(case):
    """a third of the nested cases run on container traits declared with items=False (no `<name>_items` event
    trait): validity of the contents does not depend on whether item events are wanted"""
    import zlib
    return zlib.crc32(("noitems:" + case).encode()) % 3 == 0


def nested_class(failk=None, falsy=False, noitems=False):
    """failk = (k, exc-name): every leaf trait additionally raises on its k-th call within an operation."""
    if falsy:
        key = ("falsy", failk, noitems)
        if key not in _nested_cls:
            base, counter = nested_class(failk, noitems=noitems)
            _nested_cls[key] = (type("NF", (base,), {"__bool__": lambda self: False, "__len__": lambda self: 0}), counter)
        return _nested_cls[key]
    if noitems:
        key = ("noitems", failk)
        if key not in _nested_cls:
            _nested_cls[key] = _build_nested(failk, {"items": False})
        return _nested_cls[key]
    if failk not in _nested_cls:
        _nested_cls[failk] = _build_nested(failk, {})
    return _nested_cls[failk]


def _build_nested(failk, kw):
    if True:
        from traits.api import HasTraits, List, Dict, Set, Str, Range, CInt
        counter = [0]
        if failk is None:
            def leaf(lo, hi=None):
                return Range(lo, hi) if hi is not None else Range(low=lo)
        else:
            k, exc = failk

            def leaf(lo, hi=None):
                class FailRange(Range):
                    def validate(self, obj, name, value):
                        n = counter[0]
                        counter[0] += 1
                        if n == k:
                            raise S.exc_class(exc)("k-th call fails")
                        return super().validate(obj, name, value)
                t = FailRange(lo, hi) if hi is not None else FailRange(low=lo)
                # the fast validator would bypass validate(); force the Python path
                t.fast_validate = None
                return t
        cls = type("N", (HasTraits,), {
            "ll": List(List(leaf(0), maxlen=2, **kw), maxlen=3, **kw),
            "dl": Dict(Str, List(leaf(0), minlen=1, maxlen=3, **kw), **kw),
            "st": Set(leaf(0, 9), **kw),
            "dc": Dict(CInt, leaf(0, 9), **kw),
        })
        return (cls, counter)


def check_state(obj):
    """Independent deep validation of the object's container traits; returns problems."""
    from traits.trait_list_object import TraitListObject
    from traits.trait_dict_object import TraitDictObject
    from traits.trait_set_object import TraitSetObject
    probs = []

    def rng_ok(x, lo, hi=None):
        return isinstance(x, int) and not isinstance(x, bool) and x >= lo and (hi is None or x <= hi)
    ll = obj.ll
    if not isinstance(ll, TraitListObject) or len(ll) > 3:
        probs.append("ll: outer type/length")
    for inner in ll:
        if not isinstance(inner, TraitListObject):
            probs.append("ll: inner not TraitListObject (%s)" % type(inner).__name__)
        if len(inner) > 2:
            probs.append("ll: inner too long")
        if not all(rng_ok(x, 0) for x in inner):
            probs.append("ll: invalid leaf")
    dl = obj.dl
    if not isinstance(dl, TraitDictObject):
        probs.append("dl: type")
    for k, v in dl.items():
        if not isinstance(k, str):
            probs.append("dl: key %r" % (k,))
        if not isinstance(v, TraitListObject):
            probs.append("dl: value not TraitListObject (%s)" % type(v).__name__)
        if not (1 <= len(v) <= 3):
            probs.append("dl: value length %d" % len(v))
        if not all(rng_ok(x, 0) for x in v):
            probs.append("dl: invalid leaf")
    st = obj.st
    if not isinstance(st, TraitSetObject) or not all(rng_ok(x, 0, 9) for x in st):
        probs.append("st: invalid member")
    dc = obj.dc
    if not isinstance(dc, TraitDictObject):
        probs.append("dc: type")
    for k, v in dc.items():
        if type(k) is not int:
            probs.append("dc: key %r not int" % (k,))
        if not rng_ok(v, 0, 9):
            probs.append("dc: value %r" % (v,))
    return probs


def snapshot(obj):
    return {"ll": [list(i) for i in obj.ll], "dl": {k: list(v) for k, v in obj.dl.items()},
            "st": sorted(obj.st), "dc": dict(obj.dc)}


LEAVES = [0, 1, 2, 5, 9, 12, -1, "x", None, 2.5]


def random_nested_case(rng):
    ops = []
    for _ in range(rng.randint(1, 10)):
        t = rng.choice(["ll", "ll", "lli", "dl", "dl", "dli", "st", "st", "dc", "dc", "assign", "copy"])
        if t == "copy":
            # continue the history on a copy of the object: the copy's (nested) containers must be just as live
            ops.append([["obj"], rng.choice(["deepcopy", "clone", "clone-deep", "pickle"]), []])
            continue
        leaf = lambda: rng.choice(LEAVES) if rng.random() < 0.35 else rng.choice([0, 1, 2, 5, 9])  # noqa: E731
        lst = lambda n=3: [leaf() for _ in range(rng.randint(0, n))]  # noqa: E731
        if t == "ll":
            m = rng.choice(["append", "extend", "insert", "setitem", "setslice", "iadd", "imul", "pop", "delslice", "remove", "sort", "reverse", "clear"])
            args = {"append": [lst()], "extend": [[lst() for _ in range(rng.randint(0, 3))]], "insert": [rng.randint(-2, 3), lst()],
                    "setitem": [rng.randint(-2, 2), lst()], "setslice": [rng.choice([None, 0, 1]), rng.choice([None, 1, 2, 5]), rng.choice([None, 1, 2, -1]), [lst() for _ in range(rng.randint(0, 3))]],
                    "iadd": [[lst() for _ in range(rng.randint(0, 2))]], "imul": [rng.choice([0, 1, 2, 3])], "pop": [rng.randint(-1, 2)],
                    "delslice": [rng.choice([None, 0, 1]), rng.choice([None, 1, 2]), rng.choice([None, 1, 2])], "remove": [lst(1)], "sort": [], "reverse": [], "clear": []}[m]
            ops.append([["ll"], m, args])
        elif t == "lli":
            m = rng.choice(["append", "extend", "insert", "setitem", "setslice", "iadd", "imul", "pop"])
            args = {"append": [leaf()], "extend": [lst()], "insert": [rng.randint(-2, 3), leaf()], "setitem": [rng.randint(-2, 1), leaf()],
                    "setslice": [rng.choice([None, 0, 1]), rng.choice([None, 1, 2]), rng.choice([None, 1, -1]), lst()],
                    "iadd": [lst()], "imul": [rng.choice([0, 1, 2, 3])], "pop": [rng.randint(-1, 1)]}[m]
            ops.append([["ll", rng.randint(0, 2)], m, args])
        elif t == "dl":
            m = rng.choice(["dsetitem", "update", "update", "updatekw", "ior", "setdefault", "dpop", "popitem", "delitem", "clear"])
            key = lambda: rng.choice(["a", "b", "c", 3])  # noqa: E731
            args = {"dsetitem": [key(), lst()], "update": [[[key(), lst()] for _ in range(rng.randint(0, 3))]], "ior": [[[key(), lst()] for _ in range(rng.randint(0, 2))]],
                    "updatekw": [[[key(), lst()] for _ in range(rng.randint(1, 2))]],
                    "setdefault": [key(), lst()], "dpop": [key()], "popitem": [], "delitem": [key()], "clear": []}[m]
            ops.append([["dl"], m, args])
        elif t == "dli":
            m = rng.choice(["append", "extend", "pop", "clear", "setslice", "imul", "remove"])
            args = {"append": [leaf()], "extend": [lst()], "pop": [rng.randint(-1, 1)], "clear": [],
                    "setslice": [rng.choice([None, 0, 1]), rng.choice([None, 1, 2]), None, lst()], "imul": [rng.choice([0, 1, 2, 4])], "remove": [leaf()]}[m]
            ops.append([["dl", rng.choice(["a", "b", "c"])], m, args])
        elif t == "st":
            m = rng.choice(["add", "update", "ior", "ixor", "iand", "isub", "symmetric_difference_update", "discard", "remove", "spop", "clear",
                            "intersection_update", "difference_update"])
            args = [] if m in ("spop", "clear") else ([leaf()] if m in ("add", "discard", "remove") else [lst(4)])
            if m in ("update", "difference_update", "intersection_update") and rng.random() < 0.5:
                args = [lst(3), lst(3)]          # several iterables in one call
            if m in ("ior", "ixor", "iand", "isub"):
                args = args + [rng.choice(["set", "set", "frozenset"])]      # kind of the operand
            elif m in ("update", "symmetric_difference_update", "intersection_update", "difference_update") and rng.random() < 0.4:
                args = args + [rng.choice(["frozenset", "tuple", "gen", "set"])]
            ops.append([["st"], m, args])
        elif t == "dc":
            m = rng.choice(["dsetitem", "update", "update", "updatekw", "ior", "setdefault", "dpop", "popitem", "clear"])
            key = lambda: rng.choice([1, 2, "3", "x", 2.0])  # noqa: E731
            args = {"dsetitem": [key(), leaf()], "update": [[[key(), leaf()] for _ in range(rng.randint(0, 3))]], "ior": [[[key(), leaf()] for _ in range(rng.randint(0, 2))]],
                    "updatekw": [[[key(), leaf()] for _ in range(rng.randint(1, 2))]],
                    "setdefault": [key(), leaf()], "dpop": [key()], "popitem": [], "clear": []}[m]
            ops.append([["dc"], m, args])
        else:
            name = rng.choice(["ll", "dl", "st", "dc"])
            if name == "ll":
                val = [lst() for _ in range(rng.randint(0, 4))]
            elif name == "dl":
                val = {"__dict__": [[rng.choice(["a", "b", 3]), lst()] for _ in range(rng.randint(0, 3))]}
            elif name == "st":
                val = {"__set__": lst(4)}
            else:
                val = {"__dict__": [[rng.choice([1, "2", "x"]), leaf()] for _ in range(rng.randint(0, 3))]}
            ops.append([[name], "assign", [val]])
    c = {"ops": ops}
    if rng.random() < 0.2:
        c["empty"] = 1
    return c


def _decode(v):
    if isinstance(v, dict) and "__dict__" in v:
        try:
            return dict((k, vv) for k, vv in v["__dict__"])
        except TypeError:
            return {}
    if isinstance(v, dict) and "__set__" in v:
        try:
            return set(v["__set__"])
        except TypeError:
            return set()
    return v


def _apply_nested(obj, path, m, args):
    target = obj
    if m == "assign":
        setattr(obj, path[0], _decode(args[0]))
        return
    for p in path:
        target = getattr(target, p) if isinstance(p, str) and target is obj else target[p]
    if m == "setitem":
        target[args[0]] = args[1]
    elif m == "dsetitem":
        target[args[0]] = args[1]
    elif m == "setslice":
        target[slice(args[0], args[1], args[2])] = args[3]
    elif m == "delslice":
        del target[slice(args[0], args[1], args[2])]
    elif m == "delitem":
        del target[args[0]]
    elif m == "iadd":
        target += args[0]
    elif m == "imul":
        target *= args[0]
    elif m == "ior":
        a0 = args[0]
        target |= (dict((k, v) for k, v in a0) if path[0] in ("dl", "dc") else _operand(args))
    elif m == "ixor":
        target ^= _operand(args)
    elif m == "iand":
        target &= _operand(args)
    elif m == "isub":
        target -= _operand(args)
    elif path[0] == "st" and args and isinstance(args[-1], str):
        kind = args[-1]
        mk = {"frozenset": frozenset, "tuple": tuple, "set": set, "gen": lambda x: (y for y in list(x))}[kind]
        getattr(target, m)(*[mk(a) for a in args[:-1]])
    elif m == "update" and path[0] in ("dl", "dc"):
        target.update([(k, v) for k, v in args[0]])
    elif m == "updatekw":            # d.update(name=value, ...): dict accepts it, TraitDict documents one positional argument
        target.update(**{str(k): v for k, v in args[0]})
    elif m in ("dpop", "spop"):
        target.pop(*args)
    else:
        getattr(target, m)(*args)


def _operand(args):
    """operand of an in-place set operator: a set, or (trailing kind marker) a frozenset"""
    if len(args) > 1 and args[-1] == "frozenset":
        return frozenset(args[0])
    return set(args[0])


def run_nested(case):
    fk = tuple(case["failk"]) if case.get("failk") else None
    ckey = json.dumps(case, sort_keys=True)
    # C19 runs a fault-free twin of a case on the SAME class family: the family may be given explicitly
    noit = case["noitems"] if "noitems" in case else _noitems(ckey)
    fal = case["falsy"] if "falsy" in case else _falsy(ckey)
    cls, counter = nested_class(fk, falsy=fal, noitems=noit)
    del LAST_FIRED[:]
    counter[0] = -10 ** 6     # setup never fails
    obj = cls()
    if not case.get("empty"):
        obj.ll = [[1], [2, 3]]
        obj.dl = {"a": [1], "b": [2, 3]}
        obj.st = {1, 2, 5}
        obj.dc = {1: 1, 2: 2}
    events = []

    def hook(o):
        for n in ("ll_items", "dl_items", "st_items", "dc_items"):
            o.on_trait_change(lambda ob, name, old, new: events.append(name), n)
    hook(obj)
    hits, tags, outs = [], set(), []
    for path, m, args in case["ops"]:
        if path == ["obj"]:
            import pickle
            tags.add("copy:" + m)
            before = snapshot(obj)
            try:
                if m == "deepcopy":
                    new = copy.deepcopy(obj)
                elif m == "clone":
                    new = obj.clone_traits()
                elif m == "clone-deep":
                    new = obj.clone_traits(copy="deep")
                else:
                    import sys
                    mod = sys.modules.setdefault("verif_c04_nested", type(sys)("verif_c04_nested"))
                    setattr(mod, "N", cls)
                    cls.__module__, cls.__qualname__ = "verif_c04_nested", "N"
                    new = pickle.loads(pickle.dumps(obj))
            except Exception as e:
                outs.append("err " + S.exc_name(e))
                LAST_FIRED.append(False)
                continue
            LAST_FIRED.append(False)
            if snapshot(new) != before:
                hits.append(_hit("copy-differs:" + m, "the copy's container values differ from the original's", original=before, copy=snapshot(new)))
            obj = new
            hook(obj)
            for p_ in check_state(obj):
                hits.append(_hit("invalid-state:copy:%s" % m, "after %s: %s" % (m, p_), after=snapshot(obj)))
            outs.append("ok copy")
            continue
        tags.add("%s.%s" % ("/".join("i" if not isinstance(p, str) or i else p for i, p in enumerate(path)), m))
        snap = snapshot(obj)
        del events[:]
        exc = None
        counter[0] = 0
        try:
            _apply_nested(obj, path, m, copy.deepcopy(args))
        except Exception as e:
            exc = e
        LAST_FIRED.append(fk is not None and counter[0] > fk[0])
        counter[0] = -10 ** 6
        probs = check_state(obj)
        sig = "%s.%s" % (path[0] + ("[]" if len(path) > 1 else ""), m)
        for p in probs:
            hits.append(_hit("invalid-state:%s:%s" % (sig, p.split(":")[0] + ":" + p.split(":")[1].strip().split(" ")[0]),
                             "after %s: %s" % (sig, p), before=snap, after=snapshot(obj)))
        if exc is not None:
            tags.add("err:" + S.exc_name(exc))
            if snapshot(obj) != snap:
                hits.append(_hit("failed-op-mutated:" + sig, "failing %s (%s) changed the contents" % (sig, S.exc_name(exc)),
                                 before=snap, after=snapshot(obj)))
            if events:
                hits.append(_hit("failed-op-notified:" + sig, "failing %s emitted %s" % (sig, events)))
            outs.append("err " + S.exc_name(exc))
        else:
            outs.append("ok " + json.dumps(snapshot(obj), sort_keys=True, separators=(",", ":")) + " " + ",".join(events))
    return " ; ".join(outs), hits, tags


def shrink(case, fails):
    if not case.startswith("#"):
        from engine import default_shrink
        return default_shrink(case, fails)
    c = json.loads(case[1:])
    if "dflt" in c:
        return case
    if "wi" in c:
        w = c["wi"]
        ops = w["ops"]
        for i in range(len(ops) - 1, -1, -1):
            cand = ops[:i] + ops[i + 1:]
            if cand and fails("#" + json.dumps({"wi": dict(w, ops=cand)}, separators=(",", ":"))):
                ops = cand
        return "#" + json.dumps({"wi": dict(w, ops=ops)}, separators=(",", ":"))
    ops = c["ops"]
    changed = True
    while changed and len(ops) > 1:
        changed = False
        for i in range(len(ops) - 1, -1, -1):
            cand = ops[:i] + ops[i + 1:]
            cc = dict(c)
            cc["ops"] = cand
            if cand and fails("#" + json.dumps(cc, separators=(",", ":"))):
                ops = cand
                changed = True
    c["ops"] = ops
    return "#" + json.dumps(c, separators=(",", ":"))
