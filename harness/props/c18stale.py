"""C18 family #STALE scenario: a callback (validator / default factory / handler) REPLACES, while the C code is in the
middle of using it, the thing the C code holds only a borrowed pointer to - the trait's validator tuple (together with
the handler attributes that also reference it), its handler, a notifier list, the trait itself - and then makes the
allocator reuse the memory.  The statement: "no sequence of calls through the documented Python API … makes the compiled
extension … use a freed object … errors surface as Python exceptions, never as crashes".  Each scenario runs in a child
interpreter (the scratch build on its path); a death by signal is the hit `crash:stale-borrow:<function>:<scenario>`.
The scenarios are the run-time side of `C18_paths_no_stale_borrow` (crefpaths' stale-borrow analysis): one per site the
analysis names, plus controls that must survive.  Never import traits at module level."""
import os
import subprocess
import sys

PRELUDE = r'''
import gc, sys
from traits.api import *
from traits.api import TraitType
HOLD = {"armed": False}
def reuse():
    gc.collect()
    HOLD["junk"] = [tuple(range(i, i + 3)) for i in range(3000)] + [bytearray(64) for _ in range(3000)]
'''

SCENARIOS = {
    # (function the analysis names, script)
    "tuple-member-replaces-validator": ("validate_trait_tuple_check", r'''
class Evil(TraitType):
    def validate(self, object, name, value):
        if HOLD["armed"]:
            HOLD["armed"] = False
            ct = HOLD["ct"]
            h = ct.handler
            h.types = ()                       # the handler's own references to the tuple of member traits ...
            h.fast_validate = (9, ())
            ct.set_validate(lambda o, n, v: v) # ... and the CTrait's: the tuple being walked is released
            reuse()
        return value
class A(HasTraits):
    t = Tuple(Evil(), Int(), Int())
a = A()
a.t = (1, 2, 3)
HOLD["ct"] = A.__class_traits__["t"]
HOLD["armed"] = True
try:
    a.t = (4, 5, 6)
except Exception as e:
    print("raised", type(e).__name__)
print("survived")
'''),
    "control-validator-removes-own-instance-trait": ("setattr_trait", r'''
class Evil(TraitType):
    def validate(self, object, name, value):
        if HOLD["armed"]:
            HOLD["armed"] = False
            object.remove_trait(name)
            reuse()
        return value
class A(HasTraits):
    pass
a = A()
a.add_trait("x", Evil())
a.x = 1
HOLD["armed"] = True
a.x = 2
print("survived")
'''),
    "default-replaces-instance-dict": ("getattr_trait", r'''
class A(HasTraits):
    x = Int()
    y = Int()
    def _x_default(self):
        self.__dict__ = {}          # getattr_trait holds obj->obj_dict borrowed across default_value_for
        reuse()
        return 5
a = A()
a.y = 3
print("read", a.x)
print("survived")
'''),
    "validator-replaces-instance-dict": ("setattr_trait", r'''
class Evil(TraitType):
    def validate(self, object, name, value):
        if HOLD["armed"]:
            HOLD["armed"] = False
            object.__dict__ = {}    # setattr_trait holds obj->obj_dict borrowed across traitd->validate
            reuse()
        return value
class A(HasTraits):
    x = Evil()
    y = Int()
a = A()
a.x = 1
a.y = 2
HOLD["armed"] = True
a.x = 7
print("survived")
'''),
}


def run_stale(case):
    name = case[len("#STALE "):].strip()
    fn, body = SCENARIOS[name]
    env = dict(os.environ)
    env["PYTHONPATH"] = os.pathsep.join(p for p in sys.path if p)
    try:
        r = subprocess.run([sys.executable, "-c", PRELUDE + body], capture_output=True, text=True, timeout=60, env=env)
    except subprocess.TimeoutExpired:
        return "timeout", [{"signature": "hang:stale-borrow:%s:%s" % (fn, name), "what": "scenario did not finish", "no_shrink": True}], \
            ["STALE", "STALE:" + name]
    out = (r.stdout or "").strip().splitlines()
    if r.returncode < 0 or r.returncode in (134, 139):
        return "crash %d" % r.returncode, [{
            "signature": "crash:stale-borrow:%s:%s" % (fn, name), "no_shrink": True,
            "what": "scenario %s: the interpreter died (exit %d) - %s kept using a borrowed pointer after a callback replaced "
                    "its owner's reference (use after free)" % (name, r.returncode, fn)}], ["STALE", "STALE:" + name, "STALE:crash"]
    if "survived" not in out:
        return "odd %d %s" % (r.returncode, (r.stderr or "")[-200:].replace("\n", " ")), [{
            "signature": "stale-borrow:scenario-broken:%s" % name, "no_shrink": True,
            "what": "scenario %s ended with exit %d without reaching its end: %s" % (name, r.returncode, (r.stderr or "")[-300:])}], \
            ["STALE", "STALE:" + name]
    return " ".join(out)[:120], [], ["STALE", "STALE:" + name, "STALE:survived"]


def gen_stale():
    for name in SCENARIOS:
        yield "#STALE " + name
