"""C14 — pickling, deep copying and cloning preserve state and keep traits live."""
import copy
import json
import os
import pickle
import sys

from . import c14graph as GR
from . import persistlib as PL
from . import subserver as SUB
from .seqlib import exc_name

PROPERTY = "C14"
DRIVER = "TraitsVerif/Driver/Persist.lean"
PROPS_MODULES = ["TraitsVerif.Props.C14"]
TRANSLATORS = ["ctables", "copychains", "pypersist"]
RULE = ("P: a HasTraits class is drawn from a menu of 25 trait declarations (Int/Str/CInt/Any, List/Dict/Set nested "
        "up to depth 3, minlen/maxlen, Instance, ReadOnly, Event, validated Property; transient and copy=ref|shallow|"
        "deep|None metadata), a history of 0-8 assignments, nested container mutations (by path) and aliasing "
        "assignments reaches a state, then 1-2 copy operations (pickle protocols 0-5, copy.copy, copy.deepcopy, "
        "clone_traits(copy=None|'shallow'|'deep')) are chained; model and real code print the copy's values with the "
        "binding and sharing flag of every container node, the accept/reject result of an invalid and of a valid "
        "item pushed into every (nested) container, which object got the items event, and ReadOnly re-assignment. "
        "T: CTrait(kind) followed by set_validate/delegate/_set_property/post_setattr with in- and out-of-range "
        "integers, then __getstate__ indices and __setstate__ round trip (real side in a subprocess). "
        "#CT: every trait type of traits.api x options x {__getstate__/__setstate__, pickle 0/2/5, copy, deepcopy} x "
        "{as_ctrait, class trait}, behaviour on 22 sample values compared before/after, in a subprocess (a crash is an "
        "observation). #OBS: declared @observe / @on_trait_change / Property(observe=) / cached_property on the copy. "
        "#G: Instance graphs (chain, shared child, parent cycle, dict of children). #GV: plain TraitList / TraitSet / "
        "TraitDict objects as trait values (Instance, Any, inside List / Dict traits) whose validators are bound methods "
        "of the owner / of a policy object it holds / plain functions x every copy operation: where the copy is deep the "
        "copied container validates on behalf of the COPY (same function bound to the copy's counterpart; after copy and "
        "original diverge every mutator rejects what the copy forbids and accepts what only the copy allows). #GA: deep "
        "copies of containers / tuples of objects sharing sub-objects (value of a List(Instance) / Dict trait, tuple, "
        "list, dict, nested, copy_traits(copy='deep') with / without / None memo, pickles, __deepcopy__ with an empty "
        "memo) x 6 sharing shapes: the copy is isomorphic to the source (exactly the sharing it had) and disjoint. #PH: traits whose validator "
        "depends on the initialisation phase - UUID(), UUID(can_init=True) (also transient), ReadOnly assigned in the "
        "constructor / later / never / declared with a default, Constant, two custom TraitTypes that accept a value "
        "only while traits_inited() is false - x value given / generated and read / generated and never read x object "
        "copied directly or reached through List(Instance) / Instance / Dict / one object reached four ways x every "
        "copy operation (+ clone_traits(names), clone_traits('all')): the copy has the original's value, refuses "
        "what the original refuses, ordinary traits and sharing as in the original (oracle only; the order of the "
        "set-up calls is translated and proved: C14_restored_before_inited). Non-trivial = produced "
        "observations; distinct = distinct output line")
TRUSTED = [
    "pickle / copy.copy / copy.deepcopy drivers of CPython (memo, recursion through Instance references, "
    "__reduce_ex__ protocol): modelled - a referenced object is a leaf `ref o g` whose copy is `ref o (g+1)`; the "
    "graph behaviour is exercised by the #G oracle cases only",
    "leaf validators are pure functions given to the model as a parameter (`Env.lv`); the driver instantiates Int, "
    "Str, CInt, Instance",
    "translator ctables.py (regex reader of ctraits.c, fails closed)",
    "translator copychains.py (ast reader of has_traits.py, fails closed): the copy_type chains of copy_traits and "
    "the order of the method calls on the new object in clone_traits / __setstate__",
    "node identities: the model allocates from a counter; the harness compares only the derived sharing flag",
]
ASSUMPTIONS = [
    "theorems assume Idem (a validated leaf is a fixed point of its validator), CopyStable (validity of a reference "
    "does not depend on which copy it is) and WFObj (stored values are fixed points of their trait's validation: the "
    "C01/C04 invariant)",
    "no aliasing inside one value tree (the same container object reachable twice) - values are trees in the model",
    "dict keys / set members do not collide after coercion (the generator never produces 3 and '3' for CInt keys)",
    "delegates (DelegatesTo / PrototypedFrom) are covered by the #CT round trips only, not by the object model",
    "hostile pickles / hand-made __setstate__ tuples are outside documented API use",
    "dynamically added observers (obj.observe(...), on_trait_change at run time) are not expected on the copy; "
    "declared ones are",
]
DISTINCT_BY_OUTPUT = True

_SRV = [None]


def _server():
    if _SRV[0] is None:
        import traits
        scratch = os.path.dirname(os.path.dirname(os.path.abspath(traits.__file__)))
        _SRV[0] = SUB.Server(scratch)
    return _SRV[0]


# --------------------------------------------------------------------------- cases

CT_HOWS = ["getstate", "pickle0", "pickle2", "pickle5", "copy", "deepcopy"]
COPY_OPS = PL.COPY_OPS


def ct_names():
    # static list (the child validates it against its catalogue)
    return _CT_NAMES


_CT_NAMES = None


def _load_ct_names():
    global _CT_NAMES
    if _CT_NAMES is None:
        cat, _, _ = SUB.ct_catalog()
        _CT_NAMES = sorted(cat)
    return _CT_NAMES


def corpus():
    return [
        # F3: validated Property's CTrait (segfault before ad5fa01)
        '#CT {"name": "Property(Int)", "how": "getstate", "via": "class"}',
        '#CT {"name": "Property(Int)", "how": "pickle2", "via": "class"}',
        '#CT {"name": "Property(Int)", "how": "deepcopy", "via": "class"}',
        "T|new 4;property 1 2 1 1",
        # F70 (fixed by 50c4e1f): copy.deepcopy shared the value of a trait without copy metadata
        "P|x v 0 - A n|set x l 1 i 1|deepcopy",
        "P|x v 0 - A n;dn v 0 - D 1 T 4 d 0|set x d 1 s k l 1 i 1;add dn 0 s b r 2|deepcopy",
        # F71 (fixed by dd9f9de): a detached container under Any was dropped by a deep clone
        "P|x v 0 - A n;l v 0 d L 0 9 T 0 l 0|set l l 1 i 1;alias x l|pickle 2;clone d",
        # F16: all traits transient => everything copied
        "P|x v 1 - A n|set x i 3|clone n",
        # nested re-binding
        "P|ll v 0 d L 0 9 L 0 9 T 0 l 0;d v 0 - D 1 L 0 9 T 0 d 0|set ll l 2 l 1 i 1 l 0;add d 0 s a l 1 i 2|pickle 0",
        "P|ll v 0 d L 0 9 L 0 9 T 0 l 0;r r 0 - A u|set ll l 1 l 1 i 1;set r i 4|clone d",
        "#OBS deepcopy", "#OBS pickle 2", "#OBS clone d", "#OBS2 pickle 2", "#OBS2 deepcopy",
        "P|dy v 0 - T 0 q||pickle 2", "P|dy v 0 - T 0 q||copy", "P|dy v 0 - T 0 q;l v 0 d L 0 9 T 0 l 0||pickle 0;pickle 5",
        "D|clone d", "D|deepcopy", "D|clone s", "N|clone n|d|main", "N|clone n|d|parts", "N|clone s|d|main",
        "#DEL proto-both both clone n", "#DEL proto-before color deepcopy", "#G cycle deepcopy", "#G shared pickle 4",
        # C14-m12 / C14-m13 (seeded): validators of plain containers re-bound to the copy; sharing kept by deep copies
        # of containers of objects
        "#GV self|inst|list|deepcopy", "#GV policy|inst|dict|clone n", "#GV self|any|set|clone d",
        "#GA two-share|list-value", "#GA two-share|copy_traits-nomemo", "#GA cross|tuple", "#GA cycle|deepcopy-memo-given",
        # F17: a CTrait without __dict__
        '#CT {"name": "raw:CTrait(0)", "how": "copy", "via": "as_ctrait"}',
    ]


def probe_T():
    """C18 only (the crash signatures of F75-F78 are C18's)."""
    out = []
    # using a directly built CTrait whose handler's fields were never filled (F75, F76, F77, F78): the outcome
    # of obj.z / obj.z = 1 / del obj.z is an exception class or a value, compared with probeGet/Set/Del
    out.append("T|new 3;probe")
    out.append("T|new 7;probe")
    out.append("T|new 7;default 0;probe")
    for k in range(-1, 13):
        out.append("T|new 0;default %d;probe" % k)
    # delegate() with prefix_type around the guard (and far outside): the handler read from the table must be a function
    for p in (-100, -1, 0, 1, 3, 4, 5, 6, 100):
        out.append("T|new 3;delegate %d;dprobe" % p)
    for b in (0, 1):
        for hv in (0, 1):
            out.append("T|new 4;property 1 2 1 %d;post %d;probe" % (hv, b))
            out.append("T|new 0;property 0 3 2 %d;post %d;probe" % (hv, b))
    return out


def gen_T(rng, exhaustive, probes=False):
    out = []
    if exhaustive and probes:
        out += probe_T()
    if exhaustive:
        for k in range(-2, 13):
            out.append("T|new %d" % k)
        for k in range(0, 9):
            for v in range(-1, 27):
                out.append("T|new %d;validate %d" % (k, v))
            for p in range(-2, 6):
                out.append("T|new %d;delegate %d" % (k, p))
            for b in (0, 1):
                out.append("T|new %d;post %d" % (k, b))
        for g in range(-1, 5):
            for s in range(-1, 5):
                for v in range(-1, 5):
                    for hv in (0, 1):
                        out.append("T|new 4;property %d %d %d %d" % (g, s, v, hv))
    return out


def random_T(rng):
    ops = ["new %d" % rng.choice([0, 1, 2, 3, 4, 5, 6, 7, 8, rng.randint(-3, 12)])]
    for _ in range(rng.randint(1, 4)):
        r = rng.random()
        if r < 0.3:
            ops.append("validate %d" % rng.randint(-1, 26))
        elif r < 0.5:
            ops.append("delegate %d" % rng.randint(-2, 5))
        elif r < 0.8:
            ops.append("property %d %d %d %d" % (rng.randint(-1, 4), rng.randint(-1, 4), rng.randint(-1, 4),
                                                rng.randint(0, 1)))
        else:
            ops.append("post %d" % rng.randint(0, 1))
    return "T|" + ";".join(ops)


def generate(rng, tier):
    names = _load_ct_names()
    if tier == "quick":
        nP, nT, ct_hows, vias = 1400, 150, ["getstate", "pickle2", "deepcopy"], ["class"]
    elif tier == "thorough":
        nP, nT, ct_hows, vias = 150000, 5000, CT_HOWS, ["as_ctrait", "class"]
    else:
        nP, nT, ct_hows, vias = 8000, 1000, CT_HOWS, ["as_ctrait", "class"]
    # P: exhaustive small scope - every menu trait alone x every copy operation, set once
    for name, kind, sh in PL.MENU:
        for op in COPY_OPS if tier != "quick" else ["pickle 2", "copy", "deepcopy", "clone n", "clone s", "clone d"]:
            natural = "d" if (sh[0] in ("L", "S") or sh == PL.N) else "-"
            dv = PL.default_tok(sh) if kind != "r" else "u"
            if name == "dy":
                dv = "q"
                # a dynamic default that nobody reads before the copy: no history at all
                yield "P|dy v 0 - T 0 q;l v 0 d L 0 9 T 0 l 0||%s" % op
                yield "P|dy v 0 - T 0 q;x v 0 - A n|set x i 1|%s;%s" % (op, op)
            decl = "%s %s 0 %s %s %s" % (name, kind, natural if kind == "v" else "-", PL.shape_tok(sh), dv)
            val = PL.gen_val(rng, sh, 0, True) if kind not in ("e", "r") else "i 4"
            yield "P|%s|set %s %s|%s" % (decl, name, " ".join(val.split()), op)
    for _ in range(nP):
        yield PL.gen_case(rng)
    for c in gen_T(rng, True):
        yield c
    for _ in range(nT):
        yield random_T(rng)
    for nm in names:
        for how in ct_hows:
            for via in vias:
                yield "#CT " + json.dumps({"name": nm, "how": how, "via": via}, sort_keys=True)
    for outer in D_OUTERS:
        yield "D|" + outer
    for outer in N_OUTERS:
        for om in N_METAS:
            for kind in ("main", "parts"):
                yield "N|%s|%s|%s" % (outer, om, kind)
    for op in COPY_OPS:
        yield "#OBS " + op
        yield "#OBS2 " + op
        for shape in DEL_SHAPES:
            for override in ("none", "color", "both"):
                yield "#DEL %s %s %s" % (shape, override, op)
        for shape in ("chain", "shared", "cycle", "dict", "self"):
            yield "#G %s %s" % (shape, op)
    for c in gen_ph(rng, {"quick": 100, "thorough": 4000}.get(tier, 1000)):
        yield c
    for c in GR.gen_gv(COPY_OPS if tier != "quick" else ["pickle 2", "copy", "deepcopy", "clone n", "clone s", "clone d"]):
        yield c
    for c in GR.gen_ga():
        yield c


# --------------------------------------------------------------------------- CT / T on the real code

def ct_family(name):
    if name.startswith("Property(") and name not in ("Property()", "Property(fget)", "Property(fget,fset)"):
        return "validated-property"
    if name.startswith("raw:"):
        return "raw-ctrait-without-dict"
    return name


_CTINFO = {}


def run_ct(case):
    spec = json.loads(case[4:])
    key = (spec["name"], spec.get("via"))
    if key not in _CTINFO:
        _CTINFO[key] = _server().request({"k": "CTINFO", "spec": spec})
    fam = ct_family(spec["name"])
    if _CTINFO[key].get("validated_property"):
        fam = "validated-property"   # also dynamic Range / Enum(values=) / WeakRef, which are built as properties
    ans = _server().request({"k": "CT", "spec": spec})
    hits, tags = [], ["CT:" + spec["how"], "CT-via:" + spec.get("via", "as_ctrait")]
    if "crash" in ans:
        hits.append({"signature": "ctrait-getstate-crash:" + fam,
                     "what": "%s of the CTrait of %s killed the interpreter (%s)" % (
                         spec["how"], spec["name"], SUB.crash_summary(ans)),
                     "stderr_tail": ans.get("stderr", "")[-1200:], "no_shrink": True})
        return "crash", hits, tags + ["CT:crash"]
    if ans.get("skip"):
        return "skip " + str(ans["skip"]), hits, tags + ["CT:skip"]
    if ans.get("error"):
        return "harness-exception " + ans["error"], hits, tags
    out = "ok " + ans.get("roundtrip", "?")
    if ans.get("roundtrip", "").startswith("raises"):
        tags.append("CT:unpicklable")
        if not ans.get("stage", "").startswith("pickle"):
            hits.append({"signature": "ctrait-roundtrip-raises:%s:%s" % (fam, spec["how"]),
                         "what": "%s of the CTrait of %s raised at %s: %s" % (spec["how"], spec["name"],
                                                                            ans.get("stage"), ans["roundtrip"]),
                         "no_shrink": True})
        return out, hits, tags
    if ans.get("broken"):
        hits.append({"signature": "ctrait-roundtrip-broken:" + fam,
                     "what": "the %s copy of the CTrait of %s is unusable: %s" % (spec["how"], spec["name"], ans["broken"]),
                     "no_shrink": True})
        return out + " broken", hits, tags
    if not ans.get("idx_same", True):
        hits.append({"signature": "ctrait-roundtrip-handlers-differ:" + fam,
                     "what": "handler indices / flags differ after %s: %s" % (spec["how"], ans.get("idx")),
                     "no_shrink": True})
    if not ans.get("behaviour_same", True):
        hits.append({"signature": "ctrait-roundtrip-behaviour-differs:" + fam,
                     "what": "the restored trait of %s treats sample values differently: %s" % (
                         spec["name"], ans.get("diff")), "no_shrink": True})
    return out + (" same" if ans.get("behaviour_same") else " differs"), hits, tags


def run_t(case):
    ops = [o.strip() for o in case.split("|", 1)[1].split(";") if o.strip()]
    ans = _server().request({"k": "T", "ops": ops})
    tags = ["T:" + o.split()[0] for o in ops]
    if "crash" in ans and "dprobe" in ops:
        return "crash", [{"signature": "crash:raw-ctrait:delegate-prefix-type",
                          "what": "using the delegate CTrait built by [%s] killed the interpreter (%s)" % (
                              "; ".join(ops), SUB.crash_summary(ans)),
                          "stderr_tail": ans.get("stderr", "")[-1200:]}], tags + ["T:crash"]
    if "crash" in ans and "probe" in ops:
        # using the trait (obj.z, obj.z = 1, del obj.z) killed the interpreter: name the unfilled field
        kind = ops[0].split()[-1]
        dflt = [o.split()[1] for o in ops if o.startswith("default ")]
        if any(o.startswith("property") and o.endswith(" 1") for o in ops) and "post 0" in ops:
            sig = "crash:raw-ctrait:validated-property-post-setattr-none"
        elif kind == "3" and not any(o.startswith("delegate") for o in ops):
            sig = "crash:raw-ctrait:delegate-kind-without-delegate"
        elif kind == "7" and not dflt:
            sig = "crash:raw-ctrait:constant-kind-without-default"
        elif dflt and dflt[-1] in ("5", "6", "9"):
            sig = "crash:raw-ctrait:container-default-without-handler"
        else:
            sig = "crash:raw-ctrait:probe"
        return "crash", [{"signature": sig,
                          "what": "using the CTrait built by [%s] killed the interpreter (%s)" % (
                              "; ".join(ops), SUB.crash_summary(ans)),
                          "stderr_tail": ans.get("stderr", "")[-1200:]}], tags + ["T:crash"]
    if "crash" in ans:
        fam = "validated-property" if any(o.startswith("property") and o.endswith(" 1") for o in ops) else "T"
        return "crash", [{"signature": "ctrait-getstate-crash:" + fam,
                          "what": "CTrait built by [%s]: __getstate__/__setstate__ killed the interpreter (%s)" % (
                              "; ".join(ops), SUB.crash_summary(ans)),
                          "stderr_tail": ans.get("stderr", "")[-1200:]}], tags + ["T:crash"]
    if ans.get("error"):
        return "harness-exception " + ans["error"], [], tags
    out = ans["out"]
    hits = []
    if "dprobe" in ops and " dprobe=" in out and not out.endswith(" dprobe=ok,ok"):
        # CTrait.delegate documents prefix_type 0..3 and treats anything else as 0 (same-name delegation): with
        # the name rules used here (0, 1, 3 or out of range) reading and writing through the delegate must work
        pt = [o.split()[1] for o in ops if o.startswith("delegate ")][-1]
        hits.append({"signature": "delegate-prefix-type:%s" % ("in-range" if pt in ("0", "1", "3") else "out-of-range"),
                     "what": "delegate('target', 'x', %s, True): owner.x / owner.x = 7 gave %s" % (
                         pt, out.split(" dprobe=")[1])})
    if out.startswith("idx") and " same" not in out:
        hits.append({"signature": "ctrait-roundtrip-handlers-differ:T", "what": "indices change across a round trip: " + out})
    return out, hits, tags


# --------------------------------------------------------------------------- #OBS

_OBS = {}


def obs_classes():
    if _OBS:
        return _OBS
    from traits.api import (Any, HasTraits, Int, List, Property, Str, cached_property, observe, on_trait_change)
    mod = sys.modules[__name__]

    class Person(HasTraits):
        name = Str()
        scores = List(Int)
        nested = List(List(Int))
        total = Property(Int, observe="scores.items")
        n_nested = Property(Int, depends_on="nested[]")
        log = Any(transient=True)

        def _log(self, what):
            if self.log is None:
                self.log = []
            self.log.append(what)

        @observe("name")
        def _name_obs(self, event):
            self._log(("observe:name", event.new))

        @observe("scores.items")
        def _scores_obs(self, event):
            self._log(("observe:scores.items",))

        @observe("nested.items.items")
        def _nested_obs(self, event):
            self._log(("observe:nested.items.items",))

        @on_trait_change("scores[]")
        def _scores_legacy(self):
            self._log(("otc:scores[]",))

        def _name_changed(self, old, new):
            self._log(("static:name", new))

        @cached_property
        def _get_total(self):
            return sum(self.scores)

        @cached_property
        def _get_n_nested(self):
            return sum(len(x) for x in self.nested)
    Person.__module__ = __name__
    Person.__qualname__ = "Person"
    setattr(mod, "Person", Person)
    _OBS["Person"] = Person
    return _OBS


def run_obs(case):
    op = case[5:].strip()
    sig = PL.COPY_SIG[op if not op.startswith("pickle") else "pickle"]
    Person = obs_classes()["Person"]
    a = Person(name="a", scores=[1, 2], nested=[[1], [2, 3]])
    assert a.total == 3 and a.n_nested == 3
    hits = []
    try:
        c = PL.do_copy(a, op)
    except Exception as e:
        return "copyerr " + exc_name(e), [{"signature": "copy-raises:%s:%s" % (sig, exc_name(e)),
                                           "what": "%s of an object with declared observers raised" % op}], ["OBS"]
    a.log = []
    c.log = []
    res = []

    def expect(label, cond, what):
        res.append("%s=%s" % (label, "y" if cond else "n"))
        if not cond:
            hits.append({"signature": "observer-dead:%s:%s" % (label, sig), "what": what + " after " + op,
                         "no_shrink": True})
    expect("values", (c.name, list(c.scores), [list(x) for x in c.nested]) == ("a", [1, 2], [[1], [2, 3]]),
           "values differ")
    expect("cached-total", c.total == 3, "Property(observe=) value wrong on the copy")
    c.name = "z"
    expect("observe-name", ("observe:name", "z") in c.log, "@observe('name') did not fire on the copy")
    expect("static-name", ("static:name", "z") in c.log, "_name_changed did not fire on the copy")
    c.scores.append(4)
    expect("observe-items", ("observe:scores.items",) in c.log, "@observe('scores.items') did not fire on the copy")
    expect("otc-items", ("otc:scores[]",) in c.log, "@on_trait_change('scores[]') did not fire on the copy")
    expect("property-observe", c.total == 7, "Property(observe='scores.items') is stale on the copy")
    c.nested[1].append(9)
    expect("observe-nested", ("observe:nested.items.items",) in c.log,
           "@observe('nested.items.items') did not fire on the copy")
    expect("property-depends-on", c.n_nested == 4, "Property(depends_on='nested[]') is stale on the copy")
    c.scores = [10]
    expect("property-observe-reassign", c.total == 10, "Property(observe=) stale after re-assignment on the copy")
    expect("original-silent", not a.log, "handlers of the ORIGINAL fired when the copy was changed: %r" % (a.log,))
    expect("original-values", (a.name, list(a.scores), a.total, a.n_nested) == ("a", [1, 2], 3, 3),
           "the original changed when the copy was changed")
    from traits.api import TraitError
    try:
        c.nested[0].append("bad")
        ok = False
    except TraitError:
        ok = True
    expect("nested-live", ok, "nested list of the copy accepted an invalid item")
    return " ".join(res), hits, ["OBS", "OBS:" + sig]


# --------------------------------------------------------------------------- #OBS2 (post_init observers, no legacy listeners)

def account_class():
    if "Account" in _OBS:
        return _OBS["Account"]
    from traits.api import Any, HasTraits, Int, List, observe
    mod = sys.modules[__name__]

    class Account(HasTraits):
        # NO on_trait_change methods, depends_on properties or delegates: __listener_traits__ is empty
        balance = Int()
        entries = List(Int)
        log = Any(transient=True)

        def _log(self, what):
            if self.log is None:
                self.log = []
            self.log.append(what)

        @observe("balance", post_init=True)
        def _record_balance(self, event):
            self._log(("post_init:balance", event.old, event.new))

        @observe("entries.items", post_init=True)
        def _record_entries(self, event):
            self._log(("post_init:entries.items",))

        @observe("balance")
        def _audit(self, event):
            self._log(("observe:balance", event.new))
    Account.__module__ = __name__
    Account.__qualname__ = "Account"
    setattr(mod, "Account", Account)
    assert len(Account.__listener_traits__) == 0
    _OBS["Account"] = Account
    return Account


def run_obs2(case):
    op = case[6:].strip()
    sig = PL.COPY_SIG[op if not op.startswith("pickle") else "pickle"]
    Account = account_class()
    a = Account(balance=10, entries=[1, 2])
    hits = []
    try:
        c = PL.do_copy(a, op)
    except Exception as e:
        return "copyerr " + exc_name(e), [{"signature": "copy-raises:%s:%s" % (sig, exc_name(e)),
                                           "what": "%s of an object with post_init observers raised" % op}], ["OBS2"]
    res = []

    def expect(label, cond, what):
        res.append("%s=%s" % (label, "y" if cond else "n"))
        if not cond:
            hits.append({"signature": "observer-dead:%s:%s" % (label, sig), "what": what + " after " + op,
                         "no_shrink": True})
    expect("values", (c.balance, list(c.entries)) == (10, [1, 2]), "values differ")
    expect("post-init-silent-during-restore", not [x for x in (c.log or []) if x[0].startswith("post_init")],
           "post_init observers saw the state being restored: %r" % (c.log,))
    a.log = []
    c.log = []
    c.balance = 25
    expect("observe-balance", ("observe:balance", 25) in c.log, "@observe('balance') did not fire on the copy")
    expect("post-init-balance", ("post_init:balance", 10, 25) in c.log,
           "@observe('balance', post_init=True) is not hooked up on the copy")
    c.log = []
    c.entries.append(3)
    expect("post-init-items", c.log == [("post_init:entries.items",)],
           "@observe('entries.items', post_init=True) did not fire once on the copy: %r" % (c.log,))
    c.log = []
    c.entries = [4]
    expect("post-init-items-reassign", c.log == [("post_init:entries.items",)],
           "@observe('entries.items', post_init=True) did not fire on re-assignment on the copy: %r" % (c.log,))
    expect("original-silent", not a.log, "observers of the ORIGINAL fired: %r" % (a.log,))
    return " ".join(res), hits, ["OBS2", "OBS2:" + sig]


# --------------------------------------------------------------------------- #DEL (delegates / prototypes)

_DEL = {}
DEL_SHAPES = ("proto-before", "proto-after", "proto-both", "delegate-before", "delegate-after", "mixed")


def delegate_classes():
    if _DEL:
        return _DEL
    from traits.api import DelegatesTo, HasTraits, Instance, Int, List, PrototypedFrom, Str
    mod = sys.modules[__name__]

    class Style(HasTraits):
        color = Str("black")
        width = Int(1)
        tags = List(Str)
    Style.__module__ = __name__
    Style.__qualname__ = "Style"
    setattr(mod, "Style", Style)

    def mk(name, body):
        ns = dict(body)
        ns["__module__"] = __name__
        ns["__qualname__"] = name
        cls = type(HasTraits)(name, (HasTraits,), ns)
        setattr(mod, name, cls)
        return cls
    # declaration order is the copy order: deferring delegates is what makes "before" shapes work
    _DEL["Style"] = Style
    _DEL["proto-before"] = mk("ShapePB", [("color", PrototypedFrom("style")), ("width", PrototypedFrom("style")),
                                          ("style", Instance(Style))])
    _DEL["proto-after"] = mk("ShapePA", [("style", Instance(Style)), ("color", PrototypedFrom("style")),
                                         ("width", PrototypedFrom("style"))])
    _DEL["proto-both"] = mk("ShapePX", [("color", PrototypedFrom("style")), ("style", Instance(Style)),
                                        ("width", PrototypedFrom("style"))])
    _DEL["delegate-before"] = mk("ShapeDB", [("color", DelegatesTo("style")), ("width", DelegatesTo("style")),
                                             ("style", Instance(Style))])
    _DEL["delegate-after"] = mk("ShapeDA", [("style", Instance(Style)), ("color", DelegatesTo("style")),
                                            ("width", DelegatesTo("style"))])
    _DEL["mixed"] = mk("ShapeMX", [("color", PrototypedFrom("style")), ("tags", PrototypedFrom("style")),
                                   ("style", Instance(Style)), ("width", DelegatesTo("style"))])
    return _DEL


def run_del(case):
    _, shape, override, op = case.split(" ", 3)
    sig = PL.COPY_SIG[op if not op.startswith("pickle") else "pickle"]
    classes = delegate_classes()
    Style, cls = classes["Style"], classes[shape]
    o = cls(style=Style(color="red", width=2, tags=["t"]))
    if override in ("color", "both"):
        o.color = "blue"
    if override in ("width", "both"):
        o.width = 7
    if shape == "mixed" and override != "none":
        o.tags = ["local"]
    want = (o.color, o.width, o.style.color, o.style.width)
    want_tags = list(o.tags) if shape == "mixed" else None
    hits = []
    try:
        c = PL.do_copy(o, op)
    except Exception as e:
        return "copyerr " + exc_name(e), [{"signature": "copy-raises:%s:%s" % (sig, exc_name(e)),
                                           "what": "%s of an object with delegates raised %s" % (op, e)}], ["DEL"]
    res = []

    def expect(label, cond, what):
        res.append("%s=%s" % (label, "y" if cond else "n"))
        if not cond:
            hits.append({"signature": "delegate:%s:%s:%s" % (label, sig, shape), "what": what + " after " + op,
                         "no_shrink": True})
    expect("class", type(c) is cls, "class differs")
    got = None
    try:
        got = (c.color, c.width, c.style.color if c.style is not None else None,
               c.style.width if c.style is not None else None)
    except Exception as e:
        got = "raises " + exc_name(e)
    expect("values", got == want, "delegated / prototyped values differ: original %r, copy %r" % (want, got))
    if want_tags is not None:
        expect("list-value", list(c.tags) == want_tags, "prototyped list differs: %r vs %r" % (want_tags, list(c.tags)))
    deep = sig in ("pickle", "deepcopy", "clone-deep")
    if deep:
        expect("delegate-object-copied", c.style is not o.style, "the delegate object is shared")
    # clone_traits / deepcopy copy a prototyped trait by reading it through the prototype and ASSIGNING it, which
    # makes it a local override on the clone (copy_traits, deferred loop): only an unpickled object, or a
    # DelegatesTo trait, still follows its delegate when the original had no override
    materialised = (sig not in ("pickle", "copy")) and not shape.startswith("delegate") and override == "none"
    if got == want and c.style is not None and c.style is not o.style and not materialised:
        # live: the copy follows ITS delegate, not the original's
        before = o.color
        c.style.color = "pink"
        follows = c.color == ("pink" if (shape.startswith("delegate") or override not in ("color", "both")) else want[0])
        expect("follows-own-delegate", follows and o.color == before,
               "after changing the copy's delegate: copy.color=%r original.color=%r" % (c.color, o.color))
        if shape.startswith("proto") or shape == "mixed":
            c.color = "green"
            expect("override-local", c.style.color == "pink" and o.color == before,
                   "a local override on the copy leaked: copy.style.color=%r original.color=%r" % (c.style.color, o.color))
            try:
                del c.color
                expect("revert-to-prototype", c.color == "pink", "deleting the override does not revert: %r" % (c.color,))
            except Exception as e:
                expect("revert-to-prototype", False, "deleting the override raised " + exc_name(e))
    return " ".join(res), hits, ["DEL", "DEL:" + shape, "DEL:" + sig]


# --------------------------------------------------------------------------- N (copy mode below the top level)

_NEST = {}
N_OUTERS = ["clone n", "clone s", "clone d", "deepcopy", "pickle 0", "pickle 2", "pickle 5"]
N_METAS = ["d", "-", "r", "s"]


def nest_classes(owner_meta):
    if owner_meta in _NEST:
        return _NEST[owner_meta]
    from traits.api import Any, Dict, HasTraits, Instance, Int, List, Str
    mod = sys.modules[__name__]
    if "Part" not in _NEST:
        class Part(HasTraits):
            a_none = Any()                     # no copy metadata: follows the mode of the call
            a_deep = Any(copy="deep")
            a_shallow = Any(copy="shallow")
            a_ref = Any(copy="ref")
            opts = Dict(Str, Any)              # Dict carries no copy metadata either
            lock = Any()                       # holds a value that cannot be copied
            size = Int()
        Part.__module__ = __name__
        Part.__qualname__ = "Part"
        setattr(mod, "Part", Part)
        _NEST["Part"] = Part
    Part = _NEST["Part"]
    md = {"d": "deep", "-": None, "r": "ref", "s": "shallow"}[owner_meta]
    name = "Assembly_" + {"d": "deep", "-": "none", "r": "ref", "s": "shallow"}[owner_meta]
    cls = type(HasTraits)(name, (HasTraits,), {
        "main": Instance(Part, copy=md), "parts": List(Instance(Part), copy=md), "a_none": Any(), "lock": Any(),
        "__module__": __name__, "__qualname__": name})
    setattr(mod, name, cls)
    _NEST[owner_meta] = (cls, Part)
    return _NEST[owner_meta]


def documented_fate(outer, owner_meta, child_meta, uncopyable):
    """The rule as documented (HasTraits.clone_traits / copy_traits): the trait's own `copy` metadata wins, else
    the mode of the call - and that mode is the mode of the WHOLE clone, nested objects included; copy.deepcopy
    and pickle copy everything."""
    def eff(meta, arg):
        return meta if meta is not None else (arg if arg is not None else "ref")
    if outer.startswith("pickle"):
        return "deep"
    arg = {"clone n": None, "clone s": "shallow", "clone d": "deep", "deepcopy": "deep"}[outer]
    owner = eff({"d": "deep", "-": None, "r": "ref", "s": "shallow"}[owner_meta], arg)
    if owner in ("ref", "shallow"):
        return "same"       # the child is shared, or shallow-copied (its values are re-assigned as they are)
    m = eff(child_meta, arg)
    if m == "ref":
        return "same"
    return "lost" if uncopyable else m


def run_n(case):
    import threading
    parts = case.split("|")
    outer, owner_meta = parts[1].strip(), parts[2].strip()
    kind = parts[3].strip() if len(parts) > 3 else "main"
    cls, Part = nest_classes(owner_meta)
    pick = outer.startswith("pickle")
    lock = None if pick else threading.Lock()

    def val():
        return [[1], [2]]
    child = Part(a_none=val(), a_deep=val(), a_shallow=val(), a_ref=val(), opts={"k": val()}, lock=lock, size=3)
    o = cls(a_none=val(), lock=lock)
    if kind == "main":
        o.main = child
    else:
        o.parts = [Part(size=1), child]
    hits = []
    try:
        c = PL.do_copy(o, outer)
    except Exception as e:
        return "copyerr " + exc_name(e), [{"signature": "copy-raises:nested:%s" % exc_name(e),
                                           "what": "%s of a two-level graph raised %s" % (outer, e)}], ["N"]
    new = c.main if kind == "main" else (c.parts[1] if len(c.parts) > 1 else None)
    if new is None:
        return "child-missing", [{"signature": "nested-child-missing:%s" % outer,
                                  "what": "the clone has no child object"}], ["N"]

    def fate(nv, ov):
        if nv is ov:
            return "same"
        if nv is None:
            return "lost"
        if nv == ov and nv[0] is ov[0]:
            return "shallow"
        if nv == ov:
            return "deep"
        return "differs"
    obs = [("a_none", fate(new.a_none, child.a_none), None, False), ("a_deep", fate(new.a_deep, child.a_deep), "deep", False),
           ("a_shallow", fate(new.a_shallow, child.a_shallow), "shallow", False),
           ("a_ref", fate(new.a_ref, child.a_ref), "ref", False)]
    ov = "same" if ("k" in new.opts and new.opts["k"] is child.opts["k"]) else \
        "deep" if new.opts.get("k") == child.opts["k"] else "differs"
    out = " ".join("%s=%s" % (n, f) for n, f, _, _ in obs) + " opts=" + ov
    for n, f, meta, unc in obs:
        want = documented_fate(outer, owner_meta, meta, unc)
        if f != want:
            hits.append({"signature": "nested-copy-mode:%s:%s-%s:%s:%s-not-%s" % (
                PL.COPY_SIG[outer if not pick else "pickle"], kind, owner_meta, n, f, want),
                "what": "%s: value of the child's %s (copy metadata %s) is %s, the documented rule gives %s" % (
                    outer, n, meta, f, want)})
    want = "deep" if documented_fate(outer, owner_meta, None, False) == "deep" else "same"
    if ov != want:
        hits.append({"signature": "nested-copy-mode:%s:%s-%s:opts:%s-not-%s" % (
            PL.COPY_SIG[outer if not pick else "pickle"], kind, owner_meta, ov, want),
            "what": "%s: values inside the child's Dict are %s, the documented rule gives %s" % (outer, ov, want)})
    if not pick:
        lf = "same" if new.lock is lock else "lost" if new.lock is None else "differs"
        out += " lock=" + lf
        want = documented_fate(outer, owner_meta, None, True)
        if lf != want:
            hits.append({"signature": "nested-copy-mode:%s:%s-%s:lock:%s-not-%s" % (
                PL.COPY_SIG[outer], kind, owner_meta, lf, want),
                "what": "%s: the child's uncopyable value is %s, the documented rule gives %s" % (outer, lf, want)})
        # the top level follows the same rule (sanity)
        if outer == "clone n" and not (c.lock is lock and c.a_none is o.a_none):
            hits.append({"signature": "top-level-copy-mode:clone-ref", "what": "clone_traits() copied a top-level Any value"})
    return out, hits, ["N", "N:" + PL.COPY_SIG[outer if not pick else "pickle"], "N:owner-" + owner_meta]


# --------------------------------------------------------------------------- D (the deferred traits of copy_traits)

_DEF = {}
D_OUTERS = ["clone n", "clone s", "clone d", "deepcopy"]


def deferred_classes():
    if _DEF:
        return _DEF
    from traits.api import Any, HasTraits, Instance, PrototypedFrom, Property, Str, WeakRef
    mod = sys.modules[__name__]

    class Folder(HasTraits):
        name = Str()

    class Style(HasTraits):
        plain = Any()                  # prototype trait without copy metadata
        shared = Any(copy="ref")       # prototype trait asking for sharing
    ns = {"folder": WeakRef(Folder),   # copy="ref" is WeakRef's own metadata; a property underneath: deferred
          "style": Instance(Style, copy="ref"),
          "proto_none": PrototypedFrom("style", "plain"), "proto_ref": PrototypedFrom("style", "shared"),
          "__module__": __name__, "__qualname__": "Doc"}
    for nm, md in (("p_none", None), ("p_ref", "ref"), ("p_shallow", "shallow"), ("p_deep", "deep")):
        sh = "_%s_store" % nm
        ns[sh] = Any(transient=True)
        ns[nm] = Property(Any, copy=md) if md else Property(Any)
        ns["_get_" + nm], ns["_set_" + nm] = PL._accessors(sh)
    Doc = type(HasTraits)("Doc", (HasTraits,), ns)
    for c, n in ((Folder, "Folder"), (Style, "Style")):
        c.__module__ = __name__
        c.__qualname__ = n
        setattr(mod, n, c)
    setattr(mod, "Doc", Doc)
    _DEF.update({"Doc": Doc, "Folder": Folder, "Style": Style})
    return _DEF


def run_d(case):
    import gc
    outer = case.split("|")[1].strip()
    cl = deferred_classes()
    Doc, Folder, Style = cl["Doc"], cl["Folder"], cl["Style"]
    folder = Folder(name="inbox")

    def val():
        return [[1], [2]]
    style = Style(plain=val(), shared=val())
    d = Doc(folder=folder, style=style, p_none=val(), p_ref=val(), p_shallow=val(), p_deep=val())
    d.proto_none = val()     # local overrides: the values the deferred loop copies
    d.proto_ref = val()
    hits = []
    try:
        c = PL.do_copy(d, outer)
    except Exception as e:
        return "copyerr " + exc_name(e), [{"signature": "copy-raises:deferred:%s" % exc_name(e),
                                           "what": "%s of an object with deferred traits raised %s" % (outer, e)}], ["D"]
    gc.collect()    # a copy nothing else holds (a WeakRef target that was duplicated) is gone now

    def fate(nv, ov):
        if nv is ov:
            return "same"
        if nv is None:
            return "lost"
        if nv == ov and nv[0] is ov[0]:
            return "shallow"
        if nv == ov:
            return "deep"
        return "differs"
    metas = {"p_none": None, "p_ref": "ref", "p_shallow": "shallow", "p_deep": "deep", "proto_none": None,
             "proto_ref": "ref"}
    obs = [(n, fate(getattr(c, n), getattr(d, n))) for n in ("p_none", "p_ref", "p_shallow", "p_deep")]
    wf = "same" if c.folder is folder else "lost" if c.folder is None else "deep"
    obs.append(("weak", wf))
    obs += [(n, fate(getattr(c, n), getattr(d, n))) for n in ("proto_none", "proto_ref")]
    out = " ".join("%s=%s" % o for o in obs)
    arg = {"clone n": None, "clone s": "shallow", "clone d": "deep", "deepcopy": "deep"}[outer]
    for n, f in obs:
        meta = "ref" if n == "weak" else metas[n]
        want = meta if meta is not None else (arg or "ref")     # the documented rule: own metadata, else the mode
        want = "same" if want == "ref" else want
        if f != want:
            hits.append({"signature": "deferred-copy-mode:%s:%s:%s-not-%s" % (PL.COPY_SIG[outer], n, f, want),
                         "what": "%s: the value of the deferred trait %s (copy metadata %s) is %s, the documented rule "
                                 "gives %s" % (outer, n, meta, f, want)})
    from traits.api import TraitError
    try:
        c.folder = "not a folder"
        hits.append({"signature": "deferred-not-live:%s:weak" % PL.COPY_SIG[outer],
                     "what": "the copy's WeakRef accepted an invalid value"})
    except TraitError:
        pass
    return out, hits, ["D", "D:" + PL.COPY_SIG[outer]]


# --------------------------------------------------------------------------- #G

_G = {}


def graph_class():
    if _G:
        return _G["Tree"]
    from traits.api import Dict, HasTraits, Instance, Int, List, Str, This
    mod = sys.modules[__name__]

    class Tree(HasTraits):
        # natural metadata: `This` and `Dict` carry no copy metadata of their own (before 50c4e1f copy.deepcopy
        # handed their values over by reference: finding F70)
        tag = Int()
        data = List(Int)
        kids = List(This)
        parent = This
        index = Dict(Str, This)
    Tree.__module__ = __name__
    Tree.__qualname__ = "Tree"
    setattr(mod, "Tree", Tree)
    _G["Tree"] = Tree
    return Tree


def build_graph(shape):
    Tree = graph_class()
    root = Tree(tag=0, data=[1, 2])
    if shape == "chain":
        a = Tree(tag=1, data=[3])
        b = Tree(tag=2, data=[4, 5])
        root.kids = [a]
        a.kids = [b]
    elif shape == "shared":
        a = Tree(tag=1, data=[3])
        root.kids = [a, a]
        root.index = {"x": a}
    elif shape == "cycle":
        a = Tree(tag=1, data=[3])
        root.kids = [a]
        a.parent = root
    elif shape == "dict":
        root.index = {"x": Tree(tag=1, data=[3]), "y": Tree(tag=2)}
    elif shape == "self":
        root.parent = root
        root.kids = [root]
    return root


def graph_nodes(root):
    """Pre-order walk: list of nodes in discovery order; edges as (src_idx, label, dst_idx)."""
    order, index, edges = [], {}, []

    def visit(n):
        if id(n) in index:
            return index[id(n)]
        index[id(n)] = len(order)
        me = len(order)
        order.append(n)
        for i, k in enumerate(n.kids):
            edges.append((me, "kids%d" % i, visit(k)))
        if n.parent is not None:
            edges.append((me, "parent", visit(n.parent)))
        for key in sorted(n.index):
            edges.append((me, "index:" + key, visit(n.index[key])))
        return me
    visit(root)
    return order, edges


def run_g(case):
    _, shape, op = case.split(" ", 2)
    sig = PL.COPY_SIG[op if not op.startswith("pickle") else "pickle"]
    from traits.api import TraitError
    root = build_graph(shape)
    hits = []
    try:
        c = PL.do_copy(root, op)
    except Exception as e:
        return "copyerr " + exc_name(e), [{"signature": "copy-raises:%s:%s" % (sig, exc_name(e)),
                                           "what": "%s of an Instance graph (%s) raised %s" % (op, shape, e)}], ["G"]
    o1, e1 = graph_nodes(root)
    o2, e2 = graph_nodes(c)
    res = []

    def expect(label, cond, what):
        res.append("%s=%s" % (label, "y" if cond else "n"))
        if not cond:
            hits.append({"signature": "graph:%s:%s:%s" % (label, sig, shape), "what": what + " after " + op,
                         "no_shrink": True})
    deep = sig in ("pickle", "deepcopy", "clone-deep")
    if deep:
        expect("shape", e1 == e2 and [n.tag for n in o1] == [n.tag for n in o2] and
               [list(n.data) for n in o1] == [list(n.data) for n in o2],
               "the copy is not isomorphic to the original (edges %r vs %r)" % (e1, e2))
        ids1 = set(id(n) for n in o1)
        expect("objects-disjoint", not any(id(n) in ids1 for n in o2), "an object of the copy is an object of the original")
        conts1 = set()
        for n in o1:
            conts1.update(id(x) for x in (n.data, n.kids, n.index))
        expect("containers-disjoint", not any(id(x) in conts1 for n in o2 for x in (n.data, n.kids, n.index)),
               "a container of the copy is a container of the original")
    else:
        expect("root-values", (c.tag, list(c.data), len(c.kids), sorted(c.index)) ==
               (root.tag, list(root.data), len(root.kids), sorted(root.index)), "root values differ")
        expect("root-containers-fresh", not any(x is y for x, y in ((c.data, root.data), (c.kids, root.kids),
                                                                   (c.index, root.index))),
               "a declared container of the copy is the original's object")
    # every node of the copy graph is live
    live = True
    owner_ok = True
    for n in (o2 if deep else [c]):
        try:
            n.data.append("bad")
            live = False
        except TraitError:
            pass
        for cont in (n.data, n.kids, n.index):
            if cont.object() is not n:
                owner_ok = False
    expect("live", live, "a data list in the copy graph accepted an invalid item")
    expect("rebound", owner_ok, "a container in the copy graph is not bound to its own node")
    return " ".join(res), hits, ["G", "G:" + shape, "G:" + sig]


# --------------------------------------------------------------------------- #PH: traits whose validator depends on
# the initialisation phase (write-once / initialisable-only values) through every copy operation

_PH = {}
PH_KINDS = ["uuid", "uuid-init", "readonly", "readonly-late", "readonly-unset", "readonly-default", "constant",
            "initonly", "initonly-str", "uuid-init-transient"]
PH_BUILDS = ["given", "read", "unread"]
PH_GRAPHS = ["direct", "list", "instance", "dict", "shared"]
PH_OPS = PL.COPY_OPS + ["clone names", "clone all"]


def phase_classes():
    """One Doc class per kind (trait `x` of that kind next to ordinary traits) and a Shelf that reaches Docs through
    a List(Instance), an Instance and a Dict."""
    if _PH:
        return _PH
    import traits.api as T
    mod = sys.modules[__name__]

    class InitOnly(T.TraitType):
        """Accepts a value only while the object is being set up (like UUID(can_init=True))."""
        default_value = 0

        def validate(self, object, name, value):
            if object.traits_inited():
                raise T.TraitError("The '%s' trait is read-only after initialisation" % name)
            if not isinstance(value, int):
                raise T.TraitError("int expected")
            return value

    class InitOnlyStr(InitOnly):
        default_value = "unset"

        def validate(self, object, name, value):
            if object.traits_inited():
                raise T.TraitError("The '%s' trait is read-only after initialisation" % name)
            return str(value)
    makers = {
        "uuid": lambda: T.UUID(), "uuid-init": lambda: T.UUID(can_init=True),
        "uuid-init-transient": lambda: T.UUID(can_init=True, transient=True),
        "readonly": lambda: T.ReadOnly, "readonly-late": lambda: T.ReadOnly, "readonly-unset": lambda: T.ReadOnly,
        "readonly-default": lambda: T.ReadOnly(5), "constant": lambda: T.Constant(7),
        "initonly": lambda: InitOnly(), "initonly-str": lambda: InitOnlyStr(),
    }
    for kind, mk in makers.items():
        cname = "PhDoc_" + kind.replace("-", "_")
        cls = type(cname, (T.HasTraits,), {"x": mk(), "title": T.Str(), "pages": T.List(T.Int)})
        cls.__module__ = __name__
        cls.__qualname__ = cname
        setattr(mod, cname, cls)
        _PH[kind] = cls

    class PhShelf(T.HasTraits):
        label = T.Str()
        documents = T.List(T.Instance(T.HasTraits))
        favourite = T.Instance(T.HasTraits)
        index = T.Dict(T.Str, T.Instance(T.HasTraits))
    PhShelf.__module__ = __name__
    PhShelf.__qualname__ = "PhShelf"
    setattr(mod, "PhShelf", PhShelf)
    _PH["shelf"] = PhShelf
    return _PH


def _ph_given(kind):
    import uuid
    if kind.startswith("uuid"):
        return uuid.UUID("12345678-1234-5678-1234-567812345678")
    if kind == "initonly-str":
        return "given"
    return 41


def _ph_other(kind):
    import uuid
    if kind.startswith("uuid"):
        return uuid.UUID("87654321-4321-8765-4321-876543218765")
    if kind == "initonly-str":
        return "other"
    return 99


def run_ph(case):
    """`#PH kind build graph op`: does the copy carry the value of the original, and is it as read-only?"""
    from traits.api import TraitError
    _, kind, build, graph, op = case.split(None, 4)
    cl = phase_classes()
    Doc, Shelf = cl[kind], cl["shelf"]
    hits = []
    # ---- which constructions exist for this kind
    takes_init = kind in ("uuid-init", "uuid-init-transient", "readonly", "initonly", "initonly-str")
    if build == "given" and not (takes_init or kind == "readonly-late"):
        return "skip no-such-construction", [], ["PH:skip"]

    def make(title):
        if build == "given" and kind == "readonly-late":
            d = Doc(title=title, pages=[1, 2])
            d.x = _ph_given(kind)
        elif build == "given":
            d = Doc(x=_ph_given(kind), title=title, pages=[1, 2])
        else:
            d = Doc(title=title, pages=[1, 2])
            if build == "read":
                d.x
        return d
    docs = [make("a")]
    if graph == "direct":
        root = docs[0]
    else:
        docs.append(make("b"))
        root = Shelf(label="s")
        if graph == "list":
            root.documents = list(docs)
        elif graph == "instance":
            root.favourite = docs[0]
            docs = docs[:1]
        elif graph == "dict":
            root.index = {"a": docs[0], "b": docs[1]}
        elif graph == "shared":
            root.documents = [docs[0], docs[1], docs[0]]
            root.favourite = docs[0]
            root.index = {"a": docs[0]}

    def reach(r):
        if graph == "direct":
            return [r]
        if graph == "list":
            return list(r.documents)
        if graph == "instance":
            return [r.favourite]
        if graph == "dict":
            return [r.index["a"], r.index["b"]]
        return [r.documents[0], r.documents[1]]
    opclass = op.split()[0]
    # pickle and copy.copy restore through __setstate__, deepcopy and clone_traits through copy_traits
    route = "setstate" if opclass in ("pickle", "copy") else "copy_traits"
    sig_tail = "%s:%s" % (kind, route)
    # ---- the copy
    try:
        if op == "clone names":
            cp = root.clone_traits(["x", "title", "pages"] if graph == "direct" else
                                   ["label", "documents", "favourite", "index"], copy="deep")
        elif op == "clone all":
            cp = root.clone_traits("all", copy="deep")
        else:
            cp = PL.do_copy(root, op)
    except Exception as e:
        hits.append({"signature": "phase:copy-raises:" + sig_tail,
                     "what": "%s of an object %s `x = %s` (%s) raises %s: %s" % (
                         op, "with" if graph == "direct" else "reaching (%s) objects with" % graph, kind, build,
                         type(e).__name__, str(e)[:160])})
        return "raises " + type(e).__name__, hits, ["PH", "PH:" + kind, "PH:raises"]
    res = []
    shares = opclass == "copy" or op in ("clone n", "clone s")     # shallow operations hand nested objects over
    copies = reach(cp)
    deep_op = opclass in ("pickle", "deepcopy") or op in ("clone d", "clone names", "clone all")
    if graph == "shared" and deep_op and not (cp.favourite is cp.documents[0] is cp.documents[2] is cp.index["a"]):
        hits.append({"signature": "phase:sharing-lost:" + opclass,
                     "what": "one document reached four ways is no longer one object after " + op})
    for d0, d1 in zip(docs, copies):
        if graph != "direct" and shares:
            if d1 is not d0:
                res.append("copied")
            else:
                res.append("shared")
                continue
        if d1 is d0:
            hits.append({"signature": "phase:not-copied:" + sig_tail, "what": "%s returned the original document" % op})
            continue
        want = d0.__dict__.get("x", None) if build == "unread" and kind != "constant" else d0.x
        fresh_ok = kind == "uuid-init-transient" or (build == "unread" and want is None)
        # an unread generated value: `__getstate__` / copy_traits read it (C14_values: dynamic defaults are read
        # exactly once, by the copy operation), so afterwards the original has one and the copy must have the same
        v0, v1 = d0.x, d1.x
        if fresh_ok and kind == "uuid-init-transient":
            res.append("transient")
        elif v1 != v0:
            res.append("DIFF")
            hits.append({"signature": "phase:value-differs:" + sig_tail,
                         "what": "after %s the copy's `x` (%s, %s) is %r, the original's is %r - the value was not "
                                 "carried over%s" % (op, kind, build, str(v1)[:40], str(v0)[:40],
                                                    " (a NEW value was generated for the copy)" if kind.startswith(
                                                        "uuid") else "")})
        else:
            res.append("same")
        if d1.title != d0.title or d1.pages != d0.pages or (d1.pages is d0.pages):
            hits.append({"signature": "phase:ordinary-traits-differ:" + sig_tail,
                         "what": "title / pages of the copy differ from the original (or the list is shared)"})
        # ---- write-once stays written: the copy refuses what the original refuses
        def refuses(d):
            try:
                d.x = _ph_other(kind)
            except TraitError:
                return True
            return False
        twin = make("t")           # same construction as the original, to ask without disturbing it
        r0 = refuses(twin)
        before = d1.x
        r1 = refuses(d1)
        if r0 and not r1:
            res.append("WRITABLE")
            hits.append({"signature": "phase:writable-after-copy:" + sig_tail,
                         "what": "the original refuses an assignment to `x` (%s, %s), the copy made by %s accepts it "
                                 "(was %r, now %r)" % (kind, build, op, str(before)[:40], str(d1.x)[:40])})
        elif r1 and not r0:
            res.append("FROZEN")
            hits.append({"signature": "phase:frozen-after-copy:" + sig_tail,
                         "what": "the original still accepts a first assignment to `x` (%s, %s), the copy made by %s "
                                 "refuses it" % (kind, build, op)})
        else:
            res.append("ro" if r1 else "rw")
        try:
            d1.pages.append("x")
            hits.append({"signature": "phase:not-live:" + sig_tail, "what": "the copy's List(Int) accepts 'x'"})
        except TraitError:
            pass
    return " ".join(res), hits, ["PH", "PH:" + kind, "PH:" + opclass]


def gen_ph(rng, n_random):
    out = []
    for kind in PH_KINDS:
        for build in PH_BUILDS:
            for op in PH_OPS:
                out.append("#PH %s %s direct %s" % (kind, build, op))
    for kind in PH_KINDS:
        for graph in PH_GRAPHS[1:]:
            for op in ("pickle 2", "deepcopy", "clone n", "clone d", "clone all"):
                out.append("#PH %s given %s %s" % (kind, graph, op))
                out.append("#PH %s read %s %s" % (kind, graph, op))
    for _ in range(n_random):
        out.append("#PH %s %s %s %s" % (rng.choice(PH_KINDS), rng.choice(PH_BUILDS), rng.choice(PH_GRAPHS),
                                        rng.choice(PH_OPS)))
    return out


# --------------------------------------------------------------------------- engine API

def run_impl(case):
    if case.startswith("P|"):
        return PL.run_p(case)
    if case.startswith("T|"):
        return run_t(case)
    if case.startswith("N|"):
        return run_n(case)
    if case.startswith("D|"):
        return run_d(case)
    if case.startswith("#CT "):
        return run_ct(case)
    if case.startswith("#OBS "):
        return run_obs(case)
    if case.startswith("#OBS2 "):
        return run_obs2(case)
    if case.startswith("#DEL "):
        return run_del(case)
    if case.startswith("#G "):
        return run_g(case)
    if case.startswith("#GV "):
        return GR.run_gv(case, PL.do_copy, PL.COPY_SIG)
    if case.startswith("#GA "):
        return GR.run_ga(case)
    if case.startswith("#PH "):
        return run_ph(case)
    raise ValueError(case)


def nontrivial(case, out):
    return not (out.startswith("skip") or out.startswith("harness-exception") or out in ("", "bad-case"))


def shrink(case, fails):
    """ddmin over history ops, then over declarations, of a P case."""
    if not case.startswith("P|"):
        return case
    _, decls, hist, copies = case.split("|")
    ops = [o for o in hist.split(";") if o.strip()]
    ds = [d for d in decls.split(";") if d.strip()]
    cs = [c for c in copies.split(";") if c.strip()]

    def mk(ds_, ops_, cs_):
        return "P|%s|%s|%s" % (";".join(ds_), ";".join(ops_), ";".join(cs_))
    changed = True
    while changed:
        changed = False
        for i in range(len(ops) - 1, -1, -1):
            cand = ops[:i] + ops[i + 1:]
            if fails(mk(ds, cand, cs)):
                ops, changed = cand, True
        for i in range(len(ds) - 1, -1, -1):
            if len(ds) == 1:
                break
            name = ds[i].split()[0]
            if any(name in o.split()[1:3] for o in ops):
                continue
            cand = ds[:i] + ds[i + 1:]
            if fails(mk(cand, ops, cs)):
                ds, changed = cand, True
        if len(cs) > 1:
            for i in range(len(cs)):
                cand = cs[:i] + cs[i + 1:]
                if fails(mk(ds, ops, cand)):
                    cs, changed = cand, True
                    break
    return mk(ds, ops, cs)
