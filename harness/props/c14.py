"""C14 — pickling, deep copying and cloning preserve state and keep traits live."""
from . import persistlib as PL

PROPERTY = "C14"
DRIVER = "TraitsVerif/Driver/Persist.lean"
PROPS_MODULES = ["TraitsVerif.Props.C14"]
TRANSLATORS = ["ctables"]
RULE = "wip"
TRUSTED = []
ASSUMPTIONS = []


def corpus():
    return []


def generate(rng, tier):
    n = {"quick": 1500, "thorough": 20000}.get(tier, 6000)
    for _ in range(n):
        yield PL.gen_case(rng)


def run_impl(case):
    if case.startswith("P|"):
        return PL.run_p(case)
    raise ValueError(case)
