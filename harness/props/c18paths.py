"""Python twin of `Model/RefPaths.valueOk` over what `translate/crefpaths.py` reads: turns an unbalanced
control-flow path of ctraits.c into an oracle hit with a specific signature (`refpath-imbalance:<function>:<value>`),
so that a regression of a repaired leak is matched by its `fixed` entry in known_findings.json and not only reported
as a broken proof obligation (`C18_paths_balanced`) without input."""
import os
import re


def value_ok(evs, v):
    held = owed = 0
    for (w, e) in evs:
        if w != v:
            continue
        if e in ("new", "inc", "take"):
            if owed > 0:
                owed -= 1
            else:
                held += 1
        elif e in ("dec", "xdec", "steal", "ret"):
            if held > 0:
                held -= 1
            else:
                return False
        elif e == "store":
            if held > 0:
                held -= 1
            else:
                owed += 1
        else:
            return False
    return held == 0 and owed == 0


def refpath_hits(scratch):
    from translate import crefpaths as C
    src = C.strip_comments(open(os.path.join(scratch, "traits", "ctraits.c")).read())
    hits, seen = [], set()
    try:
        results, _unread = C.read_all(src)      # every function definition the reader covers; `unread` ones are skipped
    except Exception:
        return hits             # a REQUIRED function is unreadable: the translator itself fails closed on it
    for (name, _, paths, _) in results:
        for (kind, err, evs) in paths:
            for v in dict.fromkeys(w for (w, _) in evs):
                if not value_ok(evs, v):
                    sig = "refpath-imbalance:%s:%s" % (name, re.sub(r"~\d+$", "", v))
                    if sig not in seen:
                        seen.add(sig)
                        hits.append({"signature": sig, "what": "ctraits.c %s: on a path ending in '%s' the value '%s' is not "
                                     "handled neutrally (events: %s)" % (name, kind, v, " ".join("%s:%s" % x for x in evs if x[0] == v))})
    hits += stale_borrow_hits(src, seen)
    return hits


def stale_borrow_hits(src, seen):
    """Twin of `Model/RefBorrows.staleBorrows` over what `translate/crefborrows.py` reads: signature
    `stale-borrow:<function>:<value>` (a field-borrowed value used after a call that can run arbitrary code)."""
    from translate import crefborrows as B
    out = []
    try:
        found = B.hits(src)
    except Exception:
        return out              # the translator itself fails closed
    for (fn, v, evs) in found:
        sig = "stale-borrow:%s:%s" % (fn, v)
        if sig not in seen:
            seen.add(sig)
            out.append({"signature": sig, "what": "ctraits.c %s: the field-borrowed value '%s' is used after a call that can "
                        "run arbitrary code, with no reference protecting it or the tuple it was taken from (events: %s)"
                        % (fn, v, " ".join("%s:%s" % x for x in evs)[:300])})
    return out


if __name__ == "__main__":
    import sys
    sys.path.insert(0, os.path.join(os.path.dirname(os.path.abspath(__file__)), ".."))
    for h in refpath_hits(sys.argv[1] if len(sys.argv) > 1 else "/repo"):
        print(h["signature"], "|", h["what"][:160])
