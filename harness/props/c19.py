"""C19 — a failing user callback never leaves an object half-updated.

Systematic fault injection on the real code.  For every generated operation
and every k, the k-th user-callback invocation within the operation raises one
of TraitError / ValueError / AttributeError / RuntimeError; the oracle checks
 (1) decisive callbacks: no effect at all (deep snapshot equal, no event) and the
     exception reaches the caller unchanged or as TraitError;
 (2) twin: the rest of the history behaves exactly as on an object that never
     saw the failing operation (same history minus the failed operations, with
     callbacks that never fail);
 (3) change handlers: the operation is complete and all other handlers still run.

Streams
  tlo:…|failk:k:E|…      List traits, also compared with the Lean model (driver seq)
  #{"failk":[k,E],…}     nested List(List), Dict(K, List), Set, Dict traits with failing leaf validators
  #{"scalar":…}          custom trait validator / default factory / _name_default / property getter+setter /
                         adapter factory / change handler (added with the clusters that own them)
"""
import json

from . import c04
from . import c19scalar
from . import seqlib as S

PROPERTY = "C19"
DRIVERS = {"tlo:": "TraitsVerif/Driver/Seq.lean"}
PROPS_MODULES = ["TraitsVerif.Props.C19"]
TRANSLATORS = ["effects", "pyl"]
EXCS = ["TraitError", "ValueError", "AttributeError", "RuntimeError"]
RULE = ("fault injection: (operation, k, exception) triples — the k-th user callback invocation inside the "
        "operation raises — sampled over histories of the container clusters (List traits through the Lean "
        "model too; nested List/Dict/Set traits) and the scalar callback sites; oracle: deep snapshot "
        "before/after, exception class, and a fault-free twin for the remainder of the history; non-trivial = "
        "a callback actually fired the injected fault, distinct = distinct canonical output")
TRUSTED = ["the twin comparison observes values, container contents, events and exception classes — hidden state "
           "that never influences those is outside its reach"]
ASSUMPTIONS = ["multi-attribute trait_set / constructor keywords are sequences of assignments; atomicity is per assignment",
               "change-handler clause under the default (non re-raising) exception handler"]


def corpus():
    return [
        "tlo:0:4|failk:1:ValueError|[]|ex [1,2];ex [1];as [1,2,3];ss 0 0 N [4,5];ap 7;ia [8,9]",
        "tlo:1:3|failk:0:RuntimeError|[]|ap 1",
        '#{"ops":[[["ll"],"append",[[1,2]]],[["st"],"update",[[3,4,5]]],[["dl","a"],"extend",[[1,2]]],[["dc"],"dsetitem",[5,5]]],"failk":[1,"ValueError"]}',
        # a rejected assignment to a never-read trait with a dynamic default and a handler must not materialise the default
        '#{"scalar":"validator","steps":[["de",4,"set"],["i",9,"set"],["de",null,"get"]],"at":0,"k":0,"exc":"ValueError"}',
        # a failing quiet assignment must not leave the object muted
        '#{"scalar":"validator","steps":[["e",4,"setq"],["e",6,"set"],["i",3,"set"]],"at":0,"k":0,"exc":"ValueError"}',
        '#{"scalar":"validator","steps":[["n",-2,"qset"],["n",-4,"set"],["s","q","trait_set"]],"at":0,"k":0,"exc":"RuntimeError"}',
        '#{"scalar":"validator","steps":[["dn",-3,"trait_set"],["i",2,"set"],["dn",null,"get"],["dn",5,"set"]],"at":0,"k":0,"exc":"TraitError"}',
        # a custom validator refusing a value inside a NESTED compound whose last member accepts it; later steps are ordinary
        '#{"scalar":"validator","steps":[["nn",2.5,"set"],["nn","second","set"],["i",3,"set"],["nn","x","set"],["e",4,"set"]],"at":4,"k":0,"exc":"ValueError"}',
        # the same failing operation repeated on one thread, then ordinary work there
        '#{"scalar":"repeat","site":"default","attr":"x","n":4000,"exc":"ValueError","falsy":0}',
        '#{"scalar":"repeat","site":"getter","attr":"p","n":4000,"exc":"RuntimeError","falsy":0}',
        '#{"scalar":"repeat","site":"validator","attr":"px","n":2500,"exc":"TraitError","falsy":0}',
    ]


def generate(rng, tier):
    n = {"quick": 1500, "thorough": 40000}.get(tier, 15000)
    for _ in range(n):
        lo, hi = rng.choice([(0, 4), (0, 6), (0, 3)])
        h = S.random_history(rng, "tlo:%d:%d" % (lo, hi),
                             validators=["failk:%d:%s" % (rng.choice([0, 0, 1, 1, 2, 3]), rng.choice(EXCS))])
        kind, v, init, ops = h.split("|")
        ops = ops.split(";")
        for i in range(len(ops)):
            if rng.random() < 0.1:
                ops[i] = "as " + S.show_list([rng.choice([0, 1, 2, 3, 5]) for _ in range(rng.randint(0, 4))])
        yield "%s|%s|[]|%s" % (kind, v, ";".join(ops))
    for _ in range(n):
        c = c04.random_nested_case(rng)
        c["failk"] = [rng.choice([0, 0, 1, 1, 2, 3]), rng.choice(EXCS)]
        c.pop("empty", None)
        yield "#" + json.dumps(c, separators=(",", ":"))
    yield from c19scalar.generate(rng, n, EXCS)


def _hit(sig, what, **kw):
    d = {"signature": sig, "what": what}
    d.update(kw)
    return d


def run_impl(case):
    if case.startswith("#"):
        c = json.loads(case[1:])
        if "scalar" in c:
            return c19scalar.run(c)
        out, hits, tags = c04.run_nested(c)
        fired = list(c04.LAST_FIRED)
        outs = out.split(" ; ")
        k, exc = c["failk"]
        twin_case = dict(c)
        twin_case["ops"] = [op for op, f in zip(c["ops"], fired) if not f]
        twin_case["failk"] = [10 ** 6, exc]
        ckey = json.dumps(c, sort_keys=True)
        twin_case["noitems"] = c["noitems"] if "noitems" in c else c04._noitems(ckey)
        twin_case["falsy"] = c["falsy"] if "falsy" in c else c04._falsy(ckey)
        tout, _, _ = c04.run_nested(twin_case) if twin_case["ops"] else ("", [], [])
        sigs = ["%s.%s" % (p[0] + ("[]" if len(p) > 1 else ""), m) for p, m, a in c["ops"]]
    else:
        out, hits, tags = c04.run_impl(case)
        if out.startswith("err") and ";" not in out and not c04.LAST_FIRED:
            return out, hits, tags
        fired = list(c04.LAST_FIRED)
        outs = out.split(" ; ")
        kind, v, init, ops = case.split("|")
        _, k, exc = v.split(":")
        opl = [o for o in ops.split(";") if o.strip()]
        keep = [o for o, f in zip(opl, fired) if not f]
        tout = c04.run_impl("%s|id|%s|%s" % (kind, init, ";".join(keep)))[0] if keep else ""
        sigs = [o.split()[0] for o in opl]
    tags = set(tags)
    hits = [dict(h, signature="c19-" + h["signature"]) for h in hits]
    touts = tout.split(" ; ") if tout else []
    rest = []
    for o, f, sg in zip(outs, fired, sigs):
        if f:
            tags.add("fired:" + exc)
            if not o.startswith("err "):
                hits.append(_hit("callback-failure-swallowed:" + sg, "the injected %s did not reach the caller: %s" % (exc, o)))
            elif o.split()[1] not in (exc, "TraitError"):
                hits.append(_hit("callback-exception-changed:" + sg, "injected %s surfaced as %s" % (exc, o.split()[1])))
        else:
            rest.append((o, sg))
    if len(rest) != len(touts):
        hits.append(_hit("twin-length", "twin produced %d results, faulted run %d" % (len(touts), len(rest))))
    else:
        for (o, sg), t in zip(rest, touts):
            if o != t:
                hits.append(_hit("twin-differs:" + sg, "after a failed callback the object behaves differently from one that never saw it",
                                 faulted=o, twin=t))
                break
    return out, hits, tags


def nontrivial(case, out):
    return "err" in out


def shrink(case, fails):
    return c04.shrink(case, fails)
