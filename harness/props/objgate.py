"""`og:` stream of C04: the object-level gates of real TraitListObject / TraitDictObject / TraitSetObject
values (item / key / value validators, the list length check, delivery of the <name>_items event) in each
situation the model distinguishes — value of a live owner, replaced on the owner, owner collected, deep copy,
pickle round trip, and compositions — with and without items event (`items=False`), with an inner trait that
validates (Range(low=0)) or not (Any: its `validate` is None).  Compared line by line with
Model/ContainerObject.lean through Driver/ObjGate.lean (exhaustive: the space is small).

  og:<list|dict|set>|<items 0/1>|<inner rej|any>|<state[,state…]>
"""
import copy
import gc
import pickle

from . import seqlib as S

STATES = [["live"], ["detached"], ["orphaned"], ["deepcopy"], ["pickle"], ["deepcopy", "deepcopy"],
          ["pickle", "deepcopy"], ["deepcopy", "pickle"], ["detached", "orphaned"], ["detached", "deepcopy"]]

_cls = {}


def cases():
    for kind in ("list", "dict", "set"):
        for items in (1, 0):
            for inner in ("rej", "any"):
                for st in STATES:
                    yield "og:%s|%d|%s|%s" % (kind, items, inner, ",".join(st))


def _class(kind, items, inner):
    key = (kind, items, inner)
    if key not in _cls:
        from traits.api import HasTraits, List, Dict, Set, Range, Any
        mk = (lambda: Range(low=0)) if inner == "rej" else (lambda: Any())
        if kind == "list":
            t = List(mk(), minlen=1, maxlen=3, items=bool(items))
        elif kind == "dict":
            t = Dict(mk(), mk(), items=bool(items))
        else:
            t = Set(mk(), items=bool(items))
        _cls[key] = type("OG", (HasTraits,), {"x": t})
    return _cls[key]


def _res(f, *a):
    try:
        r = f(*a)
    except Exception as e:
        return "err:" + S.exc_name(e)
    return "ok" if r is None else "ok:%s" % (r,)


def run(case):
    kind, items, inner, states = case.split("|")
    kind = kind[3:]
    tags = {"og:" + kind, "og-items:" + items, "og-inner:" + inner} | {"og-state:" + s for s in states.split(",")}
    cls = _class(kind, int(items), inner)
    init = {"list": [1, 2], "dict": {1: 1}, "set": {1}}[kind]
    obj = cls(x=copy.copy(init))
    got = []
    obj.on_trait_change(lambda o, n, old, new: got.append(new), "x_items")
    c = obj.x
    for s in states.split(","):
        if s == "detached":
            obj.x = copy.copy(init)
        elif s == "orphaned":
            obj = None
            gc.collect()
        elif s == "deepcopy":
            c = copy.deepcopy(c)
        elif s == "pickle":
            c = pickle.loads(pickle.dumps(c))
    out = []
    if kind == "list":
        out += ["v(-1)=" + _res(c._item_validator, -1), "v(5)=" + _res(c._item_validator, 5),
                "len(9)=" + _res(c._validate_length, 9), "len(2)=" + _res(c._validate_length, 2)]
        args, attrs = (7, [101], [102]), ("index", "removed", "added")
    elif kind == "dict":
        out += ["v(-1)=" + _res(c._value_validator, -1), "v(5)=" + _res(c._value_validator, 5),
                "k(-1)=" + _res(c._key_validator, -1), "k(5)=" + _res(c._key_validator, 5)]
        args, attrs = ({1: 1}, {2: 2}, {3: 3}), ("removed", "added", "changed")
    else:
        out += ["v(-1)=" + _res(c._validator, -1), "v(5)=" + _res(c._validator, 5)]
        args, attrs = ({1}, {2}), ("removed", "added")
    del got[:]
    try:
        c.notifier(c, *args)
        if not got:
            sent = "silent"
        else:
            parts = []
            for ev in got:
                fields = []
                for a in attrs:
                    v = getattr(ev, a)
                    ix = [i + 1 for i, x in enumerate(args) if x is v or (type(x) is int and x == v)]
                    fields.append("%s=%s" % (a, ix[0] if ix else "?"))
                parts.append("%s(%s)" % (type(ev).__name__, ",".join(fields)))
            sent = "+".join(parts)
    except Exception as e:
        sent = "err:" + S.exc_name(e)
    out.append("notify=" + sent)
    return " ".join(out), [], tags
