"""C11 — deferred traits mirror their target: delegation and prototyping (cluster `deleg`)."""
import os
import subprocess
import sys

from . import deleglib as D

PROPERTY = "C11"
DRIVER = "TraitsVerif/Driver/Deleg.lean"
PROPS_MODULES = ["TraitsVerif.Props.C11"]
TRANSLATORS = []
DISTINCT_BY_OUTPUT = False
RULE = ("real HasTraits classes for the four prefix styles (same name, explicit name, 'p_*', '*' with __prefix__) x "
        "DelegatesTo / PrototypedFrom, chains of length <= 3 (incl. DelegatesTo through PrototypedFrom and the "
        "reverse, renaming at every level, '*' chains with equal / different class prefixes) and malformed shapes "
        "(missing target, '*' without / with empty __prefix__); seeded random histories of 1-12 operations after a "
        "bottom-up / top-down / partial / absent wiring of the chain: assign through any object and attribute "
        "(valid, rejected, k-th-operation-fails validators), delete, re-point the delegate (object or None), read; "
        "after every operation the values read through every object, the handler events on every attribute "
        "(on_trait_change and observe), the swallowed handler exceptions and the __listener_traits__ / hooked "
        "object of every forwarder are compared with the Lean model; a case is non-trivial when some operation "
        "changed a value, raised or produced an event; distinct = distinct case line")
TRUSTED = [
    "traits_listener.py (ListenerParser/ListenerItem, 1300 lines) is abstracted to: a forwarder of (o, n) is hooked "
    "on at most one object, re-hooked by every change of o.d, and hooking on X succeeds iff X.base_trait(target) "
    "resolves; the abstraction is tied to the code by comparing ListenerItem.active after every operation",
    "validators are parameters (validator number, operation index, value); the driver instantiates id / mod7 / "
    "rejneg / failat",
    "values are small ints (identity == equality, so the identity test of setattr_trait and the equality test of "
    "_change_accepted coincide)",
]
ASSUMPTIONS = [
    "every declared attribute of every object carries an on_trait_change and an observe handler (so the notifier "
    "branches of setattr_trait are always taken)",
    "the delegate graph stays acyclic (reading through a cycle crashes the interpreter: finding N5, probed in a "
    "subprocess only); operations that would close a cycle are skipped on both sides",
    "attribute names are identifiers (no ':' '*' '.', not ending in '_'); one delegate reference attribute `d` per class",
    "objects are kept alive for the whole history (weak references of the listener machinery never die)",
]
EXHAUSTIVE = {"quick": False, "thorough": False}


def corpus():
    S = D.SHAPES
    mk = lambda shape, vals, ops: "dg|%s|%s|%s|%s" % (S[shape][0], S[shape][1], vals, ops)
    return [
        # F5 (fixed): wildcard styles notify
        mk("pre-D", "id,id", "sw 0 2;st 2 p_x 5;st 2 x 6;st 0 x 7"),
        mk("star-D", "id,id", "sw 0 2;st 2 q_x 5;st 2 x 6;st 0 x 7;st 0 y 1;st 2 q_y 2;dl 0 y;st 2 q_y 3"),
        mk("star-nopfx", "id,id", "sw 0 1;st 1 x 5;st 0 x 6"),
        # N2: chain hooked top-down through a None delegate
        mk("same-D", "id,id", "sw 0 1;sw 1 2;st 2 x 5"),
        # N3: '*' chain, different class prefixes: write and read name different attributes
        mk("star2-diff", "id,id", "sw 1 2;sw 0 1;st 0 x 5;rd 0 x"),
        # N4: DelegatesTo through a broken PrototypedFrom link
        mk("D-P-T", "id,id", "sw 1 2;sw 0 1;st 1 x 7;st 0 x 9;rd 0 x"),
        # prototype life cycle
        mk("same-P", "rejneg,id", "sw 1 2;sw 0 1;st 2 x 4;st 0 x -1;st 0 x 6;st 2 x 5;dl 0 x;st 2 x 8;sw 0 3;st 3 x 9"),
    ]


def generate(rng, tier):
    if tier == "quick":
        n_main, n_chain, n_odd = 250, 120, 40
    elif tier == "thorough":
        n_main, n_chain, n_odd = 6250, 3000, 1000
    else:
        n_main, n_chain, n_odd = 2500, 1500, 300
    for shape in D.MAIN_SHAPES:
        for _ in range(n_main):
            yield D.random_history(rng, shape)
    for shape in D.CHAIN_SHAPES:
        for _ in range(n_chain):
            yield D.random_history(rng, shape)
    for shape in D.ODD_SHAPES:
        for _ in range(n_odd):
            yield D.random_history(rng, shape)


def nontrivial(case, out):
    return (" E[]" not in out.replace(" E[] ", " E[] ", 1)) or ("err" in out) or any(
        p.split(" S[")[1] != q.split(" S[")[1] for p, q in zip(out.split(" ; "), out.split(" ; ")[1:])
        if " S[" in p and " S[" in q)


def _hit(sig, what, **kw):
    d = {"signature": sig, "what": what}
    d.update(kw)
    return d


# --------------------------------------------------------------------------------------------
# the ORACLE: the property statement, evaluated on what the real code did.  It never looks at the
# model; it uses the documented naming rules (deleglib.doc_target), its own record of which
# prototype links were broken by the history, and the observations.
# --------------------------------------------------------------------------------------------

class Oracle:
    def __init__(self, world):
        self.w = world
        self.local = {}          # (o, n) -> validated value assigned locally (prototype link broken)
        self.hits = []

    def style(self, o, n):
        a = self.w.spec(o).by_name[n]
        return {"": "same", }.get(a.raw, "star" if a.raw == "*" else "prefix" if a.raw.endswith("*") else "explicit")

    def deferring(self):
        for o in range(len(self.w.objs)):
            for a in self.w.spec(o).attrs:
                if a.kind in ("D", "P"):
                    yield o, a

    def target(self, o, a):
        """(delegate object id | None, documented target name)."""
        return self.w.delegate_of(o), D.doc_target(a, a.name, self.w.spec(o))

    def base(self, o, n, depth=0):
        """Documented resolution of the chain below (o, n): the object/attribute that finally holds the value
        and validates.  None when the chain is incomplete."""
        if depth > 8:
            return None
        a = self.w.spec(o).by_name.get(n)
        if a is None:
            return None
        if a.kind == "T":
            return (o, n, a)
        x, t = self.target(o, a)
        if x is None:
            return None
        return self.base(x, t, depth + 1)

    def chain_sig(self, o, a):
        """(kinds, styles): signature components describing the configuration class of a deferring attribute.
        Two configuration classes get a name of their own (they are where the known defects live):
        '*' at a deeper level of a chain whose class prefix differs from the top object's, and DelegatesTo
        through a PrototypedFrom."""
        kinds, styles, mismatch = self._chain_sig(o, a)
        if mismatch:
            return "star-chain-prefix-mismatch", kinds.split("-")[0]
        if a.kind == "D" and "P" in kinds.split("-")[1:]:
            return "through-prototype", styles
        return kinds, styles

    def _chain_sig(self, o, a):
        x, t = self.target(o, a)
        kinds = [a.kind]
        styles = [self.style(o, a.name)]
        mismatch = False
        top = self.w.spec(o).pfx or ""
        cur, name, steps = x, t, 0
        while cur is not None and steps < 6:
            b = self.w.spec(cur).by_name.get(name)
            if b is None:
                kinds.append("?")
                break
            kinds.append(b.kind)
            if b.kind == "T":
                break
            styles.append(self.style(cur, name))
            if self.style(cur, name) == "star" and (self.w.spec(cur).pfx or "") != top:
                mismatch = True
            cur, name = self.target(cur, b)
            steps += 1
        return "-".join(kinds), "+".join(sorted(set(styles))), mismatch

    # ------------------------------------------------------------------ after every operation
    def check(self, op, exc, before, after, events, oevents, nexc):
        w, hits = self.w, self.hits
        k = op[0]
        if sorted(events, key=str) != sorted(oevents, key=str):
            hits.append(_hit("observe-differs-from-on-trait-change", "observe and on_trait_change handlers saw "
                             "different events", otc=D.show_events(events), observe=D.show_events(oevents)))
        # -- a failing operation changes nothing and notifies nobody
        if exc is not None and k in ("st", "dl"):
            if before != after:
                hits.append(_hit("failed-op-changed-state:" + k, "failing %s changed a visible value" % k,
                                 op=op, before=str(before), after=str(after)))
            if events:
                hits.append(_hit("failed-op-notified:" + k, "failing %s notified" % k, events=D.show_events(events)))
        # -- bookkeeping of broken prototype links, and the write clauses
        if k == "st" and exc is None:
            self.check_write(op, before, after)
        if k == "dl" and exc is None:
            o, n = op[1], op[2]
            a = w.spec(o).by_name.get(n)
            if a is not None and a.kind == "P":
                self.local.pop((o, n), None)
        # -- anchored state: local value present iff the prototype link is broken
        for o, a in self.deferring():
            has_local = w.local(o, a.name)
            if a.kind == "D" and has_local:
                hits.append(_hit("delegates-to-has-local-value", "a DelegatesTo attribute holds a local value",
                                 obj=o, name=a.name))
            if a.kind == "P" and has_local != ((o, a.name) in self.local):
                hits.append(_hit("prototype-link-state", "local value present != link broken by the history",
                                 obj=o, name=a.name, local=has_local))
        # -- read-through coherence (every state)
        for o, a in self.deferring():
            kinds, styles = self.chain_sig(o, a)
            if "?" in kinds:
                continue   # the target is not a declared trait of the delegate: outside the statement
            x, t = self.target(o, a)
            mine = after[(o, a.name)]
            if a.kind == "P" and (o, a.name) in self.local:
                if mine != self.local[(o, a.name)]:
                    hits.append(_hit("prototype-not-independent:%s:%s" % (kinds, styles),
                                     "a locally assigned prototyped attribute changed value without being assigned",
                                     obj=o, name=a.name, expected=self.local[(o, a.name)], observed=mine))
                continue
            if x is None:
                continue   # no current delegate: the statement says nothing
            theirs = after.get((x, t))
            if theirs is None:     # target not declared on the delegate's class: read it directly
                try:
                    theirs = w.read(x, t)
                except Exception as e:
                    theirs = D.exc_short(e)
            if mine != theirs:
                hits.append(_hit("read-through-differs:%s:%s" % (kinds, styles),
                                 "deferring attribute does not read as the target on the current delegate",
                                 obj=o, name=a.name, delegate=x, target=t, mine=mine, theirs=theirs))
        # -- notification: linked -> every change event of the target on the current delegate reaches the
        #    handlers of the deferring attribute exactly once with the same new value; unlinked -> never
        for o, a in self.deferring():
            x, t = self.target(o, a)
            if x is None:
                continue
            if k in ("st", "dl") and op[1] == o and op[2] == a.name and a.kind == "P":
                continue     # the operation assigns / deletes this very attribute: its own event
            if k == "sw" and op[1] == o:
                continue     # the delegate of o was just re-pointed: no "change of the target" happened
            kinds, styles = self.chain_sig(o, a)
            if "?" in kinds:
                continue
            src = [e for e in events if e[0] == x and e[1] == t]
            got = [e for e in events if e[0] == o and e[1] == a.name]
            linked = not (a.kind == "P" and (o, a.name) in self.local)
            if (x, t) not in before:
                continue     # undeclared target: not a trait, never notifies
            if linked:
                if sorted((e[2], e[3]) for e in src) != sorted((e[2], e[3]) for e in got):
                    wild = self.style(o, a.name) in ("prefix", "star")
                    hooked = w.forwarders(o).get(a.name, "absent")
                    if not got and src and hooked != x:
                        sig = "delegate-no-notify:forwarder-%s" % ("absent" if hooked == "absent" else "unhooked")
                    elif not got and src and wild:
                        sig = "delegate-no-notify:wildcard-prefix"
                    elif not got and src:
                        sig = "delegate-no-notify:%s:%s" % (kinds, styles)
                    else:
                        sig = "delegate-notify-differs:%s:%s" % (kinds, styles)
                    hits.append(_hit(sig, "linked deferring attribute: handler events differ from the change "
                                     "events of the target on the current delegate", obj=o, name=a.name, delegate=x,
                                     target=t, target_events=D.show_events(src), own_events=D.show_events(got)))
            elif got:
                hits.append(_hit("unlinked-prototype-notified:%s:%s" % (kinds, styles),
                                 "a prototyped attribute with a local value was notified of a change on the prototype",
                                 obj=o, name=a.name, own_events=D.show_events(got)))

    def check_write(self, op, before, after):
        w, hits = self.w, self.hits
        _, o, n, v = op
        a = w.spec(o).by_name.get(n)
        if a is None or a.kind == "T":
            return
        kinds, styles = self.chain_sig(o, a)
        x, t = self.target(o, a)
        base = self.base(o, n)
        if "?" in kinds:
            if a.kind == "P":
                self.local[(o, n)] = after[(o, n)]
            return         # the target is not a declared trait of the delegate: outside the statement
        if base is None:
            hits.append(_hit("write-succeeded-without-target:%s:%s" % (kinds, styles),
                             "assignment through a deferring attribute succeeded although the documented chain "
                             "does not end in a typed attribute", obj=o, name=n))
            return
        bo, bn, ba = base
        try:
            expected = w.env.pure(ba.vid, w.env.op_index, v)
        except Exception:
            hits.append(_hit("invalid-value-accepted:%s:%s" % (kinds, styles),
                             "the target's validator rejects the value but the assignment succeeded",
                             obj=o, name=n, value=v))
            return
        changed = sorted(c for c in after if after[c] != before.get(c))
        if a.kind == "D":
            # validates against and stores into the delegate only
            if w.local(o, n):
                hits.append(_hit("delegates-write-stored-locally:%s:%s" % (kinds, styles),
                                 "DelegatesTo assignment stored a value on the deferring object", obj=o, name=n))
            theirs = after.get((x, t))
            if theirs != expected:
                hits.append(_hit("delegates-write-misses-delegate:%s:%s" % (kinds, styles),
                                 "after o.n = v the target attribute on the delegate does not hold the validated value",
                                 obj=o, name=n, delegate=x, target=t, expected=expected, observed=theirs))
            stray = [c for c in changed if after[c] != expected]
            if stray:
                hits.append(_hit("delegates-write-stray-change:%s:%s" % (kinds, styles),
                                 "assignment changed a value that does not mirror the target", cells=str(stray)))
        else:
            # assigned locally, validated by the prototype's trait; the prototype is untouched
            self.local[(o, n)] = expected
            if after[(o, n)] != expected:
                hits.append(_hit("prototype-write-wrong-value:%s:%s" % (kinds, styles),
                                 "after o.n = v the prototyped attribute does not hold the value validated by the "
                                 "prototype's trait", obj=o, name=n, expected=expected, observed=after[(o, n)]))
            if x is not None and (x, t) in before and after[(x, t)] != before[(x, t)]:
                hits.append(_hit("prototype-write-changed-prototype:%s:%s" % (kinds, styles),
                                 "assigning a prototyped attribute changed the prototype", obj=o, name=n))
            stray = [c for c in changed if after[c] != expected]
            if stray:
                hits.append(_hit("prototype-write-stray-change:%s:%s" % (kinds, styles),
                                 "assignment changed a value that does not mirror the assigned attribute",
                                 cells=str(stray)))


def run_impl(case):
    from traits.trait_notifiers import push_exception_handler, pop_exception_handler
    try:
        classes, objects, validators, ops = D.parse_case(case)
    except Exception:
        return "bad-case", [], ["bad-case"]
    tags = set()
    excs = []
    push_exception_handler(lambda o, n, old, new: excs.append(sys.exc_info()[0]), reraise_exceptions=False,
                           main=True, locked=False)
    try:
        try:
            w = D.World(classes, objects, validators)
        except Exception as e:
            hits = []
            if any(a.raw == "*" and c.pfx is None for c in classes for a in c.attrs if a.kind != "T"):
                hits.append(_hit("delegate-star-no-class-prefix:init-raises",
                                 "a class using prefix='*' without __prefix__ cannot be instantiated (%s)"
                                 % D.exc_name(e)))
            else:
                hits.append(_hit("construction-raises", "HasTraits() raised %s" % D.exc_name(e)))
            return "init-err " + D.exc_name(e), hits, ["init-err"]
        orc = Oracle(w)
        deleg = {}
        outs = []
        before = w.snapshot()
        for idx, op in enumerate(ops):
            k = op[0]
            tags.add(k)
            w.env.op_index = idx
            if op[1] >= len(w.objs) or (k == "sw" and op[2] is not None and op[2] >= len(w.objs)):
                return "bad-case", [], ["bad-case"]
            if k == "sw" and op[2] is not None and D.would_cycle(deleg, op[1], op[2]):
                outs.append("skip")
                tags.add("skip-cycle")
                continue
            del w.events[:], w.oevents[:], excs[:]
            exc, res = None, "ok"
            try:
                if k == "st":
                    setattr(w.objs[op[1]], op[2], op[3])
                elif k == "dl":
                    delattr(w.objs[op[1]], op[2])
                elif k == "sw":
                    w.objs[op[1]].d = None if op[2] is None else w.objs[op[2]]
                    deleg[op[1]] = op[2]
                else:
                    res = "ok %s" % (w.read(op[1], op[2]),)
            except Exception as e:
                exc = e
                res = "err " + D.exc_name(e)
                tags.add("%s-err:%s" % (k, D.exc_name(e)))
            events, oevents, nexc = list(w.events), list(w.oevents), len(excs)
            after = w.snapshot()
            if nexc:
                tags.add("hook-exception")
            if events:
                tags.add("events:%d" % min(len(events), 4))
            a = w.spec(op[1]).by_name.get(op[2]) if k != "sw" else None
            if a is not None:
                tags.add("%s-%s" % (k, a.kind))
            orc.check(op, exc, before, after, events, oevents, nexc)
            outs.append("%s E[%s] X%d S[%s] F[%s]" % (res, D.show_events(events), nexc, D.show_snapshot(w, after),
                                                      D.show_forwarders(w)))
            before = after
        seen = set()
        hits = []
        for h in orc.hits:
            if h["signature"] not in seen:
                seen.add(h["signature"])
                hits.append(h)
        return " ; ".join(outs), hits, tags
    finally:
        pop_exception_handler()


# --------------------------------------------------------------------------------------------
# crash-prone probes (subprocess): reading through a cyclic delegate graph
# --------------------------------------------------------------------------------------------

_CYCLE_PROBE = r"""
import sys
sys.path.insert(0, %r)
from traits.api import HasTraits, Instance, DelegatesTo, TraitError
class O(HasTraits):
    d = Instance(HasTraits)
    x = DelegatesTo('d')
a = O(); b = O()
a.d = b
b.__dict__['d'] = a          # close the cycle without triggering the listener hooks
try:
    a.x = 1
    print('set: no error')
except TraitError as e:
    print('set: TraitError')
sys.stdout.flush()
try:
    a.x
    print('get: no error')
except (TraitError, RecursionError, AttributeError) as e:
    print('get: ' + type(e).__name__)
"""


def extra_checks(ctx):
    hits = []
    p = subprocess.run([sys.executable, "-c", _CYCLE_PROBE % ctx["scratch"]], capture_output=True, text=True,
                       timeout=120)
    out = p.stdout
    if "set: TraitError" not in out:
        hits.append(_hit("delegate-cycle-set:no-recursion-error", "assignment through a cyclic delegate graph did not "
                         "raise DelegationError", stdout=out[-300:], rc=p.returncode, no_shrink=True, case=None))
    if p.returncode != 0 or "get: " not in out or "get: no error" in out:
        hits.append(_hit("delegate-cycle-read:crash", "reading a deferring attribute through a cyclic delegate graph "
                         "killed the interpreter (rc=%s)" % p.returncode, stdout=out[-300:], no_shrink=True,
                         case=None))
    return hits
