"""C11 — deferred traits mirror their target: delegation and prototyping (cluster `deleg`)."""
import subprocess
import sys

from . import deleglib as D

PROPERTY = "C11"
DRIVER = "TraitsVerif/Driver/Deleg.lean"
PROPS_MODULES = ["TraitsVerif.Props.C11"]
TRANSLATORS = ["delegsrc"]
DISTINCT_BY_OUTPUT = False
RULE = ("real HasTraits classes for the four prefix styles (same name, explicit name, 'p_*', '*' with __prefix__) x "
        "DelegatesTo / PrototypedFrom, chains of length <= 3 (incl. DelegatesTo through PrototypedFrom and the "
        "reverse, renaming at every level, '*' chains with equal / different class prefixes), SUBCLASSES of the "
        "deferring class (inheriting __prefix__ without restating it, restating it, overriding it, overriding an "
        "attribute; target traits with comparison mode none / identity / equality and a value pool with equal-but-"
        "distinct objects (1 == 1.0 == True, equal tuples / lists, floats equal to the int defaults; values are "
        "object identities, `==` is a parameter of the model); RE-DECLARING an inherited deferring attribute under the same name with another prefix / style / "
        "kind; instances of base and subclasses side by side, sharing the target objects) and malformed shapes "
        "(missing target, '*' without / with empty __prefix__); seeded random histories of 1-12 operations after a "
        "bottom-up / top-down / partial / absent wiring of the chain: assign through any object and attribute "
        "(valid, rejected, k-th-operation-fails validators), delete, re-point the delegate (object or None), read; "
        "after every operation the values read through every object, the handler events on every attribute "
        "(on_trait_change and observe; a crc32-selected half of the cases on classes whose instances are falsy: "
        "__bool__ -> False or __len__ -> 0), the swallowed handler exceptions and the __listener_traits__ / hooked "
        "object of every forwarder are compared with the Lean model; corpus: the witness histories of the Lean "
        "refutations (F18-F20), the `del`-raises-after-deleting branches, chains of 99 / 100 / 101 levels (the "
        "100-step recursion limit); quick: 2000 histories for each of the 8 style x kind shapes + 500 for each of 8 "
        "chain shapes, 5 subclass shapes and 3 comparison-mode shapes + 150 for each of 3 malformed shapes and the one-character wildcard prefix 'p*', thorough: 6250 / 3000 / 1000; + 150 'rejected write, then the prototype changes' histories (custom / k-th-op-fails / real Range validators) and 75 'original value' histories (target traits that store the assigned object while validate returns another one, every assigned value fresh) for each of the prototype shapes; COPY operations inside the random histories (`cp A p`: pickle round trip of the whole pool, `cp <o> c`: copy.copy of one object that nobody defers to; the history continues on the copies, which get the same handlers; validators accept stored values during the restore); a case is non-trivial when "
        "some operation changed a value or the forwarder table, raised, or produced an event; distinct = distinct "
        "case line")
TRUSTED = [
    "traits_listener.py (ListenerParser/ListenerItem, 1300 lines) is abstracted to: a forwarder of (o, n) is hooked "
    "on at most one object, re-hooked by every change of o.d, and hooking on an object always succeeds (since fix "
    "bead785 a DelegationError of base_trait is caught); the abstraction is tied to the code by comparing "
    "ListenerItem.active and the number of swallowed handler exceptions after every operation",
    "validators are parameters (validator number, operation index, value); the driver instantiates id / mod7 / "
    "rejneg / failat",
    "values are object identities (small interned ints, plus a pool of fixed equal-but-distinct objects); "
    "Python's == on the pool is a table given to the model as the parameter Env.eqv",
]
ASSUMPTIONS = [
    "every declared attribute of every object carries an on_trait_change and an observe handler (so the notifier "
    "branches of setattr_trait are always taken)",
    "every declared typed attribute has been read (the snapshot after every operation does), so its default is "
    "materialised in __dict__: `del` of a never-assigned attribute with comparison mode none reports (default, default)",
    "the delegate graph stays acyclic (reading through a cycle raises RecursionError since fix ec4908f of finding "
    "F21 — before, it killed the interpreter — and is probed in a subprocess); operations that would close a "
    "cycle are skipped on both sides",
    "copies: pickle round trip of the pool, copy.copy of one object nobody defers to (__setstate__ route), and "
    "copy.deepcopy of the pool (`cp A d`; __deepcopy__ = clone_traits, the route of clone_traits() too), whose "
    "copy_traits ASSIGNS every deferring attribute of the clone — modelled as the code does it (Pool.cloneAll), "
    "reported as known findings clone-localises-linked-prototype / clone-drops-local-value / clone-changes-values",
    "attribute names are identifiers (no ':' '*' '.', not ending in '_'); one delegate reference attribute `d` per class",
    "objects are kept alive for the whole history (weak references of the listener machinery never die)",
]
EXHAUSTIVE = {"quick": False, "thorough": False}


def corpus():
    S = D.SHAPES
    mk = lambda shape, vals, ops: "dg|%s|%s|%s|%s" % (S[shape][0], S[shape][1], vals, ops)
    return [
        # copies: pickle round trip keeps link states (Lean: C11_copy); deep copy localises linked prototypes
        # (known finding clone-localises-linked-prototype, Lean: C11_clone_localises), drops a local value whose
        # delegate is None (clone-drops-local-value); pickle of that state raises (F114)
        mk("same-P", "id,id", "sw 1 2;sw 0 1;st 0 x 9;cp A p;st 2 x 5;dl 0 x;st 2 x 6"),
        mk("same-P", "id,id", "sw 1 2;sw 0 1;cp A d;st 2 x 5;rd 0 x;dl 0 x;st 2 x 6"),
        mk("expl-P", "id,id", "sw 0 2;st 0 x 9;sw 0 N;cp A d;rd 0 x"),
        mk("expl-P", "id,id", "sw 0 2;st 0 x 9;sw 0 N;cp A p;cp 0 c;rd 0 x"),
        mk("D-P-T", "id,id", "sw 1 2;sw 0 1;st 1 x 7;cp A d;rd 2 x"),
        # F5 (fixed): wildcard styles notify
        mk("pre-D", "id,id", "sw 0 2;st 2 p_x 5;st 2 x 6;st 0 x 7"),
        mk("star-D", "id,id", "sw 0 2;st 2 q_x 5;st 2 x 6;st 0 x 7;st 0 y 1;st 2 q_y 2;dl 0 y;st 2 q_y 3"),
        mk("star-nopfx", "id,id", "sw 0 1;st 1 x 5;st 0 x 6"),
        # F18 (fixed, regression case): chain hooked top-down through a None delegate (Lean: C11_notify_top_down)
        mk("same-D", "id,id", "sw 0 1;sw 1 2;st 2 x 5"),
        # F19: '*' chain, different class prefixes: write and read name different attributes (Lean: Witness.starPool)
        mk("star2-diff", "id,id", "sw 1 2;sw 0 1;st 0 x 5;rd 0 x"),
        # F20: DelegatesTo through a broken PrototypedFrom link (Lean: Witness.protoPool)
        mk("D-P-T", "id,id", "sw 1 2;sw 0 1;st 1 x 7;st 0 x 9;rd 0 x"),
        # `del` of a prototyped value raising after it deleted: the read-back fails (Lean: Witness.brokenDel);
        # second case: before fix bead785 the listener re-hook failed, now the `del` succeeds
        mk("star2-deep", "id,id", "sw 2 3;sw 1 2;sw 0 1;st 0 x 5;sw 2 N;dl 0 x;rd 0 x"),
        mk("star2-deep", "id,id", "sw 2 3;sw 1 2;sw 0 1;st 1 a_x 6;st 0 x 5;sw 2 N;dl 0 x;rd 0 x;dl 0 x"),
        # '*' through a subclass that inherits __prefix__ / restates it / overrides it
        mk("star-sub", "id,id", "sw 0 5;sw 1 5;sw 2 5;sw 4 5;st 5 q_x 9;st 5 x 2;st 0 x 6;st 0 y 1;st 2 x 4;dl 0 y;st 5 q_y 0"),
        # a subclass re-declares inherited deferring attributes with another prefix / kind: changes of the OLD
        # (base class's) targets and of the NEW targets, seen from a base instance (0) and subclass instances (1, 2)
        mk("redeclare", "id,id", "sw 0 4;sw 1 4;sw 2 4;sw 3 4;st 4 x 6;st 4 val 7;st 4 p_z 1;st 4 z 2;st 4 p_y 3;"
                                 "st 4 q_x 4;st 4 other 5;st 4 p_x 8;st 1 x 9;st 1 z 0;dl 1 z;st 2 z 6"),
        # comparison modes identity / none / equality of the target and equal-but-distinct values (1, 1.0=100,
        # True=101, 3.0=104): on the delegate, through the deferring attribute, first local prototype assignment
        mk("cmp-D", "id,id", "sw 0 2;st 2 a 100;st 2 a 101;st 2 a 101;st 2 b 104;st 2 b 104;st 2 c 104;st 2 c 100;"
                             "st 0 a 1;st 0 b 104;st 0 c 101;st 0 pa 100;st 0 pa 100"),
        mk("cmp-P", "id,id", "sw 0 2;st 0 a 104;st 0 b 105;st 0 c 104;dl 0 a;st 2 a 104;st 0 a 104;st 0 dc 104"),
        # prototype life cycle
        mk("same-P", "rejneg,id", "sw 1 2;sw 0 1;st 2 x 4;st 0 x -1;st 0 x 6;st 2 x 5;dl 0 x;st 2 x 8;sw 0 3;st 3 x 9"),
        # the 100-step recursion limit of setattr_delegate / base_trait: chains of 99, 100, 101 deferring levels
        deep_case(99, "D"), deep_case(100, "D"), deep_case(101, "D"), deep_case(100, "P"), deep_case(101, "P"),
    ]


def deep_case(n, kind):
    """n objects deferring `x` to the next one, the last to a typed attribute; wired bottom-up."""
    ops = ["sw %d %d" % (i, i + 1) for i in reversed(range(n))]
    ops += ["st 0 x 5", "rd 0 x", "st %d x 6" % n, "dl 0 x", "st 1 x 7", "rd 0 x"]
    return "dg|-,x=%s:/-,x=T:0:3|%s|id|%s" % (kind, ",".join(["0"] * n + ["1"]), ";".join(ops))


def generate(rng, tier):
    if tier == "quick":
        n_main, n_chain, n_odd = 2000, 500, 150
    elif tier == "thorough":
        n_main, n_chain, n_odd = 6250, 3000, 1000
    else:
        n_main, n_chain, n_odd = 2500, 1500, 300
    for shape in D.MAIN_SHAPES:
        for _ in range(n_main):
            yield D.random_history(rng, shape)
    for shape in D.CHAIN_SHAPES:
        for _ in range(n_chain):
            yield D.random_history(rng, shape)
    for shape in D.ODD_SHAPES:
        for _ in range(n_odd):
            yield D.random_history(rng, shape)
    for shape in D.SUB_SHAPES + D.CMP_SHAPES:
        for _ in range(n_chain):
            yield D.random_history(rng, shape)
    for shape in D.P_SHAPES:
        for _ in range(n_odd):
            yield D.rejected_history(rng, shape)
    for shape in D.P_SHAPES:
        if shape not in D.CMP_SHAPES:
            for _ in range(n_odd // 2):
                yield D.original_value_history(rng, shape)


def nontrivial(case, out):
    """Some operation raised, notified somebody, or changed a visible value / the forwarder table."""
    parts = [p for p in out.split(" ; ") if " S[" in p]
    if any(p.startswith("err") or " E[] " not in p or " X0 " not in p for p in parts):
        return True
    states = [p.split(" S[", 1)[1] for p in parts]
    return any(a != b for a, b in zip(states, states[1:]))


def _refused(w, orc, o, a, value):
    """Would the trait at the end of the chain below (o, a) — a real Int / Range trait — reject `value`?"""
    levels, end = orc.chain(o, a)
    if end[0] != "T" or not isinstance(value, int):
        return False
    spec = w.env.specs[end[2].vid] if end[2].vid < len(w.env.specs) else ["id"]
    if spec[0] != "range":
        return False
    return not (int(spec[1]) <= value <= int(spec[2]))


def _hit(sig, what, **kw):
    d = {"signature": sig, "what": what}
    d.update(kw)
    return d


# --------------------------------------------------------------------------------------------
# the ORACLE: the property statement, evaluated on what the real code did.  It never looks at the
# model; it uses the documented naming rules (deleglib.doc_target), its own record of which
# prototype links were broken by the history, and the observations.
# --------------------------------------------------------------------------------------------

class Oracle:
    LIMIT = 100      # documented recursion limit of delegation (DelegationError beyond it)

    def __init__(self, world):
        self.w = world
        self.local = {}          # (o, n) -> value a prototyped attribute was assigned locally (link broken)
        self.hits = []

    def style(self, a):
        return "same" if a.raw == "" else "star" if a.raw == "*" else "prefix" if a.raw.endswith("*") else "explicit"

    def deferring(self):
        for o in range(len(self.w.objs)):
            for a in self.w.spec(o).attrs:
                if a.kind in ("D", "P"):
                    yield o, a

    def target(self, o, a):
        """(current delegate object id | None, documented target name)."""
        return self.w.delegate_of(o), D.doc_target(a, a.name, self.w.spec(o))

    def chain(self, o, a):
        """The documented chain below the deferring attribute (o, a): the list of deferring levels
        [(obj, attrspec)] and how it ends: ('T', obj, attrspec) typed attribute | ('?',) target not declared |
        ('none',) a delegate is None | ('deep',) longer than the recursion limit."""
        levels = []
        cur, b = o, a
        while True:
            levels.append((cur, b))
            if len(levels) > self.LIMIT:
                return levels, ("deep",)
            x, t = self.target(cur, b)
            if x is None:
                return levels, ("none",)
            nb = self.w.spec(x).by_name.get(t)
            if nb is None:
                return levels, ("?",)
            if nb.kind == "T":
                return levels, ("T", x, nb)
            cur, b = x, nb

    def cfg(self, o, a):
        """Configuration class of a deferring attribute, used in signatures; None = outside the statement
        (target not a declared trait, or deeper than the recursion limit).  Two classes have a name of their
        own: '*' at a deeper level whose class prefix differs from the top object's, and DelegatesTo through a
        PrototypedFrom."""
        levels, end = self.chain(o, a)
        if end[0] in ("?", "deep"):
            return None
        top = self.w.spec(o).pfx or ""
        if any(self.style(b) == "star" and (self.w.spec(c).pfx or "") != top for c, b in levels[1:]):
            return "star-chain-prefix-mismatch"
        kinds = [b.kind for _, b in levels]
        if a.kind == "D" and "P" in kinds[1:]:
            return "through-prototype"
        kinds = kinds[:4] + (["+"] if len(kinds) > 4 else []) + [end[0]]
        return "%s:%s" % ("-".join(kinds), "+".join(sorted({self.style(b) for _, b in levels})))

    def hit(self, kind, cfg, what, **kw):
        if cfg == "star-chain-prefix-mismatch":
            # every symptom in this configuration class is the one defect (write and read name different attributes)
            self.hits.append(_hit("deferred-write-wrong-attribute:star-chain-prefix-mismatch",
                                  "[%s] %s" % (kind, what), **kw))
        else:
            self.hits.append(_hit(kind + (":" + cfg if cfg else ""), what, **kw))

    # ------------------------------------------------------------------ after every operation
    def check(self, op, exc, before, after, events, oevents, nexc):
        w = self.w
        k = op[0]
        opa = w.spec(op[1]).by_name.get(op[2]) if k != "sw" else None
        opcfg = self.cfg(op[1], opa) if opa is not None and opa.kind in ("D", "P") else ""
        if sorted(events, key=str) != sorted(oevents, key=str):
            self.hit("observe-differs-from-on-trait-change", "", "observe and on_trait_change handlers saw different "
                     "events", otc=D.show_events(events), observe=D.show_events(oevents))
        # -- a valid assignment through a complete chain (within the recursion limit) is not refused
        if exc is not None and k == "st" and opcfg:
            levels, end = self.chain(op[1], opa)
            if end[0] == "T":
                try:
                    w.env.pure(end[2].vid, w.env.op_index, op[3])
                    ok = True
                except Exception:
                    ok = False
                if ok:
                    self.hit("valid-write-refused", opcfg, "assignment through a deferring attribute raised %s "
                             "although the chain ends in a typed attribute whose validator accepts the value"
                             % D.exc_name(exc), obj=op[1], name=op[2], value=op[3], levels=len(levels))
        if exc is not None and k == "dl" and opcfg and self.chain(op[1], opa)[1][0] == "T":
            self.hit("valid-delete-refused", opcfg, "deletion through a deferring attribute raised %s although the "
                     "chain ends in a typed attribute" % D.exc_name(exc), obj=op[1], name=op[2])
        # -- a failing assignment / deletion changes nothing and notifies nobody
        if exc is not None and k in ("st", "dl") and opcfg is not None:
            if before != after:
                self.hit("failed-op-changed-state:" + k, opcfg, "failing %s changed a visible value" % k,
                         cells=str(sorted(c for c in after if after[c] != before.get(c))))
            if events:
                self.hit("failed-op-notified:" + k, opcfg, "failing %s notified" % k, events=D.show_events(events))
        # -- the write clauses, and the bookkeeping of broken prototype links
        if k == "st" and exc is None and opa is not None and opa.kind in ("D", "P"):
            self.check_write(op, opa, opcfg, before, after)
        # -- a local assignment of a prototyped attribute is reported to its handlers with (old, new) whenever
        #    the new value is another object than the one read before (equal or not), or the prototype's trait
        #    has comparison mode none; assigning the very same object again is silent
        if k == "st" and exc is None and opa is not None and opa.kind == "P" and opcfg:
            levels, end = self.chain(op[1], opa)
            if end[0] == "T":
                old, new = before[(op[1], op[2])], after[(op[1], op[2])]
                got = [(e[2], e[3]) for e in events if e[0] == op[1] and e[1] == op[2]]
                if end[2].cmp == "n" or old != new:
                    if got != [(old, new)]:
                        self.hit("prototype-assign-not-notified", opcfg, "local assignment of a prototyped attribute "
                                 "changed its value to another object but its handlers did not get exactly (old, new)",
                                 obj=op[1], name=op[2], old=old, new=new, mode=end[2].cmp, own_events=str(got))
                elif got:
                    self.hit("prototype-assign-spurious-event", opcfg, "assigning the very same object again notified",
                             obj=op[1], name=op[2], own_events=str(got))
        if k == "dl" and opa is not None and opa.kind == "P" and (exc is None or not w.local(op[1], op[2])):
            self.local.pop((op[1], op[2]), None)
        for o, a in self.deferring():
            cfg = self.cfg(o, a)
            if cfg is None:
                continue       # outside the statement
            n = a.name
            x, t = self.target(o, a)
            linked = not (a.kind == "P" and (o, n) in self.local)
            # -- anchored state: a local value is present iff a prototype link is broken
            has_local = w.local(o, n)
            if a.kind == "D" and has_local:
                self.hit("delegates-to-has-local-value", cfg, "a DelegatesTo attribute holds a local value",
                         obj=o, name=n)
            if a.kind == "P" and has_local == linked:
                self.hit("prototype-link-state", cfg, "local value present != link broken by the history",
                         obj=o, name=n, local=has_local)
            # -- reads
            mine = after[(o, n)]
            if not linked:
                if mine != self.local[(o, n)]:
                    self.hit("prototype-not-independent", cfg, "a locally assigned prototyped attribute changed "
                             "value without being assigned", obj=o, name=n, expected=self.local[(o, n)], observed=mine)
            elif x is not None and mine != after[(x, t)]:
                self.hit("read-through-differs", cfg, "deferring attribute does not read as the target on the "
                         "current delegate", obj=o, name=n, delegate=x, target=t, mine=mine, theirs=after[(x, t)])
            # -- notification: while linked every change event of the target on the current delegate reaches the
            #    handlers of the deferring attribute exactly once with the same values; unlinked: never
            if x is None:
                continue
            if k in ("st", "dl") and op[1] == o and op[2] == n and a.kind == "P":
                continue     # the operation assigns / deletes this very attribute: its own event
            if k == "sw" and op[1] == o:
                continue     # o.d itself was re-pointed: not a change of the target attribute
            src = sorted((e[2], e[3]) for e in events if e[0] == x and e[1] == t)
            got = sorted((e[2], e[3]) for e in events if e[0] == o and e[1] == n)
            if linked and src != got:
                hooked = w.forwarders(o).get(n, "absent")
                if not got and hooked != x:
                    kind, c = "delegate-no-notify", "forwarder-" + ("absent" if hooked == "absent" else "unhooked")
                    if cfg == "star-chain-prefix-mismatch" and hooked == "absent":
                        c = cfg      # re-linking failed because write walk and listener hook disagree
                elif not got and self.style(a) in ("prefix", "star"):
                    kind, c = "delegate-no-notify", "wildcard-prefix"
                elif not got:
                    kind, c = "delegate-no-notify", cfg
                else:
                    kind, c = "delegate-notify-differs", cfg
                self.hit(kind, c, "linked deferring attribute: its handler events differ from the change events of "
                         "the target on the current delegate", obj=o, name=n, delegate=x, target=t,
                         target_events=str(src), own_events=str(got))
            if not linked and got:
                self.hit("unlinked-prototype-notified", cfg, "a prototyped attribute holding a local value was "
                         "notified of a change on the prototype", obj=o, name=n, own_events=str(got))

    def check_write(self, op, a, cfg, before, after):
        w = self.w
        _, o, n, v = op
        if a.kind == "P":
            self.local[(o, n)] = after[(o, n)]
        if cfg is None:
            return
        x, t = self.target(o, a)
        levels, end = self.chain(o, a)
        if end[0] != "T":
            self.hit("write-succeeded-without-target", cfg, "assignment through a deferring attribute succeeded "
                     "although the chain does not end in a typed attribute", obj=o, name=n)
            return
        try:
            expected = w.env.pure(end[2].vid, w.env.op_index, v)
        except Exception:
            self.hit("invalid-value-accepted", cfg, "the target's validator rejects the value but the assignment "
                     "succeeded", obj=o, name=n, value=v)
            return
        changed = sorted(c for c in after if after[c] != before.get(c))
        stray = [c for c in changed if after[c] != expected]
        if a.kind == "D":
            # validates against and stores into the delegate only
            if w.local(o, n):
                self.hit("delegates-write-stored-locally", cfg, "DelegatesTo assignment stored a value on the "
                         "deferring object", obj=o, name=n)
            if after[(x, t)] != expected:
                self.hit("delegates-write-misses-delegate", cfg, "after o.n = v the target attribute on the delegate "
                         "does not hold the validated value", obj=o, name=n, delegate=x, target=t, expected=expected,
                         observed=after[(x, t)])
            if stray:
                self.hit("delegates-write-stray-change", cfg, "assignment changed a value that does not mirror the "
                         "target", cells=str(stray))
        else:
            # assigned locally, validated by the prototype's trait; the prototype is untouched
            if after[(o, n)] != expected:
                self.hit("prototype-write-wrong-value", cfg, "after o.n = v the prototyped attribute does not hold "
                         "the value validated by the prototype's trait", obj=o, name=n, expected=expected,
                         observed=after[(o, n)])
            if after[(x, t)] != before[(x, t)]:
                self.hit("prototype-write-changed-prototype", cfg, "assigning a prototyped attribute changed the "
                         "prototype", obj=o, name=n)
            if stray:
                self.hit("prototype-write-stray-change", cfg, "assignment changed a value that does not mirror the "
                         "assigned attribute", cells=str(stray))


def run_impl(case):
    from traits.trait_notifiers import push_exception_handler, pop_exception_handler
    try:
        classes, objects, validators, ops = D.parse_case(case)
    except Exception:
        return "bad-case", [], ["bad-case"]
    tags = set()
    excs = []
    push_exception_handler(lambda o, n, old, new: excs.append(sys.exc_info()[0]), reraise_exceptions=False,
                           main=True, locked=False)
    try:
        try:
            falsy = D.falsy_mode(case)
            if falsy:
                tags.add("falsy-objects:" + falsy)
            w = D.World(classes, objects, validators, falsy)
        except Exception as e:
            hits = []
            if any(a.raw == "*" and c.pfx is None for c in classes for a in c.attrs if a.kind != "T"):
                hits.append(_hit("delegate-star-no-class-prefix:init-raises",
                                 "a class using prefix='*' without __prefix__ cannot be instantiated (%s)"
                                 % D.exc_name(e)))
            else:
                hits.append(_hit("construction-raises", "HasTraits() raised %s" % D.exc_name(e)))
            return "init-err " + D.exc_name(e), hits, ["init-err"]
        orc = Oracle(w)
        deleg = {}
        outs = []
        before = w.snapshot()
        for idx, op in enumerate(ops):
            k = op[0]
            tags.add(k)
            w.env.op_index = idx
            if (op[1] is not None and op[1] >= len(w.objs)) or (k == "sw" and op[2] is not None and op[2] >= len(w.objs)):
                return "bad-case", [], ["bad-case"]
            if k == "cp":
                # the history continues on a copy made through __reduce_ex__ / __setstate__.  copy.copy of an
                # object that another object defers to would leave that other object on the original: skipped
                # on both sides (like a swap that would close a cycle)
                if op[1] is not None and any(t == op[1] for j, t in deleg.items() if j != op[1]):
                    outs.append("skip")
                    tags.add("skip-copy-of-a-delegate")
                    continue
                del w.events[:], w.oevents[:], excs[:]
                try:
                    w.copy_op(op[1], op[2])
                    res = "ok"
                except Exception as e:
                    res = "err " + D.exc_name(e)
                    # a saved local value of a deferring attribute is re-assigned through setattr_delegate: with
                    # an incomplete chain below it (delegate None) the state cannot be restored
                    cand = [(o_, a_) for o_ in ([op[1]] if op[1] is not None else range(len(w.objs)))
                            for a_ in w.spec(o_).attrs if a_.kind in ("D", "P") and w.local(o_, a_.name)]
                    stuck = [(o_, a_.name) for o_, a_ in cand if orc.chain(o_, a_)[1][0] in ("none", "deep")]
                    # ... and a saved local value the CURRENT prototype's (real Int / Range) trait rejects (it was
                    # stored under another delegate, or through an undeclared target) cannot be restored either
                    refused = [(o_, a_.name) for o_, a_ in cand if _refused(w, orc, o_, a_, before[(o_, a_.name)])]
                    orc.hit("copy-raises:" + ("local-value-without-delegate" if stuck else
                                              "local-value-rejected-by-prototype" if refused else op[2]), "",
                            "pickle round trip / copy.copy raised %s" % D.exc_name(e), cells=str(stuck + refused))
                del w.events[:], w.oevents[:], excs[:]          # only behaviour AFTER the copy is observed
                after = w.snapshot()
                tags.add("cp-%s" % op[2])
                if any((o_, n_) in orc.local for o_ in ([op[1]] if op[1] is not None else range(len(w.objs)))
                       for n_ in [a_.name for a_ in w.spec(o_).attrs]):
                    tags.add("branch:copy-with-broken-link")
                if op[2] == "d" and res == "ok":
                    # copy.deepcopy / clone_traits ASSIGN every deferring attribute of the clone (copy_traits):
                    # the stated exception to 'reads as the prototype's value until assigned locally'
                    localised = [(o_, a_.name) for o_ in range(len(w.objs)) for a_ in w.spec(o_).attrs
                                 if a_.kind == "P" and w.local(o_, a_.name) and (o_, a_.name) not in orc.local]
                    for c_ in localised:
                        orc.local[c_] = after[c_]
                    if localised:
                        orc.hit("clone-localises-linked-prototype", "", "after copy.deepcopy a PrototypedFrom attribute "
                                "that was linked holds a local value (the clone no longer follows its prototype)",
                                cells=str(localised))
                    # ... and an assignment that fails (delegate None) is skipped silently: the local value is lost
                    lost = [c_ for c_ in list(orc.local) if not w.local(*c_)]
                    for c_ in lost:
                        del orc.local[c_]
                    if lost:
                        orc.hit("clone-drops-local-value", "", "after copy.deepcopy a PrototypedFrom attribute that held "
                                "a local value (its delegate being None, or its current prototype's trait rejecting "
                                "the value) holds none", cells=str(lost))
                    changed = sorted(c for c in after if after[c] != before.get(c) and c not in lost)
                    if changed:
                        orc.hit("clone-changes-values:through-prototype", "", "the deep copy reads other values than "
                                "the original (the clone's DelegatesTo attributes were assigned through the chain)",
                                cells=str(changed))
                elif after != before:
                    orc.hit("copy-changes-values:" + op[2], "", "the copy reads other values than the original",
                            cells=str(sorted(c for c in after if after[c] != before.get(c))))
                outs.append("%s E[] X0 S[%s] F[%s]" % (res, D.show_snapshot(w, after), D.show_forwarders(w)))
                before = after
                continue
            if k == "sw" and op[2] is not None and D.would_cycle(deleg, op[1], op[2]):
                outs.append("skip")
                tags.add("skip-cycle")
                continue
            del w.events[:], w.oevents[:], excs[:]
            exc, res = None, "ok"
            try:
                if k == "st":
                    setattr(w.objs[op[1]], op[2], w.obj(op[3]))
                elif k == "dl":
                    delattr(w.objs[op[1]], op[2])
                elif k == "sw":
                    w.objs[op[1]].d = None if op[2] is None else w.objs[op[2]]
                    deleg[op[1]] = op[2]
                else:
                    res = "ok %s" % (w.read(op[1], op[2]),)
            except Exception as e:
                exc = e
                res = "err " + D.exc_name(e)
                tags.add("%s-err:%s" % (k, D.exc_name(e)))
            events, oevents, nexc = list(w.events), list(w.oevents), len(excs)
            after = w.snapshot()
            local_before = dict(orc.local)
            if nexc:
                tags.add("hook-exception")
            if events:
                tags.add("events:%d" % min(len(events), 4))
            a = w.spec(op[1]).by_name.get(op[2]) if k != "sw" else None
            if a is not None:
                tags.add("%s-%s" % (k, a.kind))
                if a.kind in ("D", "P"):
                    cfg = orc.cfg(op[1], a)
                    tags.add("cfg:%s" % (cfg if cfg else "outside-statement"))
                    had_local = (op[1], op[2]) in local_before
                    if exc is None and k == "st" and a.kind == "P":
                        tags.add("branch:local-set-again" if had_local else "branch:local-set-breaks-link")
                    if exc is None and k == "dl" and a.kind == "P":
                        tags.add("branch:del-relinks" if had_local else "branch:del-without-local")
                    if exc is None and k in ("st", "dl") and a.kind == "D":
                        tags.add("branch:%s-lands-on-delegate" % k)
                    if exc is not None and before != after:
                        tags.add("branch:raised-after-changing-state")
            elif k != "sw":
                tags.add("%s-undeclared" % k)
            if k == "sw":
                tags.add("sw-none" if op[2] is None else "sw-object")
            orc.check(op, exc, before, after, events, oevents, nexc)
            outs.append("%s E[%s] X%d S[%s] F[%s]" % (res, D.show_events(events), nexc, D.show_snapshot(w, after),
                                                      D.show_forwarders(w)))
            before = after
        seen = set()
        hits = []
        for h in orc.hits:
            if h["signature"] not in seen:
                seen.add(h["signature"])
                hits.append(h)
        return " ; ".join(outs), hits, tags
    finally:
        pop_exception_handler()


# --------------------------------------------------------------------------------------------
# crash-prone probes (subprocess): reading through a cyclic delegate graph
# --------------------------------------------------------------------------------------------

_CYCLE_PROBE = r"""
import sys
sys.path.insert(0, %r)
from traits.api import HasTraits, Instance, DelegatesTo, TraitError
class O(HasTraits):
    d = Instance(HasTraits)
    x = DelegatesTo('d')
a = O(); b = O()
a.d = b
b.__dict__['d'] = a          # close the cycle without triggering the listener hooks
try:
    a.x = 1
    print('set: no error')
except TraitError as e:
    print('set: TraitError')
sys.stdout.flush()
try:
    a.x
    print('get: no error')
except (TraitError, RecursionError, AttributeError) as e:
    print('get: ' + type(e).__name__)
"""


_NONSTR_PREFIX_PROBE = """
import sys
sys.path.insert(0, %r)
from traits.api import HasTraits, Instance, DelegatesTo, PrototypedFrom, Int
class T(HasTraits):
    q_x = Int(3)
    q_y = Int(4)
class A(HasTraits):
    __prefix__ = 'q_'
    d = Instance(HasTraits)
    x = DelegatesTo('d', prefix='*')
    y = PrototypedFrom('d', prefix='*')
a = A(d=T())
assert a.x == 3 and a.y == 4
A.__prefix__ = 5            # the name computation (PyUnicode_Concat) now fails
what = %r
for nm in ('x', 'y'):
    try:
        if what == 'read':
            getattr(a, nm)
        elif what == 'write':
            setattr(a, nm, 7)
        else:
            a.base_trait(nm)
        print(what + ' ' + nm + ': no error')
    except Exception as e:
        print(what + ' ' + nm + ': ' + type(e).__name__)
    sys.stdout.flush()
"""


def extra_checks(ctx):
    hits = []
    p = subprocess.run([sys.executable, "-c", _CYCLE_PROBE % ctx["scratch"]], capture_output=True, text=True,
                       timeout=120)
    out = p.stdout
    if "set: TraitError" not in out:
        hits.append(_hit("delegate-cycle-set:no-recursion-error", "assignment through a cyclic delegate graph did not "
                         "raise DelegationError", stdout=out[-300:], rc=p.returncode, no_shrink=True, case=None))
    if p.returncode != 0 or "get: " not in out or "get: no error" in out:
        hits.append(_hit("delegate-cycle-read:crash", "reading a deferring attribute through a cyclic delegate graph "
                         "killed the interpreter (rc=%s)" % p.returncode, stdout=out[-300:], no_shrink=True,
                         case=None))
    # a non-str __prefix__: the name computation of delegate_attr_name_class_name fails (fix e4a9aa5 for
    # getattr_delegate / setattr_delegate, fix 4e38e77 of finding F111 for _has_traits_trait / base_trait: TypeError,
    # nothing changed; Lean C11_name_failure_is_error_exit)
    for what in ("read", "write", "base_trait"):
        p = subprocess.run([sys.executable, "-c", _NONSTR_PREFIX_PROBE % (ctx["scratch"], what)], capture_output=True,
                           text=True, timeout=120)
        ok = p.returncode == 0 and all(("%s %s: TypeError" % (what, nm)) in p.stdout for nm in ("x", "y"))
        if not ok:
            sig = ("base-trait-nonstr-prefix:crash" if what == "base_trait" and p.returncode < 0 else
                   "delegate-nonstr-prefix:%s-%s" % (what, "crash" if p.returncode < 0 else "no-type-error"))
            hits.append(_hit(sig, "with a non-str __prefix__ on the class, %s of a prefix='*' deferring attribute must "
                             "raise TypeError and change nothing (rc=%s)" % (what, p.returncode),
                             stdout=p.stdout[-300:], no_shrink=True, case=None))
    return hits
