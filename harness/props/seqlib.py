"""Shared pieces of the `seq` cluster: line protocol, validators, generators."""
import itertools

EXC_NAMES = ("TraitError", "IndexError", "ValueError", "KeyError", "TypeError",
             "AttributeError", "OverflowError", "RuntimeError", "NotifierNotFound",
             "AdaptationError")


def exc_name(e):
    n = type(e).__name__
    for c in type(e).__mro__:
        if c.__name__ in EXC_NAMES:
            return c.__name__
    return "Other"


def exc_class(name):
    from traits.api import TraitError
    return {"TraitError": TraitError, "IndexError": IndexError, "ValueError": ValueError,
            "KeyError": KeyError, "TypeError": TypeError, "AttributeError": AttributeError,
            "OverflowError": OverflowError, "RuntimeError": RuntimeError}.get(name, Exception)


class Validator:
    """Python twin of Driver/Seq.lean `parseValidator`; ordinal reset per operation."""

    def __init__(self, spec):
        self.spec = spec
        self.n = 0
        parts = spec.split(":")
        self.kind = parts[0]
        if self.kind == "failk":
            self.k = int(parts[1])
            self.exc = parts[2]

    def reset(self):
        self.n = 0

    # a callable OBJECT that is falsy: whether an item validator was given is an `is None` question,
    # never a truth test (a rule-set object with __len__ == 0 is a legitimate validator)
    def __len__(self):
        return 0

    def __bool__(self):
        return False

    def __call__(self, x):
        n = self.n
        self.n += 1
        return self.pure(n, x)

    def pure(self, n, x):
        from traits.api import TraitError
        if self.kind == "id":
            return x
        if self.kind == "mod7":
            return x % 7
        if self.kind == "rejneg":
            if x < 0:
                raise TraitError("negative")
            return x
        if self.kind == "failk":
            if n == self.k:
                raise exc_class(self.exc)("k-th call fails")
            return x
        raise AssertionError(self.spec)


def show_list(l):
    return "[" + ",".join(str(int(x)) for x in l) + "]"


def show_opt(x):
    return "N" if x is None else str(x)


def parse_opt(s):
    return None if s == "N" else int(s)


class Iter(list):
    """A list of ints that is handed to the implementation as another kind of iterable."""
    kind = ""

    def make(self, owner=None):
        if self.kind == "@":          # the list object itself is the argument (`l.extend(l)`, `l[::2] = l`)
            return owner
        if self.kind == "g":
            return (x for x in list(self))
        if self.kind == "t":
            return tuple(self)
        if self.kind == "i":
            return iter(list(self))
        return list(self)


def parse_list(s):
    s = s.strip()
    kind = ""
    if s == "@":
        r = Iter()
        r.kind = "@"
        return r
    if s and s[0] in "gti":
        kind, s = s[0], s[1:]
    s = s[1:-1].strip()
    r = Iter(int(x) for x in s.split(",")) if s else Iter()
    r.kind = kind
    return r


def _arg(x, owner=None):
    return x.make(owner) if isinstance(x, Iter) else x


def resolve_self(op, contents):
    """The same parsed op with a `@` argument (the list itself) replaced by the given contents."""
    out = []
    for x in op:
        if isinstance(x, Iter) and x.kind == "@":
            y = Iter(contents)
            y.kind = ""
            out.append(y)
        else:
            out.append(x)
    return tuple(out)


def parse_op(s):
    w = s.split()
    k = w[0]
    if k in ("si", "in"):
        return (k, int(w[1]), int(w[2]))
    if k == "ss":
        return (k, slice(parse_opt(w[1]), parse_opt(w[2]), parse_opt(w[3])), parse_list(w[4]))
    if k == "ds":
        return (k, slice(parse_opt(w[1]), parse_opt(w[2]), parse_opt(w[3])))
    if k in ("di", "ap", "im", "po", "rm"):
        return (k, int(w[1]))
    if k == "sk":
        return (k, int(w[1]), int(w[2]))
    if k in ("ex", "ia"):
        return (k, parse_list(w[1]))
    return (k,)


def apply_op(l, op):
    """Apply a parsed op to a list-like; returns the method's return value."""
    k = op[0]
    if k == "si":
        l[op[1]] = op[2]
    elif k == "ss":
        l[op[1]] = _arg(op[2], l)
    elif k == "di":
        del l[op[1]]
    elif k == "ds":
        del l[op[1]]
    elif k == "ap":
        l.append(op[1])
    elif k == "ex":
        l.extend(_arg(op[1], l))
    elif k == "ia":
        l += _arg(op[1], l)
    elif k == "im":
        l *= op[1]
    elif k == "in":
        l.insert(op[1], op[2])
    elif k == "po":
        return l.pop(op[1])
    elif k == "rm":
        l.remove(op[1])
    elif k == "cl":
        l.clear()
    elif k == "rv":
        l.reverse()
    elif k == "so":
        l.sort()
    elif k == "sk":
        l.sort(key=SORT_KEYS[op[1]], reverse=bool(op[2]))
    else:
        raise AssertionError(op)
    return None


SORT_KEYS = [None, lambda x: x % 3, lambda x: x // 2, lambda x: -x]


def show_index(ix):
    if isinstance(ix, slice):
        return "slc:%s:%s:%s" % (ix.start, ix.stop, ix.step)
    return "idx:%d" % ix


# ------------------------------------------------------------------ generators

IDX_SMALL = [None, -5, -4, -3, -2, -1, 0, 1, 2, 3, 4, 5]
STEPS_SMALL = [None, 1, -1, 2, -2, 3, -3]


def exhaustive_single_ops(maxlen, idxs, steps, kind="tl", validator="id", base=10):
    """Every single operation on lists [base..] of length 0..maxlen."""
    ints = [i for i in idxs if i is not None]
    for n in range(maxlen + 1):
        init = show_list(range(base, base + n))
        head = "%s|%s|%s|" % (kind, validator, init)
        for a, b, c in itertools.product(idxs, idxs, steps):
            sl = "%s %s %s" % (show_opt(a), show_opt(b), show_opt(c))
            yield head + "ds " + sl
            for m in range(0, maxlen + 2):
                yield head + "ss %s %s" % (sl, show_list(range(1, m + 1)))
            yield head + "ss %s @" % sl
        for a, b in itertools.product(idxs, idxs):
            yield head + "ds %s %s 0" % (show_opt(a), show_opt(b))
        for i in ints:
            yield head + "si %d 1" % i
            yield head + "di %d" % i
            yield head + "in %d 1" % i
            yield head + "po %d" % i
            yield head + "im %d" % i
        for x in list(range(base, base + n)) + [99]:
            yield head + "rm %d" % x
        for o in ("ap 1", "ex []", "ex [1,2]", "ia []", "ia [1]", "ex g[1,2]", "ia g[1]", "ia i[1,2]", "ex t[1]", "ex @", "ia @", "cl", "rv", "so",
                  "sk 0 1", "sk 1 0", "sk 1 1", "sk 2 0", "sk 2 1", "sk 3 0", "sk 3 1"):
            yield head + o


def random_op(rng, n, wide=False, selfarg=False):
    """One random operation on a list of current length about n."""
    r = rng.random()
    span = n + 3

    def ri():
        return rng.randint(-span, span)

    def ro():
        return None if rng.random() < 0.25 else ri()

    def item():
        return rng.choice([0, 1, 2, 3, 5, 8, 9, 13, -1, -4]) if rng.random() < 0.8 else rng.randint(-20, 20)

    def items(k=None):
        if selfarg and rng.random() < 0.06:
            return "@"
        k = rng.randint(0, 4) if k is None else k
        return rng.choice(["", "", "", "g", "t", "i"]) + show_list([item() for _ in range(k)])
    if r < 0.08:
        return "si %d %d" % (rng.randint(-n - 1, n) if n else ri(), item())
    if r < 0.30:
        step = rng.choice([None, 1, 1, -1, 2, -2, 3, -3, 4, -5, 0])
        a, b = ro(), ro()
        # mostly-valid: for extended slices give the matching number of items
        if step not in (None, 1) and step != 0 and rng.random() < 0.8:
            k = len(range(*slice(a, b, step).indices(max(n, 0))))
            return "ss %s %s %s %s" % (show_opt(a), show_opt(b), show_opt(step), items(k))
        return "ss %s %s %s %s" % (show_opt(a), show_opt(b), show_opt(step), items())
    if r < 0.36:
        return "di %d" % (rng.randint(-n, n - 1) if n and rng.random() < 0.8 else ri())
    if r < 0.50:
        return "ds %s %s %s" % (show_opt(ro()), show_opt(ro()),
                                show_opt(rng.choice([None, 1, -1, 2, -2, 3, -3, 4, 0])))
    if r < 0.58:
        return "ap %d" % item()
    if r < 0.64:
        return "ex %s" % items()
    if r < 0.69:
        return "ia %s" % items()
    if r < 0.73:
        return "im %d" % rng.choice([-1, 0, 1, 2, 2, 3])
    if r < 0.81:
        return "in %d %d" % (ri(), item())
    if r < 0.87:
        return "po %d" % (rng.randint(-n, n - 1) if n and rng.random() < 0.8 else ri())
    if r < 0.93:
        return "rm %d" % item()
    return rng.choice(["cl", "rv", "so", "rv", "sk %d %d" % (rng.randint(0, 3), rng.randint(0, 1)),
                       "sk %d 1" % rng.randint(1, 2), "sk %d %d" % (rng.randint(1, 2), rng.randint(0, 1))])


def random_history(rng, kind="tl", maxops=12, validators=None, selfarg=True):
    validators = validators or ["id", "id", "mod7", "rejneg", "rejneg",
                                "failk:%d:%s" % (rng.randint(0, 3), rng.choice(
                                    ["TraitError", "ValueError", "AttributeError", "RuntimeError"]))]
    v = rng.choice(validators)
    n = rng.randint(0, 8)
    if v == "rejneg":
        init = [rng.choice([0, 1, 2, 3, 5, 8, 9, 13]) for _ in range(n)]
    elif v.startswith("failk"):
        init = []
    else:
        init = [rng.choice([0, 1, 2, 3, 5, 8, 9, 13, -1, -4]) for _ in range(n)]
    ops = []
    cur = len(init)
    big = 0
    for _ in range(rng.randint(1, maxops)):
        o = random_op(rng, min(cur, 12), selfarg=selfarg)
        if o in ("im 2", "im 3"):
            big += 1
            if big > 2:
                o = "im 1"
        ops.append(o)
        cur = min(12, max(0, cur + rng.choice([-1, 0, 0, 1])))
    return "%s|%s|%s|%s" % (kind, v, show_list(init), ";".join(ops))
