"""C16 helpers: line protocol, generators (with a shadow tree), the in-process driver of
the REAL on_trait_change / observe pair, and the statement-level oracle.

Nothing here imports traits at module level.
"""
import itertools

ATTR = {"c": "child", "k": "kids", "b": "byname", "s": "group"}
# alternative trait NAMES (flag 'N'): every link name contains the text `_items`, which the
# listener machinery also uses as the suffix of its container-event traits
ATTR_ALT = {"c": "sub_items_node", "k": "kid_items", "b": "line_items", "s": "set_items_grp"}
FINAL = {"v": "value", "x": "aux"}
# final 'm': the metadata name `+tag` (every trait with metadata `tag`: `value` only) in both APIs
# 'q': the optional name `value?` (the observe text syntax has no optional marker: its side registers plain `value`); 'p': the prefix wildcard `val+` (every non-event trait whose name starts
# with `val`: `value` only) - observe has no prefix syntax, its side registers plain `value` and both are judged by
# the reachability oracle
FINAL_NAME = {"v": "value", "x": "aux", "m": "+tag", "q": "value?", "p": "val+"}
FINAL_NAME_OBS = {"v": "value", "x": "aux", "m": "+tag", "q": "value", "p": "value"}


def final_matches(final, t):
    """Does a change of scalar t ('v' / 'x') fall under the final part of the name?"""
    return t == ("v" if final in "mqp" else final)
KNOWN_ITEMS_SIG = "intermediate-items-unreported:first-link-src-handler"


def trait_order(A):
    return [(A["c"], "c"), (A["k"], "k"), (A["k"] + "_items", "ki"), (A["b"], "b"), (A["b"] + "_items", "bi"),
            (A["s"], "s"), (A["s"] + "_items", "si"), ("value", "v"), ("aux", "x")]


_CLASSES = {}


def node_class(eq=False, falsy="", renamed=False):
    """The node class of a case.
    eq      value-based `__eq__` on `value`, unhashable: tree-shapedness is about identity, the
            listener machinery must never confuse an object with an equal one;
    falsy   'F': container protocol, `__len__` = number of kids (a node without kids is falsy and
            becomes truthy later); 'Z': `__bool__` is always False.  Nothing in the statement
            depends on an object's truth value;
    renamed link traits called sub_items_node / kid_items / line_items (names are opaque to the
            statement and to the model)."""
    key = (eq, falsy, renamed)
    if key not in _CLASSES:
        from traits.api import HasTraits, Int, Instance, List, Dict, Set, Str
        A = ATTR_ALT if renamed else ATTR
        body = {"value": Int(tag=True), "aux": Int, A["c"]: Instance(HasTraits), A["k"]: List(Instance(HasTraits)),
                A["b"]: Dict(Str, Instance(HasTraits)), A["s"]: Set(Instance(HasTraits))}
        if eq:
            def __eq__(self, other):
                if not isinstance(other, cls):
                    return NotImplemented
                return self.value == other.value

            def __ne__(self, other):
                r = self.__eq__(other)
                return r if r is NotImplemented else not r
            body.update({"__eq__": __eq__, "__ne__": __ne__, "__hash__": None})
        if falsy == "F":
            kname = A["k"]
            body["__len__"] = lambda self: len(self.__dict__.get(kname, ()))
        elif falsy == "Z":
            body["__bool__"] = lambda self: False
        cls = type("Node", (HasTraits,), body)
        _CLASSES[key] = cls
    return _CLASSES[key]


# --------------------------------------------------------------------------
# line protocol
# --------------------------------------------------------------------------

FLAGS = ("E", "I", "D", "K", "F", "Z", "N")
KNOWN_LATE_SIG = "deferred-late-registration:existing-items-unhooked"


def parse_mode(s):
    """Header flags: 'E' = value-equality nodes + equal clones on replacement; 'D' = deferred
    registration, made by the @on_trait_change decorator on the root's class when the history
    starts with `rg`, by on_trait_change(root._h, name, deferred=True) otherwise / later;
    'K' = deferred=True keyword with a plain function handler; 'F' / 'Z' = falsy node classes,
    'N' = link trait names containing `_items` (see node_class)."""
    out = ""
    for w in s.split():
        if w not in FLAGS:
            break
        if w != "I":
            out += w
    return out


def parse_name(s):
    w = s.split()
    while w and w[0] in FLAGS:
        w = w[1:]
    arity = int(w[0])
    # a link is one attribute letter, or several distinct ones = the group `[a,b]`, then the connector
    links = [(t[:-1], t[-1] == ".") for t in w[1:-1]]
    for t in w[1:-1]:
        if len(t) < 2 or any(x not in ATTR for x in t[:-1]) or len(set(t[:-1])) != len(t[:-1]) or t[-1] not in ".:":
            raise ValueError(s)
    if arity not in (0, 1, 2, 3, 4) or w[-1] not in FINAL_NAME or not links:
        raise ValueError(s)
    return arity, links, w[-1]


def legacy_name(links, final, A=ATTR):
    out = ""
    for a, notify in links:
        out += (A[a] if len(a) == 1 else "[" + ",".join(A[x] for x in a) + "]") + ("." if notify else ":")
    return out + FINAL_NAME[final]


def observe_expr(links, final, A=ATTR):
    out = ""
    for a, notify in links:
        c = "." if notify else ":"
        parts = [A[x] + (c + "items" if x in "kbs" else "") for x in a]
        out += (parts[0] if len(a) == 1 else "[" + ",".join(parts) + "]") + c
    return out + FINAL_NAME_OBS[final]


def parse_ops(s):
    return [o.split() for o in s.split(";") if o.strip()]


# --------------------------------------------------------------------------
# shadow tree (generator only): mirrors allocation and validity
# --------------------------------------------------------------------------

class Shadow:
    def __init__(self):
        self.child = {0: None}
        self.kids = {0: []}
        self.byname = {0: {}}
        self.group = {0: []}
        self.next = 1
        self.registered = False
        self.mat = set()        # (object, attr) whose container has been written or mutated
        self.stale = set()      # (object, attr) with a replaced container the caller may still hold

    def fresh(self, n):
        ids = list(range(self.next, self.next + n))
        for i in ids:
            self.child[i] = None
            self.kids[i] = []
            self.byname[i] = {}
            self.group[i] = []
        self.next += n
        return ids

    def targets(self, a, o):
        if len(a) > 1:
            return [c for x in a for c in self.targets(x, o)]
        if a == "c":
            return [] if self.child[o] is None else [self.child[o]]
        if a == "k":
            return list(self.kids[o])
        if a == "s":
            return list(self.group[o])
        return list(self.byname[o].values())

    def levels(self, links):
        lv = [[0]]
        for a, _ in links:
            lv.append([c for o in lv[-1] for c in self.targets(a, o)])
        return lv

    def apply(self, op):
        """Apply a (valid or invalid) op; returns True when applied."""
        k = op[0]
        if k == "rg":
            ok = not self.registered
            self.registered = True
            return ok
        if k == "rm":
            ok = self.registered
            self.registered = False
            return ok
        a = [int(x) if str(x).isdigit() else x for x in op[1:]]
        o = a[0]
        if o >= self.next:
            return False
        if k in ("xa", "xr"):
            if k == "xa":
                self.fresh(1)
            return True
        at = {"sk": "k", "kc": "k", "kr": "k", "sb": "b", "bd": "b", "ss": "s"}.get(k)
        if at:
            if (o, at) in self.mat:
                self.stale.add((o, at))
            self.mat.add((o, at))
        elif k not in ("sc", "pv", "px"):
            self.mat.add((o, "b" if k in ("ds", "du", "di", "sd", "dd", "dp", "dq", "dc") else "s" if k[0] == "g" else "k"))
        if k == "ss":
            self.group[o] = self.fresh(a[1])
        elif k == "ga":
            self.group[o] = self.group[o] + self.fresh(1)
        elif k == "gu":
            self.group[o] = self.group[o] + self.fresh(a[1])
        elif k in ("gr", "gx"):
            if a[1] >= len(self.group[o]):
                return False
            self.group[o] = self.group[o][:a[1]] + self.fresh(1 if k == "gx" else 0) + self.group[o][a[1] + 1:]
        elif k == "gc":
            self.group[o] = []
        elif k == "sc":
            self.child[o] = self.fresh(1)[0] if a[1] else None
        elif k == "sk":
            self.kids[o] = self.fresh(a[1])
        elif k == "ap":
            self.kids[o] = self.kids[o] + self.fresh(1)
        elif k == "in":
            if a[1] > len(self.kids[o]):
                return False
            self.kids[o] = self.kids[o][:a[1]] + self.fresh(1) + self.kids[o][a[1]:]
        elif k == "dl":
            if a[1] >= len(self.kids[o]):
                return False
            self.kids[o] = self.kids[o][:a[1]] + self.kids[o][a[1] + 1:]
        elif k == "sl":
            i, j, n = a[1:]
            if not (i <= j <= len(self.kids[o])):
                return False
            self.kids[o] = self.kids[o][:i] + self.fresh(n) + self.kids[o][j:]
        elif k == "cl":
            self.kids[o] = []
        elif k == "sb":
            keys = list(dict.fromkeys(a[1:]))
            self.byname[o] = dict(zip(keys, self.fresh(len(keys))))
        elif k == "ds":
            self.byname[o][a[1]] = self.fresh(1)[0]
        elif k in ("du", "di"):
            keys = list(dict.fromkeys(a[1:]))
            for key, v in zip(keys, self.fresh(len(keys))):
                self.byname[o][key] = v
        elif k == "sd":
            if a[1] in self.byname[o]:
                return False
            self.byname[o][a[1]] = self.fresh(1)[0]
        elif k == "si":
            if a[1] >= len(self.kids[o]):
                return False
            self.kids[o] = self.kids[o][:a[1]] + self.fresh(1) + self.kids[o][a[1] + 1:]
        elif k in ("dd", "dp"):
            if a[1] not in self.byname[o]:
                return False
            del self.byname[o][a[1]]
        elif k == "dq":
            if not self.byname[o]:
                return False
            self.byname[o].popitem()
        elif k == "dc":
            self.byname[o] = {}
        elif k in ("rv", "so", "kr"):
            self.kids[o] = self.kids[o][::-1]
        elif k == "ro":
            self.kids[o] = self.kids[o][1:] + self.kids[o][:1]
        elif k in ("kp", "kc"):
            self.kids[o] = self.kids[o][a[1]:] + self.fresh(a[2])
        elif k == "bd":
            self.byname[o] = dict(reversed(list(self.byname[o].items())[a[1]:]))
        elif k in ("pv", "px"):
            pass
        else:
            return False
        return True


def _op_on(rng, sh, o, a, cap, eq=False):
    """A random valid mutation of attribute a of object o.  With eq (value-equality nodes)
    replacements of existing items / values are favoured: they are done with equal clones."""
    room = sh.next < cap
    if a != "c" and (o, a) in sh.stale and rng.random() < 0.3:
        # the container this attribute held before its last reassignment, still held by the caller
        return ["xa" if (room and rng.random() < 0.75) else "xr", o, a]
    if a == "s":
        n = len(sh.group[o])
        r = rng.random()
        if not room:
            r = 0.5 + r / 2
        if r < 0.18:
            return ["ss", o, rng.choice([0, 1, 1, 2, 3])]
        if r < 0.38:
            return ["ga", o]
        if r < 0.48:
            return ["gu", o, rng.choice([0, 1, 2, 2])]
        if r < 0.58 and n:
            return ["gx", o, rng.randrange(n)]
        if r < 0.85 and n:
            return ["gr", o, rng.randrange(n)]
        if r < 0.93:
            return ["gc", o]
        return ["ss", o, 0]
    if a == "c":
        return ["sc", o, 1 if (room and rng.random() < 0.75) else 0]
    if a == "k":
        n = len(sh.kids[o])
        r = rng.random()
        if n and rng.random() < 0.22:
            # carry-over: objects present before AND after one container change (the graph stays a tree)
            c = rng.random()
            if c < 0.2:
                return ["rv", o]
            if c < 0.35:
                return ["so", o]
            if c < 0.5:
                return ["ro", o]
            if c < 0.65:
                return ["kp", o, rng.randint(0, min(n, 2)), rng.choice([0, 1, 2]) if room else 0]
            if eq:
                return ["rv", o]
            if c < 0.85:
                return ["kc", o, rng.randint(0, min(n, 2)), rng.choice([0, 1, 1, 2]) if room else 0]
            return ["kr", o]
        if eq and n and room and rng.random() < 0.45:
            if rng.random() < 0.5:
                return ["si", o, rng.randrange(n)]
            i = rng.randrange(n)
            j = rng.randint(i + 1, n)
            return ["sl", o, i, j, j - i]
        if not room:
            r = 0.5 + r / 2
        if r < 0.13:
            return ["sk", o, rng.choice([0, 1, 1, 2, 3])]
        if r < 0.30:
            return ["ap", o]
        if r < 0.42:
            return ["in", o, rng.randint(0, n)]
        if r < 0.5 and n:
            return ["si", o, rng.randrange(n)]
        if r < 0.7 and n:
            return ["dl", o, rng.randrange(n)]
        if r < 0.9:
            i = rng.randint(0, n)
            j = rng.randint(i, n)
            return ["sl", o, i, j, rng.choice([0, 0, 1, 2]) if room else 0]
        if r < 0.95:
            return ["cl", o]
        return ["sk", o, 0]
    keys = list(sh.byname[o])
    r = rng.random()
    if keys and not eq and rng.random() < 0.12:
        return ["bd", o, rng.choice([0, 1, 1, 1, 2])]
    if not room:
        r = 0.6 + r * 0.4
    if r < 0.12:
        return ["sb", o] + rng.sample(range(4), rng.choice([0, 1, 2, 2, 3]))
    if r < 0.32 or (eq and keys and r < 0.45):
        return ["ds", o, rng.choice(keys) if (keys and rng.random() < (0.8 if eq else 0.45)) else rng.randrange(4)]
    if r < 0.55:
        # update / |= with a mix of existing and new keys (ONE event with `changed` and `added`)
        ks = set(rng.sample(range(5), rng.choice([1, 2, 2, 3, 3])))
        if keys and rng.random() < 0.7:
            ks.add(rng.choice(keys))
        ks = list(ks)
        rng.shuffle(ks)
        return [rng.choice(["du", "di"]), o] + ks
    if r < 0.60:
        return ["sd", o, rng.choice(keys) if (keys and rng.random() < 0.3) else rng.randrange(5)]
    if r < 0.75 and keys:
        return [rng.choice(["dd", "dp"]), o, rng.choice(keys)]
    if r < 0.85 and keys:
        return ["dq", o]
    if r < 0.93:
        return ["dc", o]
    return ["sb", o]


def random_name(rng):
    n = rng.choice([1, 1, 2, 2, 2, 3])
    links = [(rng.choice("ckbckbs"), rng.random() < 0.6) for _ in range(n)]
    final = "v" if rng.random() < 0.85 else "x"
    r = rng.random()
    if r < 0.10:
        # a group `[a,b]` at one position (ListenerGroup: the items share the next ListenerItem); implementation + oracle
        k = rng.randrange(n)
        links[k] = ("".join(rng.sample("ckbs", rng.choice([2, 2, 3]))), links[k][1])
    elif r < 0.14:
        final = "m"      # `+tag`: the wildcard / metadata branch of ListenerItem.register
    elif r < 0.17:
        final = "q"      # `value?`
    elif r < 0.20:
        final = "p"      # `val+`: prefix wildcard
    arity = rng.choice([4, 4, 4, 4, 4, 4, 3, 3, 0, 0, 0, 1, 2])
    if arity in (1, 2):
        # DST signatures: only with ':' links (no intermediate notification, so handle_dst /
        # handle_error are never installed); implementation + oracle only ('#' case)
        links = [(a, False) for a, _ in links]
    return arity, links, final


def dst_case(rng):
    """handler(new) / handler(name, new) on a two-level name with a '.' Instance first link: the
    one shape for which the documentation promises that a change of the link is mapped to its
    effect on the final trait.  The link is reassigned to fresh objects whose final value equals
    (`sc 0 2`) or differs from (`sc 0 1`) the replaced one's.  Implementation + oracle only."""
    arity = rng.choice([1, 2])
    final = "v" if rng.random() < 0.8 else "x"
    mode = rng.choice(["", "", "", "D", "K"]) + rng.choice(["", "", "", "F", "Z", "N"])
    sh = Shadow()
    ops = []
    nops = rng.randint(2, 10)
    reg_at = 0 if rng.random() < 0.5 else rng.randint(0, 3)
    for i in range(nops + 1):
        if i == reg_at and not sh.registered:
            op = ["rg"]
        else:
            r = rng.random()
            kid = sh.child[0]
            if r < 0.30:
                op = ["sc", 0, 1]
            elif r < 0.62:
                op = ["sc", 0, 2]
            elif r < 0.72 and kid is not None:
                op = [rng.choice(["pv", "px"]), kid]
            elif r < 0.80:
                op = [rng.choice(["pv", "px"]), rng.randrange(sh.next)]
            elif r < 0.88:
                op = ["rm"] if sh.registered else ["rg"]
            else:
                op = _op_on(rng, sh, rng.randrange(sh.next), rng.choice("kb"), 20)
        sh.apply(op)
        ops.append(op)
    return show_name(arity, [("c", True)], final, mode) + "|" + show_ops(ops)


def show_name(arity, links, final, mode="I"):
    return ("#" if (arity in (1, 2) or final in "mqp" or any(len(a) > 1 for a, _ in links)) else "") + "".join(f + " " for f in mode if f in "EDKFZN") + " ".join([str(arity)] + [a + ("." if n else ":") for a, n in links] + [final])


def show_ops(ops):
    return ";".join(" ".join(str(x) for x in op) for op in ops)


def random_case(rng, name=None, cap=26):
    if name is None and rng.random() < 0.07:
        return dst_case(rng)
    arity, links, final = name or random_name(rng)
    mode = "E" if rng.random() < 0.3 else ""
    r = rng.random()
    if r < 0.18:
        mode += "D"
    elif r < 0.30:
        mode += "K"
    r = rng.random()
    if r < 0.12:
        mode += "F"
    elif r < 0.20:
        mode += "Z"
    if rng.random() < 0.2:
        mode += "N"
    eq = "E" in mode
    if eq:
        # value-equality nodes are unhashable: no Set links
        links = [(a.replace("s", "k") if "k" not in a else a.replace("s", ""), nt) for a, nt in links]
    if ("D" in mode or "K" in mode) and name is None:
        # deferred registrations matter for container first links
        if rng.random() < 0.7:
            links = [(rng.choice("kbk" if eq else "kbs"), links[0][1])] + links[1:]
        if arity in (1, 2):
            links = [(a, False) for a, _ in links]
    sh = Shadow()
    nops = rng.randint(1, 12)
    style = rng.random()
    reg_at = 0 if style < (0.65 if "D" in mode else 0.4) else (
        rng.randint(0, nops // 2) if style < 0.85 else rng.randint(0, nops))
    p_toggle = 0.14 if ("D" in mode or "K" in mode) else 0.06
    ops = []
    for i in range(nops + 1):
        if i == reg_at and not sh.registered:
            op = ["rg"]
        else:
            r = rng.random()
            lv = sh.levels(links)
            if r < 0.62:
                # on-path: an object reachable at depth k, the attribute the name follows there
                ks = [k for k in range(len(links)) if lv[k]]
                k = max(ks) if rng.random() < 0.5 else rng.choice(ks)
                op = _op_on(rng, sh, rng.choice(lv[k]), rng.choice(links[k][0]), cap, eq)
            elif r < 0.80:
                if sh.stale and rng.random() < 0.3:
                    o_, a_ = rng.choice(sorted(sh.stale))
                    op = _op_on(rng, sh, o_, a_, cap, eq)
                else:
                    op = _op_on(rng, sh, rng.randrange(sh.next), rng.choice("ckb" if eq else "ckbs"), cap, eq)
            elif r < 0.86:
                op = [rng.choice(["pv", "px"]), rng.randrange(sh.next)]
            elif r < 0.86 + p_toggle:
                op = ["rm"] if sh.registered else ["rg"]
            elif r < 0.89 + p_toggle:
                op = ["rg"] if rng.random() < 0.5 else ["rm"]
            else:
                # malformed stream: unallocated object, bad index, missing key
                op = rng.choice([["sc", sh.next + 1, 1], ["dl", rng.randrange(sh.next), 7],
                                 ["sl", rng.randrange(sh.next), 2, 1, 1], ["dd", rng.randrange(sh.next), 9],
                                 ["in", rng.randrange(sh.next), 9], ["ap", sh.next + 3], ["pv", sh.next],
                                 ["si", rng.randrange(sh.next), 8], ["dp", rng.randrange(sh.next), 9],
                                 ["du", sh.next + 2, 1, 2], ["gr", rng.randrange(sh.next), 6],
                                 ["xa", sh.next + 1, "k"], ["gx", rng.randrange(sh.next), 5]])
        sh.apply(op)
        ops.append(op)
    return show_name(arity, links, final, mode) + "|" + show_ops(ops)


# 17 fixed names (two with value-equality nodes, three with deferred registrations, two with falsy
# nodes, two with link trait names containing `_items`); for each a prefix building a 3-object tree along the name and the
# alphabet of the exhaustive histories (every op kind on every object of the tree).
EXH = [
    ("4 c. c. v", "sc 0 1;sc 1 1"),
    ("4 c: c: v", "sc 0 1;sc 1 1"),
    ("4 k. v", "sk 0 2"),
    ("0 k: v", "sk 0 2"),
    ("4 c. k. v", "sc 0 1;sk 1 1"),
    ("4 b. v", "sb 0 0 1"),
    ("3 k. c: x", "sk 0 1;sc 1 1"),
    ("4 b: k. v", "sb 0 0;sk 1 1"),
    ("E 4 k: v", "sk 0 2"),
    ("E 4 b. k. v", "sb 0 0;sk 1 1"),
    ("D 4 k: v", "sk 0 2"),
    ("K 4 b. v", "sb 0 0 1"),
    ("D 0 c. k. v", "sc 0 1;sk 1 1"),
    ("F 4 c. k. v", "sc 0 1;sk 1 1"),
    ("Z 4 k: v", "sk 0 2"),
    ("N 4 b. v", "sb 0 0 1"),
    ("N 4 c. k. v", "sc 0 1;sk 1 1"),
    ("4 s. v", "ss 0 2"),
    ("0 c: s: v", "sc 0 1;ss 1 1"),
]


def _alphabet(name):
    _, links, final = parse_name(name)
    attrs = []
    for a, _ in links:
        if a not in attrs:
            attrs.append(a)
    al = [["rm"], ["rg"], ["p" + final, 1], ["p" + final, 2]]
    for o in (0, 1):
        for a in attrs:
            if a == "c":
                al += [["sc", o, 1], ["sc", o, 0]]
            elif a == "k":
                al += [["sk", o, 1], ["ap", o], ["dl", o, 0], ["sl", o, 0, 1, 1], ["si", o, 0], ["cl", o],
                       ["rv", o], ["ro", o], ["kp", o, 1, 1]]
                if not name.startswith("E"):
                    al += [["kc", o, 1, 1], ["kr", o]]
                if o == 0 or name[0] in "4D":
                    al += [["xa", o, "k"]]
            elif a == "s":
                al += [["ss", o, 1], ["ga", o], ["gr", o, 0], ["gx", o, 0], ["gc", o], ["xa", o, "s"]]
            else:
                al += [["sb", o, 1], ["ds", o, 0], ["ds", o, 2], ["du", o, 0, 2], ["di", o, 3, 0, 1], ["sd", o, 4],
                       ["dd", o, 0], ["dq", o], ["dc", o]]
                if not name.startswith("E"):
                    al += [["bd", o, 1]]
                if o == 0:
                    al += [["xa", o, "b"]]
    return al


def exhaustive(maxlen, short_for_variants=False):
    """With short_for_variants the names that only vary what is opaque to the model (falsy node
    classes, `_items` names) and the names with more than 32 letters are enumerated one step shorter."""
    for name, prefix in EXH:
        if short_for_variants and (name[0] in "FZN" or len(_alphabet(name)) > 32):
            # thorough tier: the two names with 40+ letter alphabets (two container kinds on two objects) would
            # alone be 390 000 of 850 000 histories; they are enumerated to length 2 and covered by the random stream
            yield from _exhaustive_one(name, prefix, maxlen - 1)
        else:
            yield from _exhaustive_one(name, prefix, maxlen)


def _exhaustive_one(name, prefix, maxlen):
    if True:
        al = _alphabet(name)
        for pre in (prefix + ";rg", "rg;" + prefix):
            for n in range(1, maxlen + 1):
                for hist in itertools.product(al, repeat=n):
                    yield name + "|" + pre + ";" + show_ops(hist)


# --------------------------------------------------------------------------
# the real code
# --------------------------------------------------------------------------

def _hit(sig, what, **kw):
    d = {"signature": sig, "what": what}
    d.update(kw)
    return d


def _ids(l):
    return ",".join(str(x) for x in l) if l else "-"


def _calls(l):
    return ",".join("%d.%s" % (o, t) for o, t in l) if l else "-"


class World:
    def __init__(self, arity, links, final, mode="", deco_first=False):
        self.eq = "E" in mode
        self.deferred = "D" in mode or "K" in mode
        self.method = "D" in mode          # the handler is a method of the root
        self.A = ATTR_ALT if "N" in mode else ATTR
        self.order = trait_order(self.A)
        self.short = dict(self.order)
        self.Node = node_class(self.eq, "F" if "F" in mode else "Z" if "Z" in mode else "", "N" in mode)
        self.arity, self.links, self.final = arity, links, final
        self.pool = []
        self.idof = {}
        self.registered = False
        self.chain = []            # ListenerItems of the last legacy registration
        self.legacy = []           # recorded legacy calls (canonical or raw)
        self.observed = []
        self.current = None        # (object id, trait short) being changed by the running op
        self.stale = {}            # (object id, attr) -> the container the link held before its last reassignment
        self.gord = {}             # object id -> members of its `group` set in insertion order (the model's order)
        self.nkey = 0
        self.late = None           # ids present in the first container at a deferred rg (F87, fixed in
        #                            /repo 0c9dae1: a hit with KNOWN_LATE_SIG is a violation again)
        w = self

        def rec4(obj, name, old, new):
            w.legacy.append((w.idof.get(id(obj), -1), w.short.get(name, name), old, new))

        def rec3(obj, name, new):
            w.legacy.append((w.idof.get(id(obj), -1), w.short.get(name, name), None, new))

        def rec2(name, new):
            # (object, trait) are those of the running change; the name given is kept for the oracle
            w.legacy.append(w.current + (name, new))

        def rec1(new):
            w.legacy.append(w.current + (None, new))

        def rec0():
            w.legacy.append(w.current + (None, None))
        rec = {4: rec4, 3: rec3, 2: rec2, 1: rec1, 0: rec0}[arity]
        if self.method:
            # same signatures as methods (ListenerNotifyWrapper counts co_argcount - 1)
            meth = {4: lambda self, obj, name, old, new: rec4(obj, name, old, new),
                    3: lambda self, obj, name, new: rec3(obj, name, new),
                    2: lambda self, name, new: rec2(name, new),
                    1: lambda self, new: rec1(new),
                    0: lambda self: rec0()}[arity]
            meth.__name__ = "_h"
            if deco_first:
                # what `@on_trait_change(name)` in a class body does: the listener is
                # registered (deferred=True) by HasTraits.__init__ of every instance
                from traits.api import on_trait_change
                meth = on_trait_change(legacy_name(links, final, self.A))(meth)
            root_cls = type("Root", (self.Node,), {"_h": meth})
            self.root = self.new(cls=root_cls)
            self.lh = self.root._h
            self.pre_registered = deco_first
        else:
            self.root = self.new()
            self.lh = rec
            self.pre_registered = False

        def oh(event):
            w.observed.append(w.canon_event(event))
        self.oh = oh

    def new(self, like=None, cls=None, copy=False):
        """A fresh object; with value-equality nodes a replacement is an equal CLONE of the
        object it replaces (value copied before the object is inserted anywhere)."""
        o = (cls or self.Node)()
        if (self.eq or copy) and like is not None:
            o.value = like.value
            if copy:
                o.aux = like.aux
        self.idof[id(o)] = len(self.pool)
        self.pool.append(o)
        return o

    def fresh(self, n, like=()):
        like = list(like)
        return [self.new(like[t] if t < len(like) else None) for t in range(n)]

    def canon_event(self, ev):
        n = type(ev).__name__
        if n == "TraitChangeEvent":
            return (self.idof.get(id(ev.object), -1), self.short.get(ev.name, ev.name))
        if n in ("ListChangeEvent", "DictChangeEvent", "SetChangeEvent"):
            owner = ev.object.object()
            return (self.idof.get(id(owner), -1), self.short.get(ev.object.name + "_items", "?"))
        return (-1, n)

    # ---- reachability on the real object graph (never materialises a default) ----
    def targets(self, a, o):
        if len(a) > 1:
            return [c for x in a for c in self.targets(x, o)]
        d = o.__dict__
        if a == "c":
            v = d.get(self.A["c"])
            return [] if v is None else [v]
        if a == "k":
            return list(d.get(self.A["k"], ()))
        if a == "s":
            return list(d.get(self.A["s"], ()))
        return list(d.get(self.A["b"], {}).values())

    def levels(self):
        lv = [[self.root]]
        for a, _ in self.links:
            lv.append([c for o in lv[-1] for c in self.targets(a, o)])
        return [[self.idof[id(o)] for o in l] for l in lv]

    def under_late(self):
        """Ids of the objects below (or equal to) the items a badly timed deferred
        registration did not look at."""
        if not self.late:
            return set()
        seen = set()
        todo = [self.pool[i] for i in self.late]
        while todo:
            o = todo.pop()
            if self.idof[id(o)] in seen:
                continue
            seen.add(self.idof[id(o)])
            for a in "ckbs":
                todo.extend(self.targets(a, o))
        return seen

    # ---- white box -----------------------------------------------------------
    def active(self):
        return "".join("[%s]" % ",".join(str(i) for i in sorted(self.idof.get(id(o), -1) for it in its
                                                                 for o in it.active.keys()))
                       for its in self.chain)

    def hooks(self):
        from traits.trait_notifiers import TraitChangeNotifyWrapper
        objs = []
        for i, o in enumerate(self.pool):
            parts = []
            for tname, short in self.order:
                t = o._trait(tname, 1)
                if t is None:
                    continue
                kinds = []
                for n in (t._notifiers(False) or []):
                    if not isinstance(n, TraitChangeNotifyWrapper):
                        continue       # observe's notifiers
                    if n.name is None:
                        kinds.append("U")
                    elif n.name == "_h" and n.object is not None and n.object() is self.root:
                        kinds.append("U")      # the user's handler as a method of the root
                    else:
                        ref = n.object
                        item = ref() if ref is not None else None
                        depth = [d for d, its in enumerate(self.chain) if any(item is x for x in its)]
                        kinds.append("T%d" % depth[0] if depth else "X")
                if kinds:
                    parts.append("%s[%s]" % (short, ",".join(kinds)))
            if parts:
                objs.append("%d:%s" % (i, "".join(parts)))
        return "_".join(objs) if objs else "-"

    # ---- operations ----------------------------------------------------------
    def apply(self, op):
        """Returns None when skipped, else (object id, trait short, changed?)."""
        k = op[0]
        if k == "rg":
            if self.registered:
                return None
            name = legacy_name(self.links, self.final, self.A)
            if self.pre_registered:
                self.pre_registered = False    # done by the decorator while the root was created
            elif self.deferred:
                first = self.levels()[1]
                if any(x in "kbs" for x in self.links[0][0]) and first:
                    self.late = set(first)
                self.root.on_trait_change(self.lh, name, deferred=True)
            else:
                self.root.on_trait_change(self.lh, name)
            it = self.root.__dict__["__traits_listener__"][name][-1].listener
            self.chain = []        # per depth: the ListenerItem, or the items of the ListenerGroup (they share `next`)
            while it is not None:
                self.chain.append(list(getattr(it, "items", None) or [it]))
                it = it.next
            self.root.observe(self.oh, observe_expr(self.links, self.final, self.A))
            self.registered = True
            return (-1, "rg", False)
        if k == "rm":
            if not self.registered:
                return None
            self.root.on_trait_change(self.lh, legacy_name(self.links, self.final, self.A), remove=True)
            self.root.observe(self.oh, observe_expr(self.links, self.final, self.A), remove=True)
            self.registered = False
            self.late = None
            return (-1, "rm", False)
        a = [int(x) if str(x).isdigit() else x for x in op[1:]]
        i = a[0]
        if i >= len(self.pool):
            return None
        o = self.pool[i]
        at = {"sk": "k", "kc": "k", "kr": "k", "sb": "b", "bd": "b", "ss": "s"}.get(k)
        if at and not (self.eq and k in ("kc", "kr", "bd")):
            # the caller keeps the container the link held before it is reassigned
            held = o.__dict__.get(self.A[at])
            if held is not None:
                self.stale[(i, at)] = held
        if k in ("xa", "xr"):
            # mutation of a DETACHED container: no part of the graph any more, nothing may be reported
            c = self.stale.get((i, a[1]))
            self.current = (i, a[1] + "i")
            if k == "xa":
                new = self.new()
                if c is not None:
                    if a[1] == "k":
                        c.append(new)
                    elif a[1] == "b":
                        self.nkey += 1
                        c["z%d" % self.nkey] = new
                    else:
                        c.add(new)
            elif c:
                if a[1] == "k":
                    del c[0]
                elif a[1] == "b":
                    c.popitem()
                else:
                    c.pop()
            return (i, a[1] + "i", False)
        if k == "ss":
            old = list(self.gord.get(i, ()))
            self.current = (i, "s")
            new = self.fresh(a[1])
            setattr(o, self.A["s"], set(new))
            self.gord[i] = new
            return (i, "s", bool(old or new))
        if k in ("ga", "gu", "gr", "gx", "gc"):
            self.current = (i, "si")
            cur = list(self.gord.get(i, ()))
            g = getattr(o, self.A["s"])
            if k in ("ga", "gu"):
                new = self.fresh(1 if k == "ga" else a[1])
                if k == "ga":
                    g.add(new[0])
                else:
                    g |= set(new)
                self.gord[i] = cur + new
                return (i, "si", bool(new))
            if k == "gc":
                g.clear()
                self.gord[i] = []
                return (i, "si", bool(cur))
            if a[1] >= len(cur):
                return None
            if k == "gr":
                g.remove(cur[a[1]])
                new = []
            else:
                new = self.fresh(1)
                g ^= {cur[a[1]], new[0]}     # ONE event: removed = {member}, added = {fresh}
            self.gord[i] = cur[:a[1]] + new + cur[a[1] + 1:]
            return (i, "si", True)
        if k == "sc":
            old = o.__dict__.get(self.A["c"])
            self.current = (i, "c")
            if a[1] == 2 and not self.eq:
                new = self.new(old, copy=True)     # fresh, but with the scalars of the object it replaces
            else:
                new = self.new() if a[1] else None
            setattr(o, self.A["c"], new)
            return (i, "c", old is not new)
        if k == "sk":
            old = list(o.__dict__.get(self.A["k"], ()))
            self.current = (i, "k")
            new = self.fresh(a[1])
            setattr(o, self.A["k"], new)
            return (i, "k", bool(old or new))
        if k in ("ap", "in", "dl", "sl", "cl", "si"):
            self.current = (i, "ki")
            n = len(o.__dict__.get(self.A["k"], ()))
            if k == "si":
                if a[1] >= n:
                    return None
                getattr(o, self.A["k"])[a[1]] = self.new(getattr(o, self.A["k"])[a[1]])
                return (i, "ki", True)
            if k == "ap":
                getattr(o, self.A["k"]).append(self.new())
                return (i, "ki", True)
            if k == "in":
                if a[1] > n:
                    return None
                getattr(o, self.A["k"]).insert(a[1], self.new())
                return (i, "ki", True)
            if k == "dl":
                if a[1] >= n:
                    return None
                del getattr(o, self.A["k"])[a[1]]
                return (i, "ki", True)
            if k == "sl":
                lo, hi, cnt = a[1:]
                if not (lo <= hi <= n):
                    return None
                getattr(o, self.A["k"])[lo:hi] = self.fresh(cnt, getattr(o, self.A["k"])[lo:hi])
                return (i, "ki", hi > lo or cnt > 0)
            getattr(o, self.A["k"]).clear()
            return (i, "ki", n > 0)
        if k in ("rv", "so", "ro", "kp"):
            self.current = (i, "ki")
            cur = list(o.__dict__.get(self.A["k"], ()))
            if k == "rv":
                getattr(o, self.A["k"]).reverse()
            elif k == "so":
                pos = dict((id(x), t) for t, x in enumerate(cur))
                getattr(o, self.A["k"]).sort(key=lambda x: -pos[id(x)])
            elif k == "ro":
                getattr(o, self.A["k"])[:] = cur[1:] + cur[:1]
            else:
                getattr(o, self.A["k"])[:] = cur[a[1]:] + self.fresh(a[2])
            return (i, "ki", bool(cur) or (k == "kp" and a[2] > 0))
        if k in ("kc", "kr"):
            if self.eq:
                return None      # whether the trait fires would depend on == of the items
            self.current = (i, "k")
            cur = list(o.__dict__.get(self.A["k"], ()))
            new = cur[::-1] if k == "kr" else cur[a[1]:] + self.fresh(a[2])
            setattr(o, self.A["k"], new)
            return (i, "k", [id(x) for x in cur] != [id(x) for x in new])
        if k == "bd":
            if self.eq:
                return None
            self.current = (i, "b")
            cur = list(o.__dict__.get(self.A["b"], {}).items())
            setattr(o, self.A["b"], dict(reversed(cur[a[1]:])))
            return (i, "b", min(a[1], len(cur)) > 0)
        if k == "sb":
            keys = list(dict.fromkeys(a[1:]))
            old = dict(o.__dict__.get(self.A["b"], {}))
            self.current = (i, "b")
            setattr(o, self.A["b"], dict(("k%d" % key, v) for key, v in zip(keys, self.fresh(len(keys)))))
            return (i, "b", bool(old or keys))
        if k == "ds":
            self.current = (i, "bi")
            key = "k%d" % a[1]
            getattr(o, self.A["b"])[key] = self.new(o.__dict__.get(self.A["b"], {}).get(key))
            return (i, "bi", True)
        if k in ("du", "di"):
            self.current = (i, "bi")
            keys = list(dict.fromkeys(a[1:]))
            cur = o.__dict__.get(self.A["b"], {})
            new = dict(("k%d" % key, self.new(cur.get("k%d" % key))) for key in keys)
            if k == "du":
                getattr(o, self.A["b"]).update(new)
            else:
                d = getattr(o, self.A["b"])      # what `o.<dict> |= new` does
                d |= new
                setattr(o, self.A["b"], d)
            return (i, "bi", bool(keys))
        if k == "sd":
            self.current = (i, "bi")
            key = "k%d" % a[1]
            if key in o.__dict__.get(self.A["b"], {}):
                return None          # setdefault on a present key does nothing (no object is created)
            getattr(o, self.A["b"]).setdefault(key, self.new())
            return (i, "bi", True)
        if k == "dp":
            self.current = (i, "bi")
            if ("k%d" % a[1]) not in o.__dict__.get(self.A["b"], {}):
                return None
            getattr(o, self.A["b"]).pop("k%d" % a[1])
            return (i, "bi", True)
        if k == "dq":
            self.current = (i, "bi")
            if not o.__dict__.get(self.A["b"], {}):
                return None
            getattr(o, self.A["b"]).popitem()
            return (i, "bi", True)
        if k == "dd":
            self.current = (i, "bi")
            if ("k%d" % a[1]) not in o.__dict__.get(self.A["b"], {}):
                return None
            del getattr(o, self.A["b"])["k%d" % a[1]]
            return (i, "bi", True)
        if k == "dc":
            self.current = (i, "bi")
            n = len(o.__dict__.get(self.A["b"], {}))
            getattr(o, self.A["b"]).clear()
            return (i, "bi", n > 0)
        if k in ("pv", "px"):
            t = "v" if k == "pv" else "x"
            self.current = (i, t)
            setattr(o, FINAL[t], getattr(o, FINAL[t]) + 1)
            return (i, t, True)
        return None


def run_case(case):
    try:
        name, ops = case.lstrip("#").split("|")
        arity, links, final = parse_name(name)
        mode = parse_mode(name)
        ops = parse_ops(ops)
    except Exception:
        return "bad-case", [], ["bad-case"]
    from traits.api import push_exception_handler, pop_exception_handler
    push_exception_handler(lambda *a: None, reraise_exceptions=True)
    try:
        return _run(arity, links, final, ops, mode)
    finally:
        pop_exception_handler()


def _run(arity, links, final, ops, mode=""):
    from .seqlib import exc_name
    w = World(arity, links, final, mode, deco_first=("D" in mode and bool(ops) and ops[0][0] == "rg"))
    outs, hits, tags = [], [], set()
    n = len(links)
    tags.add("arity%d" % arity)
    tags.add("nodes:" + ("value-eq" if "E" in mode else "identity-eq"))
    tags.add("truth:" + ("falsy-until-kids" if "F" in mode else "always-falsy" if "Z" in mode else "truthy"))
    tags.add("names:" + ("with-_items" if "N" in mode else "plain"))
    tags.add("registration:" + ("decorator" if w.pre_registered else "deferred-method" if "D" in mode else
                                "deferred-kwarg" if "K" in mode else "plain"))
    tags.add("links%d" % n)
    tags.add("name:" + ("group" if any(len(a) > 1 for a, _ in links) else "plain") + ({"m": "+metadata", "q": "+optional", "p": "+prefix"}.get(final, "")))
    ever_registered = False
    dst_dot = arity in (1, 2) and links[0][1]
    if dst_dot and (len(links) != 1 or links[0][0] != "c"):
        return "bad-case", [], ["bad-case"]     # documented to raise TraitError / not mapped
    for op in ops:
        if dst_dot and op[0] == "sc" and op[1:] == ["0", "0"]:
            outs.append("skip")                  # None as the link: handle_dst raises TraitError
            continue
        before = w.levels()
        late_before = w.under_late()
        was_registered = w.registered
        del w.legacy[:], w.observed[:]
        try:
            res = w.apply(op)
        except Exception as e:
            outs.append("err " + exc_name(e))
            hits.append(_hit("op-raised:" + op[0], "%s raised %s: %s" % (" ".join(op), exc_name(e), str(e)[:120])))
            tags.add("err:" + exc_name(e))
            break
        if res is None:
            outs.append("skip")
            tags.add("skip:" + op[0])
            continue
        tags.add(op[0])
        ever_registered = ever_registered or w.registered
        oid, tshort, changed = res
        L = [(o, t) for (o, t, _, _) in w.legacy]
        O = list(w.observed)
        # ---------------- oracle (c): intermediate links; (d) silence when not registered
        if op[0] in ("pv", "px"):
            pass  # explicit probes are judged like the automatic ones below
        if op[0] not in ("rg", "rm"):
            exp = []
            if was_registered and changed:
                if tshort in ("v", "x"):
                    if final_matches(final, tshort) and oid in before[n]:
                        exp = [(oid, tshort)]
                else:
                    for k, (a, notify) in enumerate(links):
                        if notify and any(tshort in (x, x + "i") for x in a) and oid in before[k]:
                            exp.append((oid, tshort))
                            tags.add("report:%s@%d" % (tshort, k))
                    if not exp and any(tshort in (x, x + "i") and oid in before[k] for k, (a, _) in enumerate(links) for x in a):
                        tags.add("quiet:%s" % tshort)
            kind = "final" if tshort in ("v", "x") else "intermediate"
            if not was_registered:
                if L:
                    hits.append(_hit("unregistered:legacy-call", "legacy handler called while not registered%s: %s" % (
                        " (after removal)" if ever_registered else "", _calls(L)), op=" ".join(op)))
                if O:
                    hits.append(_hit("unregistered:observe-call", "observe handler called while not registered: %s"
                                     % _calls(O), op=" ".join(op)))
            else:
                if sorted(L) != sorted(exp):
                    sig = "%s:legacy-%s:%s" % (kind, "missing" if len(L) < len(exp) else "spurious", tshort)
                    if (kind == "intermediate" and not L and tshort in ("ki", "bi", "si") and arity in (3, 4)
                            and links[0][1] and tshort[:-1] in links[0][0] and oid == 0
                            and not any(oid in before[k] for k in range(1, n))):
                        sig = KNOWN_ITEMS_SIG
                        tags.add("known:items-first-link")
                    elif not L and oid in late_before:
                        sig = KNOWN_LATE_SIG
                        tags.add("known:deferred-late")
                    hits.append(_hit(sig, "legacy handler calls %s, the statement demands %s" % (_calls(L), _calls(exp)),
                                     op=" ".join(op), name=legacy_name(links, final, w.A), arity=arity))
                if sorted(O) != sorted(exp):
                    hits.append(_hit("%s:observe-%s:%s" % (kind, "missing" if len(O) < len(exp) else "spurious", tshort),
                                     "observe handler calls %s, the statement demands %s" % (_calls(O), _calls(exp)),
                                     op=" ".join(op), expr=observe_expr(links, final, w.A)))
            if dst_dot and tshort == "c" and oid == 0 and was_registered and changed:
                tags.add("dst-link-change:" + ("equal-final" if op[2] == "2" else "other-final"))
                newc = w.root.__dict__.get(w.A["c"])
                want = getattr(newc, FINAL[final])
                for (o_, t_, nm, new) in w.legacy:
                    if new != want or (arity == 2 and nm != FINAL[final]):
                        hits.append(_hit("intermediate:legacy-args:dst", "handler(%snew) got (%r, %r) for a change of the "
                                         "'.' link; the final trait of the new object is %s = %r" % (
                                             "name, " if arity == 2 else "", nm, new, FINAL[final], want)))
            if arity == 4 and tshort in ("v", "x"):
                for (o_, t_, old, new) in w.legacy:
                    if not (o_ == oid and t_ == tshort and new == old + 1):
                        hits.append(_hit("final:legacy-args", "legacy handler got (%s, %s, %r, %r) for a bump of %d.%s" % (
                            o_, t_, old, new, oid, tshort)))
        # ---------------- automatic probes: oracle (a) differential, (b) reachability
        lv = w.levels()
        probe = {}
        for t in ("v", "x"):
            lg, ob = [], []
            for i, o in enumerate(w.pool):
                del w.legacy[:], w.observed[:]
                w.current = (i, t)
                cur = getattr(o, FINAL[t])
                try:
                    setattr(o, FINAL[t], cur + 1)
                except Exception as e:
                    hits.append(_hit("probe-raised", "bumping %d.%s raised %s" % (i, t, exc_name(e))))
                for (o_, t_, old, new) in w.legacy:
                    lg.append(o_)
                    if ((o_, t_) != (i, t) or (arity == 4 and (old, new) != (cur, cur + 1))
                            or (arity in (1, 2, 3) and new != cur + 1) or (arity == 2 and old != FINAL[t])):
                        hits.append(_hit("final:legacy-args", "legacy handler got (%s, %s, %r, %r) for a bump of %d.%s" % (
                            o_, t_, old, new, i, t)))
                for (o_, t_) in w.observed:
                    ob.append(o_)
                    if (o_, t_) != (i, t):
                        hits.append(_hit("final:observe-args", "observe event (%s, %s) for a bump of %d.%s" % (o_, t_, i, t)))
            probe[t] = (lg, ob)
            exp = sorted(lv[n]) if (w.registered and final_matches(final, t)) else []
            late_now = w.under_late()

            def only_late(got, want):
                """got misses nothing but objects a badly timed deferred registration skipped"""
                return (late_now and all(got.count(x) <= want.count(x) for x in set(got))
                        and set(x for x in want if got.count(x) < want.count(x)) <= late_now)
            if sorted(lg) != sorted(ob):
                side = "legacy-only" if len(lg) > len(ob) else "observe-only"
                sig = "final-differential:" + side
                if only_late(lg, ob):
                    sig = KNOWN_LATE_SIG
                    tags.add("known:deferred-late")
                hits.append(_hit(sig,
                                 "after `%s`: legacy handler fires for %s, observe handler for %s (probing %s)" % (
                                     " ".join(op), _ids(lg), _ids(ob), FINAL[t]),
                                 name=legacy_name(links, final, w.A), expr=observe_expr(links, final, w.A)))
            for who, got in (("legacy", lg), ("observe", ob)):
                if sorted(got) != exp:
                    if not w.registered:
                        sig = "unregistered:%s-call" % who
                    elif who == "legacy" and only_late(got, exp):
                        sig = KNOWN_LATE_SIG
                    else:
                        sig = "final-reach:%s-%s" % (who, "missed" if len(got) < len(exp) else
                                                     ("multiple" if set(got) == set(exp) else "spurious"))
                    hits.append(_hit(sig, "after `%s`: %s handler fires for %s, reachable along the name: %s (probing %s)" % (
                        " ".join(op), who, _ids(got), _ids(exp), FINAL[t]), registered=w.registered))
        if w.registered and lv[n]:
            tags.add("reach>0")
        if any(len(l) > 1 for l in lv):
            tags.add("fanout")
        if len(w.pool) > sum(len(l) for l in lv):
            tags.add("off-path-objects")
        outs.append("ok L=%s O=%s P=%s/%s/%s/%s A=%s H=%s" % (
            _calls(L), _calls(O), _ids(probe["v"][0]), _ids(probe["x"][0]), _ids(probe["v"][1]), _ids(probe["x"][1]),
            w.active() if w.chain else "[]" * (n + 1), w.hooks()))
    return " ; ".join(outs), hits, tags
