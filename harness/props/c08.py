"""C08 — observe handlers track exactly the objects currently reachable."""
from . import obslib as O

PROPERTY = "C08"
DRIVER = "TraitsVerif/Driver/Obs.lean"
PROPS_MODULES = ["TraitsVerif.Props.C08"]
TRANSLATORS = []
RULE = ("histories over a pool of 3-5 interlinked HasTraits objects (value:Int, mate:Instance(tag), child:Instance "
        "with an optional dynamic default, ichild / nchild: Instance with comparison_mode identity / none, per-case "
        "value semantics: pool objects in the same `~class` of the header compare == although distinct, mate (tag=True) "
        "with the same dynamic default as child, tkids: List(tag=False); add_trait with metadata True/False/0/''/'x'/"
        "None/absent; filtered links in non-terminal position over defaults materialised after observe(), kids:List, byname:Dict, group:Set, add_trait of extra/xchild/items): "
        "0-4 linking mutations, observe of 1-2 random expressions (series, parallel, list/dict/set items, the DSL "
        "`items` expansion, +tag, *, optional traits, ':' vs '.') built with the public expression objects, then "
        "mutations (reassign, list/dict/set mutators incl. detached containers, same object twice, lists with repeated "
        "items under slice / extended-slice assignments that change multiplicities followed by pops, cycles, None "
        "items, default materialisation, add_trait); after EVERY op each Int trait of each pool object is read "
        "and incremented and the notifier population of every trait and container is printed; non-trivial = the "
        "op delivered an event, changed a population or raised; distinct = distinct output line")
TRUSTED = ["`==` of two distinct pool objects is a PARAMETER of the model (Env.eqo), supplied on the case line as "
           "equality classes and realised by __eq__/__hash__ of the pool class; sets are kept out of such cases",
           "Model.Obs heap: HasTraits instances as ordered trait lists (traits() order), containers as heap "
           "cells; object identity replaced by pool index / allocation identity written in the case",
           "set iteration order: pool objects hash to their pool index, so a TraitSet of them iterates in pool "
           "order (the model keeps sets sorted)",
           "graph compilation (series/parallel -> ObserverGraph list) is modelled (Expr.compile) and compared on "
           "every case; the text DSL itself is C15's subject (12 fixed DSL strings are checked to compile to the "
           "graphs sent to the model)",
           "oracle = from-scratch path counting written in Python over the real objects (obslib.World.spec_walk)"]
ASSUMPTIONS = ["dispatch='same' only; other dispatchers are modelled-not-verified",
               "containers hold HasTraits instances or None; containers of containers are reached only through "
               "an object (kids.items.kids.items), not List(List(...))",
               "handlers do not raise and do not mutate the graph while being called",
               "add_trait over an existing name keeps its metadata (replacing a trait by one with different "
               "metadata fires no trait_added and is outside the statement)",
               "hooks of a handler whose owner was collected are not judged (they are never called again)",
               "simplified list mutators only (append/insert/del/setitem/clear/extend, l[i:j]=xs, l[i::step]=xs with "
               "in-range non-negative indices); the full slice algebra and the event normal form are C05's subject"]
EXHAUSTIVE = {"quick": False, "thorough": True}

F10_WITNESS = ("obs|3|N,N,N|set 0 child 0;obs 0 0 t.child.0.0 t.child.0.0 then t.value.1.0 then;"
               "set 0 child 1;set 0 child 2")


def setup():
    bad = O.check_fixed_exprs()
    if bad:
        raise RuntimeError("text DSL and expression objects compile differently: %s" % bad)


def corpus():
    return [
        F10_WITNESS,
        "obs|3|N,N,N|setl 0 kids 100 [1,2];obs 0 0 t.kids.1.0 li.1.0 then t.value.1.0 then;la 100 1;ld 100 0;ld 100 0",
        "obs|3|N,N,N|obs 0 0 t.kids.1.0 li.1.0 then t.kids.1.0 then li.1.0 then t.value.1.0 then;get 0 kids 100;la 100 0",
        "obs|3|N,N,N|obs 0 0 t.child.1.0 any.1 then;set 0 child 1;addt 1 extra 1;seti 1 extra 4",
        "obs|3|N,N,N|obs 0 0 meta.1 t.value.1.0 then;set 0 mate 1;addt 0 xchild 1;set 0 xchild 2",
        # repeated items: a same-length slice assignment changes the multiplicities, then a pop
        "obs|3|N,N,N|setl 0 kids 100 [1,1,2];obs 0 0 t.kids.1.0 li.1.0 then t.value.1.0 then;lsl 100 0 3 [1,2,2];"
        "ld 100 2;lsl 100 0 2 [2,2];ld 100 0",
        "obs|3|N,N,N|set 2 child 1;setl 0 kids 100 [1,2,1,2];obs 0 0 t.kids.1.0 li.1.0 then t.child.1.0 t.value.1.0 then then;"
        "lst 100 0 2 [2,2];ld 100 0;ld 100 0;ld 100 0",
        # filtered links in non-terminal position over defaults materialised after observe(); falsy metadata
        "obs|3|1,N,N|obs 0 0 meta.1 t.value.1.0 then;get 0 mate 100;get 0 tkids 102;la 102 2",
        "obs|3|1,N,N|obs 0 0 meta.1 li.1.1 t.value.1.0 then then;get 0 tkids 100;la 100 2;setl 0 tkids 102 [2];"
        "setl 0 tkids 104 [2];la 104 1",
        "obs|3|2,N,N|obs 0 0 any.1 t.value.1.1 then;get 0 child 100;addt 0 xchild 2;set 0 xchild 1",
        "obs|3|N,N,N|obs 0 0 meta.1 t.value.1.0 then;addt 0 xchild 2;set 0 xchild 1;addt 0 items 3;set 0 items 2;"
        "addt 1 xchild 6;set 1 xchild 2;addt 2 xchild 4",
        "obs|3|N,N,N|obs 0 0 any.1;addt 0 l2 0;get 0 l2 100;la 100 1;addt 0 l2 0",
        "#obs|3|N,N,N|obs 0 0 any.1;obs 0 1 any.1;adhoc 0 1;adhoc 1 2",
        # value-equal but distinct objects (header `~class`): a dict value replaced by an equal object is
        # re-tracked; an identity- / none-compared trait reports an equal replacement
        "obs|3|N~2,N~1,N~2|setd 1 byname 100 [0:2];obs 0 1 t.byname.1.0 di.1.0 then t.value.1.0 then;ds 100 0 0;ds 100 0 2",
        "obs|3|N~0,N~1,N~1|setd 0 byname 100 [0:1];obs 0 0 t.byname.1.0 di.1.0 then t.child.1.0 t.value.1.0 then then;ds 100 0 2",
        "obs|3|N~1,N~1,N~2|set 2 ichild 1;obs 0 2 t.ichild.1.0 any.1 then;set 2 ichild 0;set 2 ichild 0",
        "obs|3|N~1,N~1,N~2|set 2 nchild 1;obs 0 2 t.nchild.1.0 t.value.1.0 then;set 2 nchild 0;set 2 nchild 0;"
        "set 2 child 1;obs 1 2 t.child.1.0;set 2 child 0",
    ]


def generate(rng, tier):
    if tier == "quick":
        nh = 2000
        yield from O.exhaustive_small(1)
    elif tier == "thorough":
        nh = 50000
        yield from O.exhaustive_small(3)
    else:
        nh = 20000
        yield from O.exhaustive_small(2)
    for _ in range(nh):
        yield O.history_c08(rng)
    for _ in range(nh // 6):
        yield O.history_eq(rng)
    for _ in range(nh // 8):
        yield O.history_mult(rng)
    for _ in range(nh // 6):
        yield O.history_filt(rng)


def run_impl(case):
    out, hits08, _hits09, tags = O.run_case(case)
    return out, hits08, tags


def nontrivial(case, out):
    return any(("D{}" not in s) or ("P{}" not in s) or s.startswith("err") for s in out.split(" ; "))
