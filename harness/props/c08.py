"""C08 — observe handlers track exactly the objects currently reachable."""
from . import obslib as O

PROPERTY = "C08"
DRIVER = "TraitsVerif/Driver/Obs.lean"
PROPS_MODULES = ["TraitsVerif.Props.C08"]
TRANSLATORS = ["obsl", "notl", "nodel"]
RULE = ("histories over a pool of 3-5 interlinked HasTraits objects (value:Int, mate:Instance(tag), child:Instance "
        "with an optional dynamic default, ichild / nchild: Instance with comparison_mode identity / none, per-case "
        "value semantics: pool objects in the same `~class` of the header compare == although distinct, mate (tag=True) "
        "with the same dynamic default as child, tkids: List(tag=False); add_trait with metadata True/False/0/''/'x'/"
        "None/absent; filtered links in non-terminal position over defaults materialised after observe(), kids:List, byname:Dict, group:Set, add_trait of extra/xchild/items): "
        "0-4 linking mutations, observe of 1-2 random expressions (series, parallel, list/dict/set items, the DSL "
        "`items` expansion, +tag, *, optional traits, ':' vs '.') built with the public expression objects, then "
        "mutations (reassign, list/dict/set mutators incl. detached containers, same object twice, lists with repeated "
        "items under slice / extended-slice assignments that change multiplicities followed by pops, cycles, None "
        "items, default materialisation, add_trait, `del obj.trait`; every mutator of TraitDict (`[]=`, update, `|=`, "
        "setdefault, del, pop, popitem, clear; byname is Dict(CStr, Instance), keys also passed un-cast) and TraitSet "
        "(add, discard, remove, pop, update, `|=`, `-=`, `&=`, `^=`, difference_update, symmetric_difference_update, "
        "clear) in place with one-pair / one-item operands; a constant default that is a pool object shared by all "
        "instances (`shared = Any(obj)`) read for the first time after observe()); after EVERY op each Int trait of each pool object is read "
        "and incremented and the notifier population of every trait and container is printed; non-trivial = the "
        "op delivered an event, changed a population or raised; distinct = distinct output line")
TRUSTED = ["`==` of two distinct pool objects is a PARAMETER of the model (Env.eqo), supplied on the case line as "
           "equality classes and realised by __eq__/__hash__ of the pool class; sets are kept out of such cases",
           "Model.Obs heap: HasTraits instances as ordered trait lists (traits() order), containers as heap "
           "cells; object identity replaced by pool index / allocation identity written in the case",
           "set iteration order: pool objects hash to their pool index, so a TraitSet of them iterates in pool "
           "order (the model keeps sets sorted)",
           "graph compilation (series/parallel -> ObserverGraph list) is modelled (Expr.compile) and compared on "
           "every case; the text DSL itself is C15's subject (12 fixed DSL strings are checked to compile to the "
           "graphs sent to the model)",
           "SOURCE TIE (translators obsl, notl; Model/ObsL.lean, Model/NotL.lean): _observe.py, apply_observers and the "
           "add_to/remove_from/equals methods of the two notifier classes are translated from their text on every run "
           "and the model is PROVED equal to their interpretation; what stays hand-written (= the runtime of the "
           "interpreters) is: generators evaluated eagerly, graph.children, the TraitAddedObserver / "
           "_RestrictedNamedTraitObserver rows of the node interface and the denotation of the NodeL primitives "
           "(isinstance = heap cell kind, _trait(n, 2) = the observable, traits().items() = the field list, metadata "
           "is not None = Field.tagged) - the IObserver methods of the five observer classes themselves are "
           "translated (translator nodel, Model/NodeL.lean, C09_node_interface_is_source / C09_node_runtime_is_source) "
           "and so is observer_change_handler (C08_maintain_is_source); the identity semantics of list.remove on notifier objects, and the identification of ==-equal "
           "handlers / dispatchers with one model identifier (parameter defaults ARE part of the term)",
           "oracle = from-scratch path counting written in Python over the real objects (obslib.World.spec_walk)"]
ASSUMPTIONS = ["`del obj.trait` is run with the notifier list of the trait in existence (trait._notifiers(True), as after "
               "any earlier registration on it): ctraits tests the list against NULL there, which the model's hooks do "
               "not record (stated at Model.Obs.Mutation.delField, whose `mutate` arm transcribes that branch)",
               "multi-pair update / multi-item set operands are not generated (one event with several entries has no "
               "counterpart among the model's mutations)",
               "dispatch='same' only; other dispatchers are modelled-not-verified",
               "containers hold HasTraits instances or None; containers of containers are reached only through "
               "an object (kids.items.kids.items), not List(List(...))",
               "handlers do not raise and do not mutate the graph while being called",
               "add_trait over an existing name keeps its metadata (replacing a trait by one with different "
               "metadata fires no trait_added and is outside the statement)",
               "hooks of a handler whose owner was collected are not judged (they are never called again)",
               "simplified list mutators only (append/insert/del/setitem/clear/extend, l[i:j]=xs, l[i::step]=xs with "
               "in-range non-negative indices); the full slice algebra and the event normal form are C05's subject"]
EXHAUSTIVE = {"quick": False, "thorough": True}

F10_WITNESS = ("obs|3|N,N,N|set 0 child 0;obs 0 0 t.child.0.0 t.child.0.0 then t.value.1.0 then;"
               "set 0 child 1;set 0 child 2")


def setup():
    bad = O.check_fixed_exprs()
    if bad:
        raise RuntimeError("text DSL and expression objects compile differently: %s" % bad)


def corpus():
    return [
        F10_WITNESS,
        # thorough seed 13: cycle through the root via `kids`, the root extended three times into its own list: the
        # LIVE notifier list of container 100 grows to 137 entries during one dispatch (model fuel bound was len + 64)
        "obs|5|N,N,N,N,N|setl 0 kids 100 [3];obs 10 0 t.kids.0.0 li.1.0 then t.kids.0.0 li.0.0 then then "
        "t.kids.1.0 li.0.0 then then t.kids.1.0 li.1.0 then then t.value.1.0 then;setl 3 kids 102 [0];"
        "le 100 [0,0,0];la 102 3",
        "obs|3|N,N,N|setl 0 kids 100 [1,2];obs 0 0 t.kids.1.0 li.1.0 then t.value.1.0 then;la 100 1;ld 100 0;ld 100 0",
        "obs|3|N,N,N|obs 0 0 t.kids.1.0 li.1.0 then t.kids.1.0 then li.1.0 then t.value.1.0 then;get 0 kids 100;la 100 0",
        "obs|3|N,N,N|obs 0 0 t.child.1.0 any.1 then;set 0 child 1;addt 1 extra 1;seti 1 extra 4",
        "obs|3|N,N,N|obs 0 0 meta.1 t.value.1.0 then;set 0 mate 1;addt 0 xchild 1;set 0 xchild 2",
        # repeated items: a same-length slice assignment changes the multiplicities, then a pop
        "obs|3|N,N,N|setl 0 kids 100 [1,1,2];obs 0 0 t.kids.1.0 li.1.0 then t.value.1.0 then;lsl 100 0 3 [1,2,2];"
        "ld 100 2;lsl 100 0 2 [2,2];ld 100 0",
        "obs|3|N,N,N|set 2 child 1;setl 0 kids 100 [1,2,1,2];obs 0 0 t.kids.1.0 li.1.0 then t.child.1.0 t.value.1.0 then then;"
        "lst 100 0 2 [2,2];ld 100 0;ld 100 0;ld 100 0",
        # filtered links in non-terminal position over defaults materialised after observe(); falsy metadata
        "obs|3|1,N,N|obs 0 0 meta.1 t.value.1.0 then;get 0 mate 100;get 0 tkids 102;la 102 2",
        "obs|3|1,N,N|obs 0 0 meta.1 li.1.1 t.value.1.0 then then;get 0 tkids 100;la 100 2;setl 0 tkids 102 [2];"
        "setl 0 tkids 104 [2];la 104 1",
        "obs|3|2,N,N|obs 0 0 any.1 t.value.1.1 then;get 0 child 100;addt 0 xchild 2;set 0 xchild 1",
        "obs|3|N,N,N|obs 0 0 meta.1 t.value.1.0 then;addt 0 xchild 2;set 0 xchild 1;addt 0 items 3;set 0 items 2;"
        "addt 1 xchild 6;set 1 xchild 2;addt 2 xchild 4",
        "obs|3|N,N,N|obs 0 0 any.1;addt 0 l2 0;get 0 l2 100;la 100 1;addt 0 l2 0",
        # add_trait(List) abandoned half-way: under `*:*` the maintainer of `trait_added` raises on the
        # announcement of the `l2_items` companion, which is defined by then; the next add_trait('l2', List)
        # announces `l2` only (seed 7 thorough, correspondence: the driver announced the companion again)
        "obs|3|2,N,N|obs 0 0 any.1 any.1 t.value.1.1 then then;set 2 nchild 0;addt 0 l2 2;get 0 l2 100;la 100 2;"
        "get 0 tkids 102;addt 0 l2 2;get 0 mate 106",
        "obs|3|N,N,N|obs 0 0 any.1 any.1 then;addt 0 l2 0;addt 0 l2 0;addt 0 l2 1;get 0 l2 100;la 100 1;addt 1 l2 0",
        "#obs|3|N,N,N|obs 0 0 any.1;obs 0 1 any.1;adhoc 0 1;adhoc 1 2",
        # a cycle through the root under a chain longer than the cycle: the same trait is the link at depth 1 and
        # at depth 3; cutting it relies on call_notifiers running its SNAPSHOT (the depth-3 maintainer, unhooked by
        # the depth-1 maintainer during the dispatch, still has to run).  The pinned tree is right here.
        "obs|3|N,N,N|obs 0 0 t.child.0.0 t.child.0.0 then t.child.0.0 then t.value.1.0 then;set 0 child 1;set 1 child 0;"
        "set 0 child N;set 0 child 2",
        "obs|3|N,N,N|obs 0 0 t.child.1.0 t.child.1.0 then t.child.1.0 then t.value.1.0 then;set 1 child 0;set 0 child 1;"
        "set 0 child N;set 0 child 2;set 2 child 1",
        "obs|3|N,N,N|set 0 child 1;set 1 child 0;obs 0 0 t.child.1.0 t.child.0.0 then t.child.1.0 then t.child.0.0 then "
        "t.value.1.0 then;set 0 child N;set 0 child 1;set 1 child N",
        "obs|3|N,N,N|setl 0 kids 100 [1];setl 1 kids 102 [0];obs 0 0 t.kids.1.0 li.1.0 then t.kids.1.0 then li.1.0 then "
        "t.kids.1.0 then li.1.0 then t.value.1.0 then;setl 0 kids 104 [];lc 102",
        # a CONSTANT default that is an observable object shared by all instances (header `S`), read after observe()
        "obs|3|N,N,SN|obs 0 0 t.shared.1.0 t.value.1.0 then;get 0 shared 100;get 1 shared 102;set 0 shared 1;addt 0 extra 1",
        "obs|3|SN,N,N|obs 0 1 t.shared.0.0 t.shared.1.0 then t.value.1.0 then;get 1 shared 100;get 0 shared 102;set 1 shared 2",
        # every mutator of TraitDict (casting keys, cast / un-cast) and TraitSet, in place
        "obs|3|N,N,N|setd 0 byname 100 [1:1,2:2];obs 0 0 t.byname.1.0 di.1.0 then t.value.1.0 then;diou 100 1 2;dsdu 100 2 0;"
        "dsd 100 0 1;dsd 100 0 2;dpd 100 5;dpi 100;dp 100 1;duu 100 1 1;du 100 1 0;dsu 100 1 2;dio 100 3 0",
        "obs|3|N,N,N|sets 0 group 100 [1];obs 0 0 t.group.1.0 si.1.0 then t.value.1.0 then;sp 100;six 100 1;six 100 1;"
        "sxu 100 2;su 100 0;sio 100 1;sis 100 0;sia 100 1;sdu 100 2;sro 100 2;sro 100 0",
        # known F99: `del obj.trait` hooks the re-materialised default twice (dynamic, constant and List defaults)
        "obs|3|1,N,N|obs 0 0 t.child.1.0 t.value.1.0 then;get 0 child 100;del 0 child 102;set 0 child 2;del 0 child 104",
        "obs|3|N,N,N|setl 0 kids 106 [1];obs 1 0 t.kids.1.0 li.1.0 then t.value.1.0 then;del 0 kids 108;la 108 2;"
        "setl 0 kids 110 [];la 108 1",
        "obs|3|N,N,SN|obs 0 0 t.shared.1.0 t.value.1.0 then;get 0 shared 100;set 0 shared 1;del 0 shared 104;set 0 shared 1",
        # value-equal but distinct objects (header `~class`): a dict value replaced by an equal object is
        # re-tracked; an identity- / none-compared trait reports an equal replacement
        "obs|3|N~2,N~1,N~2|setd 1 byname 100 [0:2];obs 0 1 t.byname.1.0 di.1.0 then t.value.1.0 then;ds 100 0 0;ds 100 0 2",
        "obs|3|N~0,N~1,N~1|setd 0 byname 100 [0:1];obs 0 0 t.byname.1.0 di.1.0 then t.child.1.0 t.value.1.0 then then;ds 100 0 2",
        "obs|3|N~1,N~1,N~2|set 2 ichild 1;obs 0 2 t.ichild.1.0 any.1 then;set 2 ichild 0;set 2 ichild 0",
        "obs|3|N~1,N~1,N~2|set 2 nchild 1;obs 0 2 t.nchild.1.0 t.value.1.0 then;set 2 nchild 0;set 2 nchild 0;"
        "set 2 child 1;obs 1 2 t.child.1.0;set 2 child 0",
    ]


def generate(rng, tier):
    if tier == "quick":
        nh = 2000
        yield from O.exhaustive_small(1)
    elif tier == "thorough":
        nh = 50000
        yield from O.exhaustive_small(3)
    else:
        nh = 20000
        yield from O.exhaustive_small(2)
    for _ in range(nh):
        yield O.history_c08(rng)
    for _ in range(nh // 6):
        yield O.history_eq(rng)
    for _ in range(nh // 8):
        yield O.history_mult(rng)
    for _ in range(nh // 6):
        yield O.history_filt(rng)
    for _ in range(nh // 8):
        yield O.history_cont(rng)
    for _ in range(nh // 8):
        yield O.history_const(rng)
    for _ in range(nh // 10):
        yield O.history_cycle(rng)


def run_impl(case):
    out, hits08, _hits09, tags = O.run_case(case)
    return out, hits08, tags


def nontrivial(case, out):
    return any(("D{}" not in s) or ("P{}" not in s) or s.startswith("err") for s in out.split(" ; "))
