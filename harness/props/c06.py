"""C06 — TraitDict refines dict; its change events are faithful deltas."""
import copy

from . import maplib as M

PROPERTY = "C06"
DRIVER = "TraitsVerif/Driver/Map.lean"
PROPS_MODULES = ["TraitsVerif.Props.C06"]
TRANSLATORS = ["mutators", "dictevent", "pylmap", "pylobj", "ctorcopy", "ctorprogdict"]
RULE = ("exhaustive single operations (every mutator x key/value arguments from {1,'1',2,'2'} x pair lists of "
        "length 0..2 (thorough: 0..3) as list / mapping x 4 (thorough: 24) validator pairs) on every ordered dict "
        "with <= 2 (thorough: <= 3) keys from {1,'1',2}; the same stream against the builtin dict (validates the "
        "Py.Dict model); seeded random histories of 1-10 operations with identity / int()- / str()-coercing / "
        "rejecting / colliding (mod 5) / non-idempotent / k-th-call-fails key and value validators and notifier "
        "lists mixing raw recorders and dict_event_factory consumers in both orders; a '#' stream (oracle only) "
        "with bool/float/None/unhashable keys and malformed pair iterables; non-trivial = produced an observation, "
        "distinct = distinct canonical output line")
TRUSTED = ["Py.Dict: hand model of the CPython dict (insertion-ordered association list, structural key equality), "
           "validated against the builtin dict on the same exhaustive and random streams (kind `pd`)",
           "validators are parameters of the model; the driver instantiates the 8 families of maplib.Validator",
           "hashing / __eq__ of keys is outside the model: keys are ints and numeric strings (structural ==); "
           "1 == True == 1.0 collisions, None and unhashable keys run on the implementation + oracle only ('#' lines)"]
ASSUMPTIONS = ["'validated arguments' = the arguments an operation stores; keys that are only looked up (del, pop, "
               "setdefault on a present raw key) are used as given (they are never validated by the code)",
               "notifiers do not raise and do not mutate the dict or their arguments (a notifier that raises is "
               "C19's subject)",
               "update()/update(**kw) (no positional argument) are outside the quantifier of C06: TraitDict.update "
               "requires exactly one positional argument"]
EXHAUSTIVE = {"quick": True, "thorough": True}

F13 = "setdefault-overwrites:key-present-only-after-validation"


def corpus():
    return [
        # F13 (known finding): containment tested on the raw key
        "td|tostr|tostr|r|[i1:i2]|sd i1 i4",
        # F7 (fixed): a raw notifier placed after an observer
        "td|id|id|or|[i1:i1]|si i1 i2",
        "td|id|id|oro|[i1:i1,i2:i2]|up [i1:i5,i3:i6,i1:i7];io [i2:i0];um [i9:i9]",
        "td|toint|tostr|ro|[s1:i2,i3:i4]|up [i5:i6,s5:i7,i1:i8,s1:i9];pi;pi;pi;pi",
        "td|mod5|id|ror|[i1:i1,i7:i2]|si i6 i3;sd i11 i4;pd i6 i0;pd i1 i0;po i1;cl;cl",
        "td|failk:1:ValueError|failk:0:TraitError|r|[]|si i1 i1;up [i1:i1,i2:i2]",
        "td|id|failk:1:KeyError|ro|[]|up [i1:i1,i2:i2];io [i1:i1];si i3 i3;di i3;di i3",
        "td|inc|id|r|[i1:i1]|sd i1 i5;sd i2 i5;si i1 i9",
        "pd|id|id||[i1:i2,s1:i3]|up [i5:i6,i1:i7,i5:i8];sd i5 i0;sd i9 i0;pi;pd i1 i0;pd i1 i0;po i1;cl;pi",
        "#td|id|id|ro|[i1:i2]|si b1 i9;di f1;up [i1:i2,!3];ug [i1:i1,!0];sd U i1;sd1 i7;pd U i0",
    ]


def generate(rng, tier):
    if tier == "quick":
        nh, nm = 5000, 500
    elif tier == "thorough":
        nh, nm = 100000, 10000
    else:  # intense
        nh, nm = 20000, 2000
    yield from M.exhaustive_single_ops("quick" if tier == "quick" else "thorough", "td")
    yield from M.exhaustive_single_ops("quick" if tier == "quick" else "thorough", "pd")
    yield from M.dict_trait_cases()
    for _ in range(nh // 5):
        yield M.random_dict_trait_history(rng)
    for _ in range(nh):
        yield M.random_history(rng, "td")
    for _ in range(nh // 4):
        yield M.random_history(rng, "pd")
    for _ in range(nm):
        yield M.malformed_history(rng)


_OWNERS = {}


def dict_owner(kt, vt, falsy):
    """An instance of a HasTraits class with d = Dict(<kt>, <vt>); `falsy`: the instance is alive but
    false in a truth test (__len__ == 0), which must not make the dict treat it as absent."""
    key = (kt, vt, falsy)
    if key not in _OWNERS:
        from traits import api as T
        mk = {"Int": lambda: T.Int, "CInt": lambda: T.CInt, "CStr": lambda: T.CStr, "Any": lambda: T.Any,
              "Range05": lambda: T.Range(0, 5)}
        ns = {"d": T.Dict(mk[kt](), mk[vt]())}
        if falsy:
            ns["__len__"] = lambda self: 0
            ns["__bool__"] = lambda self: False
        _OWNERS[key] = type("DictOwner_%s_%s_%s" % (kt, vt, "falsy" if falsy else "truthy"), (T.HasTraits,), ns)
    return _OWNERS[key]()


def _hit(sig, what, **kw):
    d = {"signature": sig, "what": what}
    d.update(kw)
    return d


def _items(d):
    return list(dict.items(d))


def _same(a, b):
    """Equal as insertion-ordered dict contents (keys and values by ==)."""
    return _items(a) == _items(b)


def reference(shadow, op, kv, vv):
    """The property's own words: the builtin dict obtained by the same operation
    on validated keys and values.  Returns (exception or None, new dict, ret);
    the validators are used as pure functions of (ordinal, argument)."""
    k = op[0]
    try:
        if k == "si":
            vop = (k, kv.pure(0, op[1]), vv.pure(0, op[2]))
        elif k in ("up", "um", "ug", "io", "iom") or k in M.SHAPED_OPS:
            ps = []
            els = op[1]
            if k in M.SHAPED_OPS:       # what the builtin dict reads from the argument object: keys() + __getitem__
                els = M.shaped(M.SHAPED_OPS[k][1], op[1])[1]
            for i, el in enumerate(els):
                a, b = el            # a malformed element raises here, like the builtin does ...
                a, b = kv.pure(i, a), vv.pure(i, b)
                hash(a)              # ... and an unhashable key raises when its pair is reached
                ps.append((a, b))
            vop = ("io" if k in ("io", "iom") or (k in M.SHAPED_OPS and M.SHAPED_OPS[k][0] == "ior") else "up", ps)
        elif k == "sd":
            vop = op if op[1] in shadow else (k, kv.pure(0, op[1]), vv.pure(0, op[2]))
        elif k == "sd1":
            vop = ("sd", op[1], None) if op[1] in shadow else ("sd", kv.pure(0, op[1]), vv.pure(0, None))
        else:
            vop = op
    except Exception as e:
        return e, shadow, None
    ref = dict(shadow)
    try:
        ret = M.apply_op(ref, vop)
    except Exception as e:
        return e, shadow, None
    return None, ref, ret


def check_raw(snap, after, removed, added, changed):
    """Reconstruction law with its side conditions; returns a failure text or None."""
    if not removed and not added and not changed:
        return "event with all three parts empty"
    for k, v in added.items():
        if k in snap:
            return "added key %r was present before" % (k,)
        if k not in after or after[k] != v:
            return "added key %r does not hold the given value now" % (k,)
    for k, v in changed.items():
        if k not in snap or snap[k] != v:
            return "changed key %r did not hold the given old value" % (k,)
        if k not in after:
            return "changed key %r is gone" % (k,)
    for k, v in removed.items():
        if k not in snap or snap[k] != v:
            return "removed key %r did not hold the given value" % (k,)
        if k in after:
            return "removed key %r is still present" % (k,)
    pre = dict(after)
    for k in added:
        pre.pop(k, None)
    for k, v in changed.items():
        pre[k] = v
    pre.update(removed)
    if pre != snap:
        return "previous contents are not reconstructed"
    return None


def check_observer(snap, after, removed, added):
    """The merged view law of DictChangeEvent."""
    if not removed and not added:
        return "DictChangeEvent with removed and added empty"
    for k, v in added.items():
        if k not in after or after[k] != v:
            return "event.added[%r] is not the current value" % (k,)
    for k, v in removed.items():
        if k not in snap or snap[k] != v:
            return "event.removed[%r] is not the previous value" % (k,)
        if k not in added and k in after:
            return "key %r only in event.removed but still present" % (k,)
    for k in added:
        if k not in removed and k in snap:
            return "key %r only in event.added but was present before" % (k,)
    pre = dict(after)
    for k in added:
        pre.pop(k, None)
    pre.update(removed)
    if pre != snap:
        return "previous contents are not reconstructed from the DictChangeEvent"
    return None


def run_impl(case):
    from traits.trait_dict_object import TraitDict
    from traits.observation._dict_change_event import dict_event_factory
    if case.startswith("#extra"):
        return "extra", [h for h in extra_checks({}) if h.get("case") == case], ["extra"]
    line = case[1:] if case.startswith("#") else case
    kind, kvs, vvs, ns, init, ops = line.split("|")
    init = M.parse_pairs(init)
    ops = [M.parse_op(o) for o in ops.split(";") if o.strip()]
    tags = set()
    hits = []
    outs = []
    if kind == "pd":
        d = dict(init)
        for op in ops:
            try:
                r = M.apply_op(d, op)
                outs.append("ok %s %s []" % (M.show_pairs(d.items()), M.show_ret(r)))
            except Exception as e:
                outs.append("err " + M.exc_name(e))
        return " ; ".join(outs), [], ["pd"]
    trait_value = kind in ("tdo", "tdof")
    if trait_value:      # kvs / vvs name the key and value traits of a Dict trait
        kv, vv = M.Validator(M.TRAIT_SPECS[kvs]), M.Validator(M.TRAIT_SPECS[vvs])
    else:
        kv, vv = M.Validator(kvs), M.Validator(vvs)
    calls = []          # (notifier position, kind, at-call copies, live objects)
    item_events = []    # <name>_items events of a Dict trait

    def raw(pos):
        def notifier(td, removed, added, changed):
            calls.append((pos, "r", (dict(removed), dict(added), dict(changed)), (removed, added, changed)))
        return notifier

    def observer(pos):
        def notifier(td, removed, added, changed):
            ev = dict_event_factory(td, removed, added, changed)
            calls.append((pos, "o", (dict(ev.removed), dict(ev.added)), (ev.removed, ev.added)))
        return notifier
    # notifiers are falsy callable objects, handed over in a list that is EMPTY at construction time and
    # filled afterwards (the list given must be the list used: `notifiers is None`, not a truth test)
    recorders = [M.Recorder(raw(i) if c == "r" else observer(i)) for i, c in enumerate(ns.strip())]
    own = None
    try:
        if trait_value:
            own = dict_owner(kvs, vvs, falsy=(kind == "tdof"))
            own.d = dict(init)
            td = own.d
            own.on_trait_change(lambda ev: item_events.append(
                (dict(ev.removed), dict(ev.added), dict(ev.changed))), "d_items")
            td.notifiers.extend(recorders)
            tags.add("owner:" + ("falsy" if kind == "tdof" else "truthy"))
        else:
            notifiers = []
            init_arg = init
            if len(kind) == 3 and kind[2] in M.SHAPES:
                # the constructor given the initial items in another shape the builtin dict accepts; the
                # reference is the builtin dict built from the same object, its items validated in order
                init_arg, read = M.shaped(kind[2], init)
                tags.add("init-shape:" + kind[2])
                try:
                    want = {}
                    for i, (a, b) in enumerate(list(dict(M.shaped(kind[2], init)[0]).items())):
                        want[kv.pure(i, a)] = vv.pure(i, b)
                    wexc = None
                except Exception as e:
                    want, wexc = None, e
                kv.reset()
                vv.reset()
                try:
                    got = dict(TraitDict(M.shaped(kind[2], init)[0], key_validator=kv, value_validator=vv))
                    gexc = None
                except Exception as e:
                    got, gexc = None, e
                kv.reset()
                vv.reset()
                if (wexc is None) != (gexc is None) or (wexc is not None and M.exc_name(wexc) != M.exc_name(gexc)):
                    hits.append(_hit("init-exception-differs:shape-" + kind[2], "dict(arg) then validation: %s, TraitDict(arg): %s" % (
                        M.exc_name(wexc) if wexc is not None else None, M.exc_name(gexc) if gexc is not None else None)))
                elif wexc is None and _items(want) != _items(got):
                    hits.append(_hit("init-contents-differ:shape-" + kind[2], "TraitDict(arg) differs from the builtin dict built from "
                                     "the same argument", expected=_items(want), observed=_items(got)))
                if gexc is not None:
                    return "err " + M.exc_name(gexc), hits, ["init-err"] + sorted(tags)
            td = TraitDict(init_arg, key_validator=kv, value_validator=vv, notifiers=notifiers)
            if td.notifiers is not notifiers:
                hits.append(_hit("notifier-list-replaced", "TraitDict does not use the (empty) notifiers list it "
                                 "was given"))
            notifiers.extend(recorders)
    except Exception as e:
        return "err " + M.exc_name(e), [], ["init-err"]
    if case.startswith("#"):
        tags.add("malformed-stream")
    tags.add("kv:" + kv.kind)
    tags.add("vv:" + vv.kind)
    tags.add("notifiers:" + (ns.strip() or "none"))
    for op in ops:
        k = op[0]
        tags.add(k)
        snap = dict(td)
        del calls[:]
        del item_events[:]
        kv.reset()
        vv.reset()
        exc = ret = None
        try:
            ret = M.apply_op(td, op)
        except Exception as e:
            exc = e
        after = dict(td)
        # ---------------- oracle (1): the builtin dict on validated arguments
        try:
            rexc, ref, rret = reference(snap, op, kv, vv)
        except Exception as e:           # reference itself not computable (harness limitation)
            rexc, ref, rret = e, snap, None
        f13 = False
        if k in ("sd", "sd1") and exc is None and rexc is None:
            try:
                f13 = op[1] not in snap and kv.pure(0, op[1]) in snap
            except Exception:
                f13 = False
        if exc is not None and k in ("di", "po", "pd") and isinstance(exc, TypeError):
            # CPython's dict.pop / del skip hashing on an empty dict; a TypeError for an
            # unhashable key is what dict raises whenever it does hash: accept it
            try:
                hash(op[1])
            except TypeError as e:
                rexc = e
        if exc is not None:
            tags.add("err:" + M.exc_name(exc))
            if not _same(after, snap):
                hits.append(_hit("failed-op-mutated:" + k, "failing %s changed the dict" % k,
                                 before=_items(snap), after=_items(after)))
            if calls:
                hits.append(_hit("failed-op-notified:" + k, "failing %s notified" % k))
            if rexc is None:
                hits.append(_hit("spurious-exception:" + k, "%s raised %s where dict on validated arguments succeeds"
                                 % (k, M.exc_name(exc))))
            elif M.exc_name(exc) != M.exc_name(rexc):
                hits.append(_hit("wrong-exception:" + k, "dict on validated arguments raises %s, TraitDict raised %s"
                                 % (M.exc_name(rexc), M.exc_name(exc))))
            outs.append("err " + M.exc_name(exc))
            continue
        if rexc is not None:
            hits.append(_hit("missing-exception:" + k, "%s succeeded where dict on validated arguments raises %s"
                             % (k, M.exc_name(rexc))))
        else:
            if not _same(after, ref):
                sig = F13 if f13 else "contents-differ:" + k
                hits.append(_hit(sig, "contents (or insertion order) differ from the builtin dict on validated "
                                 "arguments", before=_items(snap), expected=_items(ref), observed=_items(after)))
            if rret is M.Self or ret is M.Self:
                if rret is not ret:
                    hits.append(_hit("return-differs:" + k, "in-place operator did not return the receiver"))
            elif rret != ret:
                sig = F13 if f13 else "return-differs:" + k
                hits.append(_hit(sig, "return value differs", expected=repr(rret), observed=repr(ret)))
        # ---------------- oracle (2): notifications
        per = {}
        for c in calls:
            per.setdefault(c[0], []).append(c)
        n_not = len(ns.strip())
        changed_contents = not _same(after, snap)
        if any(len(v) > 1 for v in per.values()):
            hits.append(_hit("several-events:" + k, "a notifier was called more than once for one operation"))
        if per and len(per) != n_not:
            hits.append(_hit("notifier-skipped:" + k, "%d of %d notifiers were called" % (len(per), n_not)))
        if changed_contents and n_not and not per:
            hits.append(_hit("change-without-event:" + k, "contents changed, nobody notified",
                             before=_items(snap), after=_items(after)))
        first_raw = None
        for (pos, nk, at_call, live) in calls:
            if nk == "r":
                tags.add("ev:" + "".join(c for c, part in zip("rac", at_call) if part))
                why = check_raw(snap, after, *at_call)
                if first_raw is not None and at_call != first_raw:
                    part = ["removed", "added", "changed"][[a != b for a, b in zip(at_call, first_raw)].index(True)]
                    hits.append(_hit("notifier-sees-mutated-" + part,
                                     "notifier #%d received a different %s than an earlier notifier of the same "
                                     "operation (%s)" % (pos, part, why), notifiers=ns.strip(),
                                     first=[_items(x) for x in first_raw], this=[_items(x) for x in at_call]))
                elif why is not None:
                    sig = "reconstruct-law:" + k
                    if any(c[1] == "o" and c[0] < pos for c in calls):
                        # would the law hold had an earlier observer not written the changed keys into `added`?
                        cleaned = {a: b for a, b in at_call[1].items() if a not in at_call[2]}
                        if check_raw(snap, after, at_call[0], cleaned, at_call[2]) is None:
                            sig = "notifier-sees-mutated-added"
                    hits.append(_hit(sig, "notifier #%d: %s" % (pos, why), before=_items(snap),
                                     after=_items(after), event=[_items(x) for x in at_call]))
                if first_raw is None:
                    first_raw = at_call
                now = tuple(dict(x) for x in live)
                if now != at_call:
                    part = ["removed", "added", "changed"][[a != b for a, b in zip(now, at_call)].index(True)]
                    hits.append(_hit("notifier-sees-mutated-added" if part == "added"
                                     else "notifier-args-mutated-after-call:" + part,
                                     "the %s dict handed to notifier #%d was modified after it returned (it is "
                                     "shared with the notifiers called later)" % (part, pos), notifiers=ns.strip(),
                                     at_call=[_items(x) for x in at_call], afterwards=[_items(x) for x in now]))
            else:
                why = check_observer(snap, after, *at_call)
                if why is not None:
                    hits.append(_hit("observer-view:" + k, "observer #%d: %s" % (pos, why), before=_items(snap),
                                     after=_items(after), event=[_items(x) for x in at_call]))
        if trait_value:
            # the Dict trait's own notifier: exactly one <name>_items event per notification, same delta
            if ns.strip():
                expect = 1 if calls else 0
            else:
                expect = 1 if changed_contents else min(len(item_events), 1)
            if len(item_events) != expect:
                hits.append(_hit("items-event-count:" + k, "%d '<name>_items' events for an operation that %s"
                                 % (len(item_events), "changed the dict" if expect else "changed nothing"),
                                 owner=("falsy" if kind == "tdof" else "truthy")))
            for ev in item_events:
                why = check_raw(snap, after, *ev)
                if why is not None:
                    hits.append(_hit("items-event-law:" + k, "TraitDictEvent: " + why))
        seen = []
        for (pos, nk, at_call, live) in calls:
            seen.append(("R" if nk == "r" else "O") + "".join(M.show_sorted(x) for x in at_call))
        outs.append("ok %s %s [%s]" % (M.show_pairs(after.items()), M.show_ret(ret), ",".join(seen)))
    return " ; ".join(outs), hits, tags


def extra_checks(ctx):
    """F7 through the real observe machinery: a Dict trait with an observer on
    `d.items` and a raw notifier appended after it."""
    from traits.api import HasTraits, Dict, Int, Str
    hits = []

    class A(HasTraits):
        d = Dict(Str, Int)

    for order in ("observer-first", "raw-first"):
        a = A(d={"a": 1, "b": 2})
        seen = []
        events = []

        def rawn(td, removed, added, changed):
            seen.append((dict(removed), dict(added), dict(changed)))
        if order == "raw-first":
            a.d.notifiers.append(rawn)
        a.observe(lambda ev: events.append((dict(ev.removed), dict(ev.added))), "d:items")
        if order == "observer-first":
            a.d.notifiers.append(rawn)
        for label, mut in (("setitem", lambda: a.d.__setitem__("a", 5)),
                           ("update", lambda: a.d.update({"a": 6, "c": 7, "b": 8})),
                           ("setdefault", lambda: a.d.setdefault("z", 0)),
                           ("pop", lambda: a.d.pop("z"))):
            snap = dict(a.d)
            del seen[:]
            del events[:]
            mut()
            after = dict(a.d)
            for t in seen:
                why = check_raw(snap, after, *t)
                if why is not None:
                    hits.append(_hit("notifier-sees-mutated-added" if t[1] and t[2] and set(t[1]) & set(t[2])
                                     else "reconstruct-law:observe-" + label,
                                     "HasTraits Dict trait, %s, %s: raw notifier: %s" % (order, label, why),
                                     event=[_items(x) for x in t], no_shrink=True,
                                     case="#extra: Dict(Str,Int) observed on d:items + raw notifier (%s); %s"
                                     % (order, label)))
            for e in events:
                why = check_observer(snap, after, *e)
                if why is not None:
                    hits.append(_hit("observer-view:observe-" + label,
                                     "HasTraits Dict trait, %s, %s: %s" % (order, label, why), no_shrink=True,
                                     case="#extra: observe %s %s" % (order, label)))
            if len(seen) != 1 or len(events) != 1:
                hits.append(_hit("several-events:observe-" + label, "%d raw / %d observer calls"
                                 % (len(seen), len(events)), no_shrink=True,
                                 case="#extra: observe %s %s" % (order, label)))
    return hits
