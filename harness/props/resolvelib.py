"""Shared pieces of the `resolve` cluster (C13): line protocol, in-process driver
of the real code, the reference resolver (oracle) and the generators.

Line protocol (twin of lean/TraitsVerif/Driver/Resolve.lean):
  res|op;op;...
  cls <C> <base,base|-> <attr=Spec,...|->     new <o> <C>
  get <o> .<name>   set <o> .<name> <val>     del <o> .<name>
  add <o> .<name> <Spec>   rem <o> .<name>    trt <o> .<name> <mode>
  hook <o> .<prefix> <Spec>   obj.on_trait_change(h, 'trait_added'), h adds the instance trait Spec for
                              every newly resolved name that starts with prefix
  Spec = Kind[:val]@tag      val = n | u | i<int> | s<chars>
`traits` is never imported at module level."""
import itertools

from .seqlib import exc_name

# --------------------------------------------------------------------------
# values / trait specs
# --------------------------------------------------------------------------

KINDS = ("Any", "Int", "Str", "RO", "Const", "Ev", "EvInt", "Dis", "Py")
ALL_KINDS = KINDS + ("Deleg",)   # DelegatesTo('dg'): only in the delegate-shadow stream
DELEGATE_ATTR = "dg"

# tags of the traits every hierarchy inherits from the library classes
TAG_PY_DEFAULT = 900      # HasTraits' '' prefix: Python()
TAG_TRAITS_CACHE = 901    # HasTraits._traits_cache__ = Any(...)
TAG_DISALLOW = 902        # the Disallow singleton (HasStrictTraits._ / HasPrivateTraits._)
TAG_PRIVATE_ANY = 903     # HasPrivateTraits.__ = Any(...)
TAG_ANY_TRAIT = 905       # has_traits.any_trait
TAG_GENERIC = 906         # traits.generic_trait
TAG_TRAIT_ADDED = 907
TAG_TRAIT_MODIFIED = 908


def parse_val(s):
    from traits.api import Undefined
    if s == "n":
        return None
    if s == "u":
        return Undefined
    if s.startswith("i"):
        return int(s[1:])
    if s.startswith("s"):
        return s[1:]
    raise ValueError("bad value " + s)


def show_val(v):
    from traits.api import Undefined
    if v is None:
        return "n"
    if v is Undefined:
        return "u"
    if isinstance(v, bool):
        return "o?"
    if isinstance(v, int):
        return "i%d" % v
    if isinstance(v, str):
        return "s" + v
    return "o?"


def split_spec(spec):
    """'Int:i5@3' -> ('Int', 'i5' | None, 3)"""
    body, tag = spec.split("@")
    if ":" in body:
        k, dv = body.split(":")
    else:
        k, dv = body, None
    if k not in ALL_KINDS:
        raise ValueError("bad kind " + k)
    return k, dv, int(tag)


def mk_trait(spec):
    """The real trait for a Spec (a TraitType instance carrying metadata tag=<tag>)."""
    from traits.api import Any, Constant, Disallow, Event, Int, ReadOnly, Str
    from traits.trait_types import Python
    k, dv, tag = split_spec(spec)
    args = () if dv is None else (parse_val(dv),)
    if k == "Any":
        return Any(*args, tag=tag)
    if k == "Int":
        return Int(*args, tag=tag)
    if k == "Str":
        return Str(*args, tag=tag)
    if k == "RO":
        return ReadOnly(*args, tag=tag)
    if k == "Const":
        return Constant(args[0] if args else None, tag=tag)
    if k == "Ev":
        return Event(tag=tag)
    if k == "EvInt":
        return Event(Int, tag=tag)
    if k == "Dis":
        return Disallow(tag=tag)
    if k == "Py":
        return Python(tag=tag)
    if k == "Deleg":
        from traits.api import DelegatesTo
        return DelegatesTo(DELEGATE_ATTR, tag=tag)
    raise ValueError(k)


# --------------------------------------------------------------------------
# the real code
# --------------------------------------------------------------------------

_ROOTS = None       # {'H': cls, ...}
_SNAP = None        # cls -> pristine copy of __class_traits__
_BUILTIN_TAGS = None


def roots():
    """Library classes, the pristine content of their class-trait dictionaries
    (restored before every case: resolved prefix traits are cached there) and
    the identity of the library's own traits."""
    global _ROOTS, _SNAP, _BUILTIN_TAGS
    if _ROOTS is None:
        from traits.api import HasPrivateTraits, HasStrictTraits, HasTraits
        from traits.api import Disallow
        from traits.has_traits import any_trait
        _ROOTS = {"H": HasTraits, "S": HasStrictTraits, "P": HasPrivateTraits}
        _SNAP = {c: dict(c.__class_traits__) for c in _ROOTS.values()}
        for c, snap in _SNAP.items():
            if sorted(snap) != ["trait_added", "trait_modified"]:
                raise RuntimeError("library class %s does not start from pristine class traits: %s"
                                   % (c.__name__, sorted(snap)))
        _BUILTIN_TAGS = {
            id(HasTraits.__prefix_traits__[""].handler): TAG_PY_DEFAULT,
            id(HasTraits.__prefix_traits__["_traits_cache_"].handler): TAG_TRAITS_CACHE,
            id(Disallow): TAG_DISALLOW,
            id(HasPrivateTraits.__prefix_traits__["_"].handler): TAG_PRIVATE_ANY,
            id(any_trait.handler): TAG_ANY_TRAIT,
            id(HasTraits.__class_traits__["trait_added"].handler): TAG_TRAIT_ADDED,
            id(HasTraits.__class_traits__["trait_modified"].handler): TAG_TRAIT_MODIFIED,
        }
    return _ROOTS


def restore_roots():
    roots()
    for c, snap in _SNAP.items():
        d = c.__class_traits__
        if len(d) != len(snap):
            d.clear()
            d.update(snap)


def tag_of(t):
    """Identity of the declaration a CTrait (or a clone of it) comes from."""
    from traits.traits import generic_trait
    if t is None:
        return "-"
    tg = t.tag
    if isinstance(tg, int):
        return str(tg)
    if t is generic_trait:
        return str(TAG_GENERIC)
    return str(_BUILTIN_TAGS.get(id(t.handler), "?"))


def parse_name(s):
    if not s.startswith("."):
        raise ValueError("bad name " + s)
    return s[1:]


def list_field(s):
    return [] if s == "-" else [x for x in s.split(",") if x]


MISSING = object()


class Impl:
    """The real classes and objects of one case."""

    def __init__(self, case=""):
        restore_roots()
        # replay-stable switch: half of the cases build their classes FALSY (__bool__ -> False, or
        # __len__ -> 0); nothing in C13 depends on an object's truth value, so outputs must not change
        import zlib
        self.falsy = zlib.crc32(case.encode()) % 4      # 0, 1: ordinary; 2: __bool__; 3: __len__
        self.classes = dict(roots())
        self.objs = {}
        self.nclasses = 0
        self.added_by_listener = []     # (obj, name, spec): add_trait calls made by trait_added listeners

    def gov(self, o, name):
        # unbound: a generated trait or instance value must never be able to shadow the API the driver uses
        from traits.has_traits import HasTraits
        return tag_of(HasTraits._trait(o, name, 0))

    def listener(self, prefix, spec):
        from traits.has_traits import HasTraits
        log = self.added_by_listener

        def on_trait_added(obj, tname, new):
            if isinstance(new, str) and new.startswith(prefix):
                HasTraits.add_trait(obj, new, mk_trait(spec))
                log.append((obj, new, spec))
        return on_trait_added

    def apply(self, words):
        """-> (output, info) ; info carries what the oracle may look at."""
        from traits.has_traits import MetaHasTraits, HasTraits
        k = words[0]
        if k == "cls":
            _, cn, bases, decls = words
            try:
                bs = tuple(self.classes[b] for b in list_field(bases))
            except KeyError:
                return "bad-ref", None
            d = {}
            for item in list_field(decls):
                a, spec = item.split("=")
                if not a or a in d:
                    return "bad-op", None
                d[a] = mk_trait(spec)
            self.nclasses += 1
            inherited = {}
            for b in bs:
                for n, t in b.__class_traits__.items():
                    inherited.setdefault(n, t)
            if self.falsy == 2:
                d["__bool__"] = lambda self: False
            elif self.falsy == 3:
                d["__len__"] = lambda self: 0
            C = MetaHasTraits("K%d_%s" % (self.nclasses, cn), bs, d)
            self.classes[cn] = C
            return "ok " + ",".join("." + p for p in C.__prefix_traits__["*"]), {"cls": C, "inherited": inherited}
        if k == "new":
            _, on, cn = words
            if cn not in self.classes:
                return "bad-ref", None
            self.objs[on] = self.classes[cn]()
            return "ok", {"obj": self.objs[on]}
        on, name = words[1], parse_name(words[2])
        if on not in self.objs:
            return "bad-ref", None
        o = self.objs[on]
        info = {"obj": o, "name": name, "pre": o.__dict__.get(name, MISSING)}
        try:
            if k == "get":
                r = "val " + show_val(getattr(o, name))
            elif k == "set":
                setattr(o, name, parse_val(words[3]))
                r = "ok"
            elif k == "del":
                delattr(o, name)
                r = "ok"
            elif k == "add":
                HasTraits.add_trait(o, name, mk_trait(words[3]))
                r = "ok"
            elif k == "rem":
                r = "bool " + ("T" if HasTraits.remove_trait(o, name) else "F")
            elif k == "trt":
                r = "trait " + tag_of(HasTraits._trait(o, name, int(words[3])))
            elif k == "hook":
                HasTraits.on_trait_change(o, self.listener(name, words[3]), "trait_added")
                r = "ok"
            else:
                return "bad-op", None
        except Exception as e:
            r = "err " + exc_name(e)
        g = self.gov(o, name)
        info["g"] = g
        info["post"] = o.__dict__.get(name, MISSING)
        return "%s g=%s" % (r, g), info


# --------------------------------------------------------------------------
# the oracle: a reference resolver written from the property text
# --------------------------------------------------------------------------

class Decl:
    """kind in trait|python|event|disallow|readonly|constant ; validator None|'int'|'str'."""

    def __init__(self, kind, default, validator, tag):
        self.kind, self.default, self.validator, self.tag = kind, default, validator, tag


UNDEF = "u"   # oracle values are the canonical strings of the protocol ('n','u','i3','sab')


def decl_of_spec(spec):
    k, dv, tag = split_spec(spec)
    if k == "Any":
        return Decl("trait", dv if dv is not None else "n", None, tag)
    if k == "Int":
        return Decl("trait", dv if dv is not None else "i0", "int", tag)
    if k == "Str":
        return Decl("trait", dv if dv is not None else "s", "str", tag)
    if k == "RO":
        return Decl("readonly", dv if dv is not None else UNDEF, None, tag)
    if k == "Const":
        return Decl("constant", dv if dv is not None else "n", None, tag)
    if k == "Ev":
        return Decl("event", None, None, tag)
    if k == "EvInt":
        return Decl("event", None, "int", tag)
    if k == "Dis":
        return Decl("disallow", None, None, tag)
    if k == "Py":
        return Decl("python", None, None, tag)
    if k == "Deleg":
        return Decl("delegate", None, None, tag)
    raise ValueError(k)


def valid(validator, v):
    if validator is None or v == UNDEF:      # Undefined means "not set": never validated
        return True
    return v.startswith("i") if validator == "int" else v.startswith("s")


def valid_event(validator, v):
    """An event holds no value, so there is no "not set" exemption for Undefined."""
    if validator is None:
        return True
    return v.startswith("i") if validator == "int" else v.startswith("s")


class RefClass:
    def __init__(self, name, bases, exact, wild):
        self.name, self.bases, self.exact, self.wild = name, bases, exact, wild

    def mro(self):
        """C3 linearisation (Python's own inheritance order), computed here."""
        seqs = [b.mro() for b in self.bases] + [list(self.bases)]
        out = [self]
        seqs = [list(s) for s in seqs if s]
        while seqs:
            for s in seqs:
                h = s[0]
                if not any(h in t[1:] for t in seqs):
                    break
            else:
                raise TypeError("no MRO")
            out.append(h)
            seqs = [[x for x in s if x is not h] for s in seqs]
            seqs = [s for s in seqs if s]
        return out


def ref_roots():
    h = RefClass("H", [], {"trait_added": Decl("event", None, "str", TAG_TRAIT_ADDED),
                            "trait_modified": Decl("event", None, None, TAG_TRAIT_MODIFIED)},
                 {"_traits_cache_": Decl("trait", "n", None, TAG_TRAITS_CACHE)})
    s = RefClass("S", [h], {}, {"": Decl("disallow", None, None, TAG_DISALLOW)})
    p = RefClass("P", [h], {}, {"_": Decl("trait", "n", None, TAG_PRIVATE_ANY),
                                "": Decl("disallow", None, None, TAG_DISALLOW)})
    return {"H": h, "S": s, "P": p}


PY_DEFAULT = Decl("python", None, None, TAG_PY_DEFAULT)


class RefObj:
    def __init__(self, cls):
        self.cls = cls
        self.itraits = {}
        self.vals = {}


def governing(o, name):
    """instance trait > class trait (own or inherited) > wildcard with the longest
    matching prefix > class default.  Returns (decl, route)."""
    if name in o.itraits:
        return o.itraits[name], "instance"
    mro = o.cls.mro()
    for c in mro:
        if name in c.exact:
            return c.exact[name], "class"
    best = None
    nmatch = 0
    seen = set()
    for c in mro:
        for p, d in c.wild.items():
            if p in seen:
                continue          # a nearer class re-declared this wildcard
            seen.add(p)
            if name.startswith(p):
                nmatch += 1
                if best is None or len(p) > len(best[0]):
                    best = (p, d)
    if best is None:
        return PY_DEFAULT, "default"
    if best[0] == "":
        return best[1], "default"
    return best[1], "prefix%d" % min(nmatch, 4)


def flat_tables(cls):
    """The tables `update_traits_class_dict` really builds (known finding F55): the class's own declarations, then
    the ALREADY FLATTENED tables of the direct bases in the order of the bases, first entry wins; every class table
    gets '' -> Python() when it has no '' wildcard.  -> (exact, wild)"""
    exact, wild = dict(cls.exact), dict(cls.wild)
    for b in cls.bases:
        be, bw = flat_tables(b)
        for n, d in be.items():
            exact.setdefault(n, d)
        for n, d in bw.items():
            wild.setdefault(n, d)
    wild.setdefault("", PY_DEFAULT)
    return exact, wild


def governing_flat(o, name):
    """`governing` under the first-base-wins reading of F55 instead of the MRO."""
    if name in o.itraits:
        return o.itraits[name], "instance"
    exact, wild = flat_tables(o.cls)
    if name in exact:
        return exact[name], "class"
    p = max((p for p in wild if name.startswith(p)), key=len)
    return wild[p], ("default" if p == "" else "prefix")


def expect_flat(o, vals_before, op, name, arg=None):
    """Outcome and governing declaration under the F55 reading, on a shadow of the object as it was before the
    operation (nothing of `o` is changed)."""
    sh = RefObj(o.cls)
    sh.itraits = dict(o.itraits)
    sh.vals = dict(vals_before)
    exp, d, _ = expect(sh, op, name, arg, gov=governing_flat)
    return exp, d


def expect(o, op, name, arg=None, gov=None):
    """What the property says the operation does: canonical outcome (without the
    g= part), and the declaration that governs."""
    d, route = (gov or governing)(o, name)
    k = d.kind
    if op == "get":
        if k in ("event", "disallow"):
            return "err AttributeError", d, route
        if k == "constant":
            return "val " + d.default, d, route
        if k in ("trait", "readonly"):
            if name not in o.vals:
                o.vals[name] = d.default        # the default becomes the attribute's value
            return "val " + o.vals[name], d, route
        if name in o.vals:                      # python
            return "val " + o.vals[name], d, route
        return "err AttributeError", d, route
    if op == "set":
        if k in ("disallow", "constant"):
            return "err TraitError", d, route
        if k == "event":
            return ("ok" if valid_event(d.validator, arg) else "err TraitError"), d, route
        if k == "trait":
            if not valid(d.validator, arg):
                return "err TraitError", d, route
            o.vals[name] = arg
            return "ok", d, route
        if k == "python":
            o.vals[name] = arg
            return "ok", d, route
        if k == "readonly":                     # exactly one defining assignment
            if d.default != UNDEF or o.vals.get(name, UNDEF) != UNDEF:
                return "err TraitError", d, route
            o.vals[name] = arg
            return "ok", d, route
    if op == "del":
        if k in ("disallow", "constant", "readonly"):
            return "err TraitError", d, route
        if k == "event":
            return "ok", d, route
        if k == "trait":
            o.vals.pop(name, None)
            return "ok", d, route
        if name in o.vals:                      # python
            del o.vals[name]
            return "ok", d, route
        return "err AttributeError", d, route
    raise ValueError(op)


def is_dunder(name):
    return name[:2] == "__" and name[-2:] == "__"


# --------------------------------------------------------------------------
# generators
# --------------------------------------------------------------------------

ALPHA = "xy_"


def alpha_names(maxlen):
    return ["".join(p) for n in range(0, maxlen + 1) for p in itertools.product(ALPHA, repeat=n)]


EXTRA_NAMES = ["_private", "__dunder__", "__x", "x__", "__", "___", "_traits_cache_q", "_traits_cache_", "a", "ab", "abc", "abcd", "abx", "_a", "a_", "ab_", "q", "__class_q__"]

# class attributes usable in declarations: exact names and wildcards (trailing '_')
EXACT_ATTRS = ["x", "y", "xy", "xx", "a", "ab", "abc", "q", "_x", "_q", "x__y"]
WILD_ATTRS = ["x_", "xy_", "xyx_", "y_", "_", "__", "___", "a_", "ab_", "abc_", "_x_", "x__", "xx_", "q_"]

VALUES = ["i0", "i1", "i2", "i7", "sa", "sab", "s", "n", "u"]
DEFAULTS = {"Any": [None, "i3", "sd", "n"], "Int": [None, "i5", "i0"], "Str": [None, "sd"],
            "RO": [None, None, "i7", "sr", "u", "n", "i0", "s"], "Const": ["i9", "sc", "n"], "Ev": [None], "EvInt": [None],
            "Dis": [None], "Py": [None]}


_API_NAMES = None


def api_names():
    """Attributes of HasTraits / CHasTraits (methods, class attributes).  Declaring a trait of such a name, or
    assigning an instance value to it, shadows the API traits itself calls (`self._trait(...)`, ...): user error
    outside the property (TRUSTED: generated names never collide with HasTraits attributes)."""
    global _API_NAMES
    if _API_NAMES is None:
        from traits.has_traits import HasTraits
        _API_NAMES = frozenset(dir(HasTraits))
    return _API_NAMES


def safe_attr(a):
    """A declaration name / accessed name that does not collide with the HasTraits API (wildcards: their stem too,
    since a write through the wildcard stores an instance value of that name)."""
    api = api_names()
    while a in api or a.rstrip("_") in api and a.rstrip("_") != "":
        a = a.rstrip("_") + "q" + ("_" if a.endswith("_") else "")
    return a


def rand_spec(rng, tag, kinds=KINDS):
    k = rng.choice(kinds)
    dv = rng.choice(DEFAULTS[k])
    return "%s%s@%d" % (k, "" if dv is None else ":" + dv, tag)


def rand_hierarchy(rng, tagbase=1, levels=None, prefix="C"):
    """-> (ops defining 1-3 classes in a chain below H/S/P, class names, declared attrs)."""
    root = rng.choice(["H", "H", "S", "P"])
    n = levels or rng.choice([1, 1, 2, 2, 3])
    ops, names, attrs = [], [], []
    base = root
    tag = tagbase
    for lv in range(n):
        k = rng.choice([0, 1, 1, 2, 2, 3, 4])
        pool = rng.sample(WILD_ATTRS, min(len(WILD_ATTRS), 3)) + rng.sample(EXACT_ATTRS, 2)
        chosen = rng.sample(pool, min(k, len(pool)))
        if lv > 0 and attrs and rng.random() < 0.5:
            # a subclass re-declaring an exact trait / a wildcard of an ancestor
            redo = rng.choice(attrs)
            if redo not in chosen:
                chosen.append(redo)
        decls = []
        for a in chosen:
            decls.append("%s=%s" % (a, rand_spec(rng, tag)))
            tag += 1
            attrs.append(a)
        cn = "%s%d" % (prefix, lv + 1)
        ops.append("cls %s %s %s" % (cn, base, ",".join(decls) or "-"))
        names.append(cn)
        base = cn
    return ops, [root] + names, attrs, tag


def related_names(rng, attrs):
    """Names built to hit 0/1/2/3 prefixes, exact names, private and dunder forms."""
    out = []
    for a in attrs:
        stem = a[:-1] if a.endswith("_") else a
        out += [stem, stem + rng.choice(ALPHA), stem + rng.choice(ALPHA) + rng.choice(ALPHA), a,
                "_" + stem, "__" + stem + "__", stem[:-1] if stem else "z"]
    return out


def rand_name(rng, attrs):
    r = rng.random()
    if attrs and r < 0.55:
        return safe_attr(rng.choice(related_names(rng, attrs)))
    if r < 0.85:
        return rng.choice(alpha_names(4))
    return rng.choice(EXTRA_NAMES)


def rand_access(rng, o, name, tag):
    r = rng.random()
    if r < 0.30:
        return "get %s .%s" % (o, name), tag
    if r < 0.62:
        return "set %s .%s %s" % (o, name, rng.choice(VALUES)), tag
    if r < 0.72:
        return "del %s .%s" % (o, name), tag
    if r < 0.84:
        return "add %s .%s %s" % (o, name, rand_spec(rng, tag)), tag + 1
    if r < 0.93:
        return "rem %s .%s" % (o, name), tag
    return "trt %s .%s %s" % (o, name, rng.choice(["0", "1", "-1", "2"])), tag


def random_history(rng, late_subclass=False):
    """Hierarchy, 1-3 objects, 1-10 operations concentrated on 1-3 names."""
    ops, classes, attrs, tag = rand_hierarchy(rng)
    nobj = rng.choice([1, 1, 2, 3])
    objs = []
    for i in range(nobj):
        on = "abc"[i]
        # mostly the most derived class, sometimes an ancestor (shares nothing but the declarations)
        cn = classes[-1] if rng.random() < 0.7 else rng.choice(classes)
        ops.append("new %s %s" % (on, cn))
        objs.append(on)
    names = [rand_name(rng, attrs) for _ in range(rng.choice([1, 2, 2, 3]))]
    nops = rng.randint(1, 10)
    late_at = rng.randrange(nops) if late_subclass else -1
    for i in range(nops):
        if i == late_at:
            # a class defined after its base has been used
            base = rng.choice(classes)
            k = rng.choice([1, 2])
            decls = []
            picked = rng.sample(WILD_ATTRS + EXACT_ATTRS, k)
            target = rng.choice(names)
            if rng.random() < 0.6 and target and all(ch in "abcdefghijklmnopqrstuvwxyz_" for ch in target):
                # a wildcard (or, without the '_', an exact trait) made for a name the base may have resolved
                picked[0] = safe_attr(target[:rng.randint(1, len(target))] + rng.choice(["_", "_", ""]))
            for a in dict.fromkeys(picked):
                decls.append("%s=%s" % (a, rand_spec(rng, tag)))
                tag += 1
                attrs.append(a)
            ops.append("cls L %s %s" % (base, ",".join(decls)))
            ops.append("new z L")
            objs.append("z")
            classes.append("L")
            if rng.random() < 0.6:
                names.append(rand_name(rng, attrs))
        op, tag = rand_access(rng, rng.choice(objs), rng.choice(names), tag)
        ops.append(op)
    return "res|" + ";".join(ops)


def mi_history(rng):
    """Two-base classes: two independent chains, or a diamond (valid C3 orders only)."""
    tag = 1

    def body(k):
        nonlocal tag
        decls = []
        for a in rng.sample(["x_", "xy_", "_", "__", "q_", "x", "xy", "q", "_x"], k):
            decls.append("%s=%s" % (a, rand_spec(rng, tag)))
            tag += 1
        return ",".join(decls) or "-"
    ops = []
    if rng.random() < 0.5:
        r1, r2 = rng.choice(["H", "S", "P"]), rng.choice(["H", "S", "P"])
        ops += ["cls A %s %s" % (r1, body(rng.choice([0, 1, 2]))), "cls B %s %s" % (r2, body(rng.choice([0, 1, 2])))]
        bases = rng.choice(["A,B", "B,A"])
    else:
        r = rng.choice(["H", "H", "S", "P"])
        ops += ["cls A %s %s" % (r, body(rng.choice([1, 2]))), "cls B A %s" % body(rng.choice([0, 1, 2])),
                "cls C A %s" % body(rng.choice([0, 1, 2]))]
        bases = rng.choice(["B,C", "C,B"])
    ops += ["cls D %s %s" % (bases, body(rng.choice([0, 0, 1]))), "new d D"]
    names = ["x", "xy", "xq", "xyq", "q", "qq", "_x", "_xq", "foo", "_foo", "y"]
    t = 80
    for _ in range(rng.randint(1, 6)):
        op, t = rand_access(rng, "d", rng.choice(names), t)
        ops.append(op)
    return "res|" + ";".join(ops)


def mi_same_prefix_history(rng):
    """Two or three HasTraits bases that define the SAME wildcard prefix differently - an explicit wildcard, or the
    '' prefix that carries the class default (HasStrictTraits / HasPrivateTraits bases next to plain ones) - in
    every order of the bases; names matching the shared prefix and undeclared names (which probe '')."""
    k = rng.choice([2, 2, 3])
    shared = rng.choice(["foo_", "x_", "q_", "_", "xy_"])
    ops, tag = [], 1
    names = []
    for i in range(k):
        cn = "ABC"[i]
        root = rng.choice(["H", "S", "P", "H"])
        decls = []
        if rng.random() < 0.8:
            decls.append("%s=%s" % (shared, rand_spec(rng, tag)))
            tag += 1
        if rng.random() < 0.3:
            decls.append("%s=%s" % (rng.choice(["zz_", "q", "x", "_"]) , rand_spec(rng, tag)))
            tag += 1
            if decls[-1].split("=")[0] == shared or decls[-1].split("=")[0] in [d.split("=")[0] for d in decls[:-1]]:
                decls.pop()
        ops.append("cls %s %s %s" % (cn, root, ",".join(decls) or "-"))
        names.append(cn)
    order = names[:]
    rng.shuffle(order)
    own = "-"
    if rng.random() < 0.15:
        own = "%s=%s" % (shared, rand_spec(rng, tag))
        tag += 1
    ops += ["cls D %s %s" % (",".join(order), own), "new d D"]
    stem = shared[:-1]
    probe = [stem + "x", stem + "xy", stem, "foo", "bar", "_foo", "_p", "zzq", "q", "x"]
    t = 80
    for _ in range(rng.randint(1, 6)):
        op, t = rand_access(rng, "d", safe_attr(rng.choice(probe)), t)
        ops.append(op)
    return "res|" + ";".join(ops)


def deleg_history(rng):
    """The trailing-underscore branch of __prefix_trait__: `v_` shadows a delegate
    trait `v` (class-level or added to one instance).  The delegation target
    `dg` is an Any trait left at None, so reads end in AttributeError and writes
    in DelegationError (a TraitError); only the *resolution* is of interest."""
    root = rng.choice(["H", "H", "S", "P"])
    extra = rng.choice(["", ",v__=Int@3", ",_=Str@3", ",vq_=Dis@3"])
    ops = ["cls A %s %s=Any@1,v=Deleg@2%s" % (root, DELEGATE_ATTR, extra)]
    cn = "A"
    if rng.random() < 0.4:
        ops.append("cls B A %s" % rng.choice(["-", "v_=Int@4", "w_=Str@4"]))
        cn = "B"
    ops += ["new a %s" % cn, "new b %s" % cn]
    names = ["v", "v_", "v__", "vq", "w", "w_", DELEGATE_ATTR, DELEGATE_ATTR + "_", "x_"]
    tag = 10
    if rng.random() < 0.3:
        # an instance-level delegate whose shadow is resolved, then looked at from the other instance
        ops += ["add a .w Deleg@9", rng.choice(["get a .w_", "set a .w_ n", "trt a .w_ -1"])]
    for _ in range(rng.randint(2, 8)):
        o, n = rng.choice("ab"), rng.choice(names)
        r = rng.random()
        if r < 0.35 or n.rstrip("_") == DELEGATE_ATTR:
            # `dg` is only read: assigning a non-HasTraits target makes the delegation listeners log
            # exceptions, and they hook an instance clone of `dg` (notifier side, not modelled) that
            # remove_trait / _trait(.., 1) would observe
            ops.append("get %s .%s" % (o, n))
        elif r < 0.6:
            ops.append("set %s .%s %s" % (o, n, rng.choice(["i1", "sa", "n"])))
        elif r < 0.68:
            ops.append("del %s .%s" % (o, n))
        elif r < 0.8:
            ops.append("add %s .%s %s" % (o, rng.choice(["w", "v", "x"]), rng.choice(["Deleg@%d" % tag, "Int@%d" % tag])))
            tag += 1
        elif r < 0.9:
            ops.append("rem %s .%s" % (o, n))
        else:
            ops.append("trt %s .%s %s" % (o, n, rng.choice(["0", "-1", "2"])))
    return "res|" + ";".join(ops)


def hook_history(rng):
    """Re-entrancy: a trait_added listener adds an instance trait for the very name that is being
    resolved against a wildcard for the first time (read, write, delete, _trait(.., -1/2), add_trait).
    The second object has no listener: when it resolves a name first, the name is cached in the class
    and the listener of the first object never hears of it."""
    root = rng.choice(["H", "H", "S", "P"])
    tag = 1
    decls = []
    for a in rng.sample(["f_", "f_s_", "fs_", "_", "g_", "f"], rng.choice([1, 2, 2, 3])):
        decls.append("%s=%s" % (a, rand_spec(rng, tag)))
        tag += 1
    ops = ["cls A %s %s" % (root, ",".join(decls)), "new a A", "new b A"]
    for _ in range(rng.choice([1, 1, 2])):
        ops.append("hook %s .%s %s" % (rng.choice(["a", "a", "a", "b"]), rng.choice(["f_s", "f_s", "f", "g", "", "f_sx"]),
                                       rand_spec(rng, tag)))
        tag += 1
    names = ["f_s1", "f_s2", "f_sx", "f_n", "fs1", "g1", "q", "f", "f_s"]
    for _ in range(rng.randint(1, 7)):
        o = rng.choice(["a", "a", "a", "b"])
        n = rng.choice(names)
        r = rng.random()
        if r < 0.34:
            ops.append("get %s .%s" % (o, n))
        elif r < 0.64:
            ops.append("set %s .%s %s" % (o, n, rng.choice(VALUES)))
        elif r < 0.70:
            ops.append("del %s .%s" % (o, n))
        elif r < 0.80:
            ops.append("trt %s .%s %s" % (o, n, rng.choice(["-1", "2", "0", "1"])))
        elif r < 0.90:
            ops.append("add %s .%s %s" % (o, n, rand_spec(rng, tag)))
            tag += 1
        else:
            ops.append("rem %s .%s" % (o, n))
    return "res|" + ";".join(ops)


def malformed_history(rng):
    """Dangling references, unknown classes, operations before definitions."""
    ops, classes, attrs, tag = rand_hierarchy(rng)
    ops.append("new a %s" % rng.choice(classes + ["Zq"]))
    for _ in range(rng.randint(1, 5)):
        op, tag = rand_access(rng, rng.choice(["a", "b", "zz"]), rand_name(rng, attrs), tag)
        ops.append(op)
    rng.shuffle(ops)
    return "res|" + ";".join(ops)


FIXED_HIERARCHIES = [
    ["cls A H -"],
    ["cls A H x_=Int@1,xy_=Str@2,xyx_=Any:i3@3"],
    ["cls A S x_=Int:i5@1,_x_=Str@2,y=RO@3"],
    ["cls A P x=Int@1,y_=EvInt@2,_y_=Const:i9@3"],
    ["cls A0 H x_=Int@1", "cls A1 A0 xy_=Str@2,x=Const:sc@3", "cls A A1 xy=RO@4,_=Py@5,x=Int:i5@6"],
    ["cls A0 S y_=Ev@1,x=Const:i9@2", "cls A A0 _=Py@3,__=Dis@4"],
    ["cls A0 H _=RO@1", "cls A A0 __=Dis@2,x_=RO:i7@3"],
    ["cls A0 P x_=Dis@1,_y_=Int@2", "cls A1 A0 x__=Any@3", "cls A A1 x_=Str:sd@4,___=Int@5"],
]

SINGLE_OPS = ["get {o} .{n}", "set {o} .{n} i1", "set {o} .{n} sa", "set {o} .{n} u", "del {o} .{n}",
              "trt {o} .{n} -1", "trt {o} .{n} 2", "rem {o} .{n}"]


def exhaustive_names(maxlen):
    """Every name over {x,y,_} up to maxlen x the 8 fixed hierarchies x every single
    operation, each on a fresh object of a freshly built hierarchy (so the
    resolution is uncached), plus two multi-object cases per (hierarchy, name)
    in which fresh objects share the class-level cache (read first / write
    first) and an add_trait / remove_trait round trip."""
    for hi, h in enumerate(FIXED_HIERARCHIES):
        for n in alpha_names(maxlen):
            head = "res|" + ";".join(h)
            for op in SINGLE_OPS:
                yield head + ";new a A;" + op.format(o="a", n=n)
            shared = []
            for i, op in enumerate(SINGLE_OPS[:5]):
                shared += ["new o%d A" % i, op.format(o="o%d" % i, n=n), "get o%d .%s" % (i, n)]
            yield head + ";" + ";".join(shared)
            rev = []
            for i, op in enumerate(reversed(SINGLE_OPS[:5])):
                rev += ["new o%d A" % i, op.format(o="o%d" % i, n=n), "get o%d .%s" % (i, n)]
            yield head + ";" + ";".join(rev)
            for spec in ("Int:i4@50", "Dis@51", "RO@52", "Ev@53", "Const:i6@54", "Py@55"):
                yield head + (";new a A;add a .{n} {s};get a .{n};set a .{n} i2;get a .{n};set a .{n} i3;"
                              "rem a .{n};get a .{n};set a .{n} sa;get a .{n}").format(n=n, s=spec)
