"""C07 — TraitSet refines set; its change events are faithful deltas; copies."""
import copy
import gc
import pickle

from . import setlib as S

PROPERTY = "C07"
DRIVER = "TraitsVerif/Driver/Set.lean"
PROPS_MODULES = ["TraitsVerif.Props.C07"]
TRANSLATORS = ["mutators", "pylmap", "pylobj", "ctorcopy", "ctorprog"]
RULE = ("exhaustive single operations over the universe {0..3} (thorough: {0..4}): every set state x every operand "
        "subset x add/discard/remove/pop/clear/update/difference_update/intersection_update/"
        "symmetric_difference_update/|=/&=/-=/^= with set and list operands, several iterables, generators; the "
        "same stream against the builtin set (validates the Py.PSet model); coercing (int(), str()) / rejecting "
        "validators over {1,'1',2,'2'} x every operand subset for ^=, |=, symmetric_difference_update, update and "
        "copy/deepcopy/pickle probes; seeded random histories of 1-10 operations with operands of every overlap "
        "pattern (subset, superset, disjoint, partial, equal, empty) x set/frozenset/list/generator x identity / "
        "coercing / rejecting / colliding (mod 5) / non-idempotent / k-th-call-fails validators with copy ops "
        "interleaved (probe the copy, or continue on the copy); the value of a Set(Int/CInt/CStr/Range(0,5)/Any) "
        "TRAIT on a HasTraits owner (TraitSetObject): live, deep-copied, orphaned (owner deleted + gc), copy.copy'd, "
        "unpickled and combinations x every mutator with valid / convertible / invalid items (fixed grid + random "
        "histories); a '#' stream (oracle only) with the receiver as its "
        "own operand, non-iterable operands, unhashable and bool/float-colliding members; non-trivial = produced an "
        "observation, distinct = distinct canonical output line")
TRUSTED = ["Py.PSet: hand model of the CPython set (duplicate-free list up to permutation, structural equality), "
           "validated against the builtin set on the same exhaustive and random streams (kind `ps`)",
           "set.pop(): the member popped is passed from the implementation side on the case line (`po x`): the "
           "generator runs the history on the scratch build once to resolve `po ?`; everything that came out of a "
           "set is compared sorted",
           "iteration order of a set operand is arbitrary in CPython; the model iterates in case-line order. The "
           "validators generated have order-independent outcomes per operation (one failure class per validator)",
           "hashing / __eq__ of members is outside the model ('#' lines exercise collisions and unhashables on the "
           "implementation + oracle only)",
           "copy.copy / pickle go through set.__reduce_ex__ (CPython) + TraitSet.__getstate__/__setstate__; modelled "
           "as 'same members, validator restored, notifiers = []'"]
ASSUMPTIONS = ["rule derived from the pristine TraitSetObject (and proved of the translated _validator, "
               "C07_validator_is_source / C07_trait_value_still_validates): a Set trait value validates new items "
               "with the inner trait as the live value (with its owner), as a deep copy and after its owner was "
               "collected (with owner None: same outcome for inner traits that do not consult the owner; an inner "
               "trait that does, e.g. Range(low='lo'), then rejects EVERY item with AttributeError, never accepting "
               "an invalid one) and as a copy.copy (through the original's bound validator); after a pickle round "
               "trip of the value alone it does not validate at all, by design of __getstate__ which drops `trait` "
               "(C14's subject; tagged, not a hit)",
               "'validated items' = the items an operation may add; items only looked up or removed (remove, discard, "
               "&=, -=, difference_update, intersection_update, and the members of a ^= operand that are present) "
               "are used as given (the code never validates them)",
               "notifiers do not raise (C19's subject)",
               "TraitSet.copy() (the inherited set.copy method) returns a plain builtin set by CPython's design and "
               "the code relies on it (old_set = self.copy()); the copy clause is about copy.copy / copy.deepcopy / "
               "pickle"]
EXHAUSTIVE = {"quick": True, "thorough": True}

F24 = "symdiff-keeps:item-present-only-after-validation"
F25 = "copy-revalidates:deepcopy-nonidempotent-validator"
F26 = "difference_update-partial:operand-raises-midway"
F25B = "copy-raises:deepcopy-trait-value-revalidates-without-owner"


def corpus():
    return [
        # F24 (known): pinned by test_ixor_validator_args_with_added
        "ts|tostr|[i1,i2,i3]|ix S[s2,i3,i4]",
        "ts|toint|[i3]|sy L[s3]",
        "ts|toint|[i3]|ix S[s3]",
        # F1 (fixed): deepcopy
        "ts|intonly|[i1,i2]|cp d s9;cp c s9;cp p s9;sw d;ad s1;ad i5",
        # F25 (known): deepcopy re-validates
        "ts|inc|[i1]|cp d i0",
        # the value of a Set trait: deep copy / orphaned value still validate (seeded change C07-m7)
        "to|Int|[i1,i2]|ad i3;sw d;ad s9;ud L[i7] L[s9];io S[i7,s9];ix S[i7,s9];sy L[i7,s9];ad i10;dc i10",
        "to|Int|[i4,i5]|or;ad s9;ud L[i7] L[s9];io S[i7,s9];ix S[i7,s9];sy L[i7,s9];cp d s9;cp c s9;cp p s9",
        "to|Range05|[i1]|sw c;ad i7;sw d;ad i7;sw p;ad i7",
        "#to|DRange|[i1,i2]|ad i3;ad i9;sw d;ad i4;ad i9;cp d i1",
        "ts|id|[i1,i2,i3]|ix S[i2,i3,i5];ia S[i1,i2,i3,i0];ud L[i6,i7] G[] L[i12,i8];po i1",
        "ts|mod5|[i1,i2]|ud L[i6,i7] L[] L[i12,i8];io S[i11];io L[i11];rm i6;rm i1;dc i9;cl;cl;po _",
        "ts|failk:1:ValueError|[]|ad i1;ud L[i1,i2];io S[i1,i2];ix S[i1,i2];sy L[i1,i2];ix S[i1];iu;du L[i1] L[i5]",
        "ps|id|[i1,i2]|sy L[i2,i3,i3];ix L[i1];ix S[i1,i9];iu S[i1,i9] L[i9];du;po i9",
        "#ts|id|[i1,i2]|ix T;ud T;ad i1;is T;ad i2;sy T;ad i3;iu T;du T;io N;ud N;ad U;ud L[U];cp m i1",
        # F26 (known): set.difference_update applies operands / items one by one
        "#ts|id|[i1,i2]|du S[i1] N",
        "#ts|id|[i1,i2,i3]|ud E[i7];iu E[i1];sy E[i1];du E[i1]",
    ]


def generate(rng, tier):
    if tier == "quick":
        nh, nm = 3000, 300
    elif tier == "thorough":
        nh, nm = 100000, 10000
    else:
        nh, nm = 20000, 2000
    t = "quick" if tier == "quick" else "thorough"
    for c in S.exhaustive_single_ops(t, "ts"):
        yield resolve(c)
    for c in S.exhaustive_single_ops(t, "ps"):
        yield resolve(c)
    for c in S.trait_value_cases():
        yield resolve(c)
    for _ in range(nh // 3):
        yield resolve(S.random_trait_history(rng))
    for _ in range(nh):
        yield resolve(S.random_history(rng, "ts"))
    for _ in range(nh // 4):
        yield resolve(S.random_history(rng, "ps"))
    for _ in range(nm):
        yield S.malformed_history(rng)


def _hit(sig, what, **kw):
    d = {"signature": sig, "what": what}
    d.update(kw)
    return d


def _srt(s):
    return S.show_set(s)


def reference(snap, cmd, v):
    """The property's own words: the builtin set obtained by the same operation
    on validated items.  Returns (exception or None, new set, ret, validated new items of a ^=)."""
    k = cmd[0]
    ref = set(snap)
    new_items = None
    try:
        if k == "ad":
            vcmd = (k, v.pure(0, cmd[1]))
            ref.add(vcmd[1])
            return None, ref, None, None
        if k == "ud":
            ops = [o.plain(snap) for o in cmd[1]]
            validated = []
            n = 0
            for o in ops:
                for x in o:               # a non-iterable operand raises TypeError here, like set.update
                    validated.append(v.pure(n, x))
                    hash(validated[-1])   # ... and an unhashable item raises when it is reached
                    n += 1
            ref.update(validated)
            return None, ref, None, None
        if k == "io" and cmd[1].is_set():
            ref |= {v.pure(i, x) for i, x in enumerate(cmd[1].plain(snap))}
            return None, ref, S.Self, None
        if k in ("ix", "sy") and (k == "sy" or cmd[1].is_set()):
            values = set(cmd[1].plain(snap))
            removed = ref & values
            new_items = {v.pure(i, x) for i, x in enumerate(values - removed)}
            ref ^= (removed | new_items)
            return None, ref, (S.Self if k == "ix" else None), new_items
        ret = S.apply_op(ref, cmd, snapshot=snap)
        return None, ref, ret, None
    except Exception as e:
        return e, set(snap), None, new_items


def check_delta(snap, after, removed, added):
    if not removed and not added:
        return "event with removed and added both empty"
    if not removed <= snap:
        return "removed is not a subset of the previous contents"
    if added & snap:
        return "added intersects the previous contents"
    if (snap - removed) | added != after:
        return "(previous - removed) | added is not the new contents"
    return None


def fixed_on(v, items):
    try:
        return all(v.pure(i, x) == x and type(v.pure(i, x)) is type(x) for x in items for i in range(len(items)))
    except Exception:
        return False


def make_copy(ts, kind):
    if kind == "c":
        return copy.copy(ts)
    if kind == "d":
        return copy.deepcopy(ts)
    if kind == "p":
        return pickle.loads(pickle.dumps(ts))
    if kind == "m":
        return ts.copy()
    raise AssertionError(kind)


KIND_NAME = {"c": "copy", "d": "deepcopy", "p": "pickle", "m": "copy-method"}

_OWNER = None


_OWNER_FALSY = None


def owner_class(falsy=False):
    """A HasTraits class with one Set(<inner trait>) trait per inner trait of the `to` stream; `falsy`:
    its instances are alive but false in a truth test, which must not make a set treat them as absent."""
    global _OWNER, _OWNER_FALSY
    if falsy:
        if _OWNER_FALSY is None:
            _OWNER_FALSY = type("OwnerFalsy", (owner_class(),), {"__len__": lambda self: 0,
                                                                 "__bool__": lambda self: False})
        return _OWNER_FALSY
    if _OWNER is None:
        from traits.api import HasTraits, Set, Int, CInt, CStr, Range, Any

        class Owner(HasTraits):
            lo = Int(0)
            hi = Int(5)
            t_Int = Set(Int)
            t_CInt = Set(CInt)
            t_CStr = Set(CStr)
            t_Range05 = Set(Range(0, 5))
            t_Any = Set(Any)
            t_DRange = Set(Range(low="lo", high="hi"))      # consults the owner ('#' lines only)
        _OWNER = Owner
    return _OWNER


class TraitValidator:
    """The inner trait of a Set trait, on a FRESH owner: what 'valid' means for the oracle."""

    def __init__(self, attr):
        self.attr = attr
        self.kind = attr[2:]
        self.ref = owner_class()()
        self.needs_owner = attr == "t_DRange"

    def reset(self):
        pass

    def pure(self, n, x):
        return self.ref.trait(self.attr).handler.item_trait.validate(self.ref, self.attr, x)


IDENTITY = S.Validator("id")


def _run(case, resolving=False):
    from traits.trait_set_object import TraitSet
    from traits.observation._set_change_event import set_event_factory
    line = case[1:] if case.startswith("#") else case
    kind, vs, init, cmds_txt = line.split("|")
    init = S.parse_atoms(init)
    texts = [c.strip() for c in cmds_txt.split(";") if c.strip()]
    cmds = [S.parse_cmd(c) for c in texts]
    tags = set()
    hits = []
    outs = []
    resolved = [t if t != "po ?" else "po _" for t in texts]

    def finish():
        return " ; ".join(outs), hits, tags, "|".join(line.split("|")[:3] + [";".join(resolved)])
    if kind == "ps":
        s = set(init)
        for i, cmd in enumerate(cmds):
            try:
                empty = not s
                r = S.apply_op(s, cmd)
                if cmd[0] == "po":
                    resolved[i] = "po " + S.show_atom(r[1])
                outs.append("ok %s %s -" % (_srt(s), S.show_atom(r[1]) if isinstance(r, tuple) and r[0] == "v" else "-"))
            except Exception as e:
                if cmd[0] == "po" and empty:
                    resolved[i] = "po _"
                outs.append("err " + S.exc_name(e))
        tags.add("ps")
        return finish()
    obj = None            # bookkeeping for the value of a Set trait (kind "to")
    v = S.Validator(vs) if kind not in ("to", "tof") else None
    calls = []

    item_events = []      # <name>_items events of a Set trait

    def attach(ts):
        del calls[:]
        # falsy callable objects: a notifier is called, never truth-tested; the value of a Set trait keeps
        # its own notifier (the one that fires <name>_items) in front
        ts.notifiers[:] = ([ts.notifier] if hasattr(ts, "name_items") else []) + [
            S.Recorder(lambda t, removed, added: calls.append((0, set(removed), set(added), (removed, added)))),
            S.Recorder(lambda t, removed, added: (lambda ev: calls.append(
                (1, set(ev.removed), set(ev.added), (ev.removed, ev.added))))(set_event_factory(t, removed, added))),
        ]
    try:
        if kind in ("to", "tof"):
            attr = "t_" + vs
            own = owner_class(falsy=(kind == "tof"))()
            tags.add("owner:" + ("falsy" if kind == "tof" else "truthy"))
            setattr(own, attr, set(init))
            ts = getattr(own, attr)
            own.on_trait_change(lambda ev: item_events.append((set(ev.removed), set(ev.added))), attr + "_items")
            v = TraitValidator(attr)
            # the rule derived from the pristine code (TraitSetObject._validator, __deepcopy__, __setstate__):
            # own_trait = this object has a trait; val_trait = the object whose bound _validator is this
            # object's item_validator has one.  It validates (with the inner trait, owner or None) iff val_trait.
            obj = {"owner": own, "own_trait": True, "val_trait": True, "state": "live", "tv": v}
            del own
        else:
            given = []
            ts = TraitSet(init, item_validator=v, notifiers=given)
            if ts.notifiers is not given:
                hits.append(_hit("notifier-list-replaced", "TraitSet does not use the (empty) notifiers list it "
                                 "was given"))
    except Exception as e:
        outs.append("err " + S.exc_name(e))
        tags.add("init-err")
        return finish()
    attach(ts)
    if case.startswith("#"):
        tags.add("malformed-stream")
    tags.add("v:" + v.kind)
    for i, cmd in enumerate(cmds):
        k = cmd[0]
        tags.add(k)
        snap = set(ts)
        del calls[:]
        del item_events[:]
        v.reset()
        if obj is not None:
            v = obj["tv"] if obj["val_trait"] else IDENTITY
            tags.add("trait-value:" + obj["state"])
        if k == "or":
            if obj is None:
                outs.append("bad-cmd")
                continue
            obj["owner"] = None
            exc = pexc = None
            gc.collect()
            if obj["state"] == "live":
                if ts.object() is None:
                    obj["state"] = "orphan"
                else:
                    tags.add("harness:owner-not-collected")
            outs.append("ok %s - -" % _srt(snap))
            continue
        # ------------------------------------------------------------ copies of the value of a Set trait
        if k in ("cp", "sw") and obj is not None:
            ck = cmd[1]
            name = KIND_NAME[ck] + "-trait-value"
            try:
                c = make_copy(ts, ck)
            except Exception as e:
                sig = "copy-raises:" + name
                if ck == "d" and obj["tv"].needs_owner and isinstance(e, AttributeError) and snap:
                    sig = F25B
                hits.append(_hit(sig, "%s of a Set trait value raised %s: %s" % (
                    KIND_NAME[ck], type(e).__name__, str(e)[:120])))
                outs.append("err " + S.exc_name(e))
                continue
            if ck == "d":            # TraitSetObject(self.trait, None, ...): own validator, own trait kept
                c_own = c_val = obj["own_trait"]
            elif ck == "c":          # __setstate__: trait dropped; item_validator stays the original's bound method
                c_own, c_val = False, obj["val_trait"]
            else:                    # pickle: the validator's owner went through __setstate__ too
                c_own = c_val = False
            if type(c) is not type(ts):
                hits.append(_hit("copy-type:" + name, "%s gives a %s" % (name, type(c).__name__)))
            if set(c) != snap:
                hits.append(_hit("copy-differs:" + name, "%s is not equal to the original" % name,
                                 original=_srt(snap), copied=_srt(set(c))))
            if set(ts) != snap or len(ts.notifiers) != 3:
                hits.append(_hit("copy-disturbs-original:" + name, "the original changed while being copied"))
            if list(getattr(c, "notifiers", [None])) != [c.notifier]:
                hits.append(_hit("copy-keeps-notifiers:" + name, "the copy's notifiers are not just its own inert "
                                 "notifier: %r" % (getattr(c, "notifiers", None),)))
            if calls:
                hits.append(_hit("copy-notifies:" + name, "copying notified the original's notifiers"))
            if k == "sw":
                outs.append("ok %s - -" % _srt(set(c)))
                ts = c
                obj.update(own_trait=c_own, val_trait=c_val,
                           state=KIND_NAME[ck] if obj["state"] in ("live", "orphan") else obj["state"] + "+" + KIND_NAME[ck])
                attach(ts)
                continue
            vref = obj["tv"] if c_val else IDENTITY
            if not c_val:
                tags.add("restored-trait-value-does-not-validate(by-design)")
            before = set(c)
            probe = cmd[2]
            try:
                want, wexc = vref.pure(0, probe), None
                hash(want)
            except Exception as e:
                want, wexc = None, e
            try:
                c.add(probe)
                pexc = None
            except Exception as e:
                pexc = e.with_traceback(None)
            owner_missing = obj["tv"].needs_owner and c_val and (ck == "d" or obj["owner"] is None)
            if owner_missing and isinstance(pexc, AttributeError) and set(c) == before:
                tags.add("owner-dependent-trait:rejects-everything-without-owner")
            elif wexc is not None:
                if pexc is None or set(c) != before:
                    hits.append(_hit("copy-does-not-validate:" + name,
                                     "the %s of a Set(%s) trait value accepted %r, which the inner trait rejects"
                                     % (KIND_NAME[ck], obj["tv"].kind, probe)))
                elif S.exc_name(pexc) != S.exc_name(wexc):
                    hits.append(_hit("copy-does-not-validate:" + name, "wrong exception from the copy's add"))
            elif pexc is not None or set(c) != before | {want}:
                hits.append(_hit("copy-does-not-validate:" + name, "add on the %s did not store the validated item"
                                 % name))
            outs.append("copy %s notifiers=%d probe:%s" % (
                _srt(before), len(getattr(c, "notifiers", [])),
                "err " + S.exc_name(pexc) if pexc is not None else "ok " + _srt(set(c))))
            continue
        # ------------------------------------------------------------ copies
        if k in ("cp", "sw"):
            ck = cmd[1]
            name = KIND_NAME[ck]
            fixed = fixed_on(v, snap)
            try:
                c = make_copy(ts, ck)
            except Exception as e:
                rv = None
                for n_, x_ in enumerate(list(ts)):
                    try:
                        v.pure(n_, x_)
                    except Exception as e2:
                        rv = e2
                        break
                if ck == "d" and not fixed and rv is not None and S.exc_name(rv) == S.exc_name(e):
                    hits.append(_hit(F25, "deepcopy re-validates the members: validator is not the identity on them "
                                     "and the copy raised %s" % S.exc_name(e)))
                else:
                    hits.append(_hit("copy-raises:" + name, "%s of a TraitSet raised %s: %s" % (
                        name, type(e).__name__, str(e)[:120])))
                outs.append("err " + S.exc_name(e))
                continue
            v.reset()
            if isinstance(getattr(c, "item_validator", None), S.Validator):
                c.item_validator.reset()
            if ck == "m":
                tags.add("copy-method-returns-" + type(c).__name__)
                if set(c) != snap:
                    hits.append(_hit("copy-differs:copy-method", "ts.copy() is not equal to ts"))
                outs.append("copy-method")
                continue
            if type(c) is not type(ts):
                hits.append(_hit("copy-type:" + name, "%s gives a %s" % (name, type(c).__name__)))
            if set(c) != snap:
                hits.append(_hit(F25 if ck == "d" and not fixed else "copy-differs:" + name,
                                 "%s is not equal to the original" % name, original=_srt(snap), copied=_srt(set(c))))
            if set(ts) != snap or len(ts.notifiers) != 2:
                hits.append(_hit("copy-disturbs-original:" + name, "the original changed while being copied"))
            if getattr(c, "item_validator", None) != v:
                hits.append(_hit("copy-validator-lost:" + name, "the copy does not carry the validator"))
            if getattr(c, "notifiers", None) != []:
                hits.append(_hit("copy-keeps-notifiers:" + name, "the copy has notifiers %r" % (
                    getattr(c, "notifiers", None),)))
            if calls:
                hits.append(_hit("copy-notifies:" + name, "copying notified the original's notifiers"))
            if k == "sw":
                outs.append("ok %s - -" % _srt(set(c)))
                ts = c
                if isinstance(getattr(c, "item_validator", None), S.Validator):
                    v = c.item_validator
                attach(ts)
                continue
            # probe: the copy still validates
            before = set(c)
            probe = cmd[2]
            try:
                want, wexc = v.pure(0, probe), None
                hash(want)
            except Exception as e:
                want, wexc = None, e
            try:
                c.add(probe)
                pexc = None
            except Exception as e:
                pexc = e
            if wexc is not None:
                if pexc is None or set(c) != before:
                    hits.append(_hit("copy-does-not-validate:" + name,
                                     "%s accepted an item the validator rejects" % name))
                elif S.exc_name(pexc) != S.exc_name(wexc):
                    hits.append(_hit("copy-does-not-validate:" + name, "wrong exception from the copy's add"))
            else:
                if pexc is not None or set(c) != before | {want}:
                    hits.append(_hit("copy-does-not-validate:" + name,
                                     "add on the %s did not store the validated item" % name))
            outs.append("copy %s notifiers=%d probe:%s" % (
                _srt(before), len(getattr(c, "notifiers", [])),
                "err " + S.exc_name(pexc) if pexc is not None else "ok " + _srt(set(c))))
            continue
        # ------------------------------------------------------------ mutators
        exc = ret = None
        try:
            ret = S.apply_op(ts, cmd)
        except Exception as e:
            exc = e.with_traceback(None)        # the traceback's frames would keep the owner alive
        after = set(ts)
        if k == "po":
            resolved[i] = "po " + (S.show_atom(ret[1]) if exc is None else "_")
        try:
            rexc, ref, rret, new_items = reference(snap, cmd, v)
        except Exception as e:
            rexc, ref, rret, new_items = e, snap, None, None
        sigp = ""
        if obj is not None and obj["state"] != "live":
            sigp = "not-validating:%s-trait-value:" % obj["state"]
        if (obj is not None and obj["tv"].needs_owner and obj["val_trait"] and isinstance(exc, AttributeError)
                and (obj["owner"] is None or obj["state"] != "live") and after == snap and not calls):
            tags.add("owner-dependent-trait:rejects-everything-without-owner")
            outs.append("err " + S.exc_name(exc))
            continue
        if exc is not None:
            tags.add("err:" + S.exc_name(exc))
            if after != snap:
                sig = "failed-op-mutated:" + k
                if k == "du" and not calls:
                    sig = F26
                hits.append(_hit(sig, "failing %s changed the set%s" % (k, "" if calls else " and notified nobody"),
                                 before=_srt(snap), after=_srt(after)))
            if calls:
                hits.append(_hit("failed-op-notified:" + k, "failing %s notified" % k))
            if rexc is None:
                hits.append(_hit("spurious-exception:" + k, "%s raised %s where set on validated items succeeds"
                                 % (k, S.exc_name(exc))))
            elif S.exc_name(exc) != S.exc_name(rexc):
                hits.append(_hit("wrong-exception:" + k, "set on validated items raises %s, TraitSet raised %s"
                                 % (S.exc_name(rexc), S.exc_name(exc))))
            outs.append("err " + S.exc_name(exc))
            continue
        if rexc is not None:
            hits.append(_hit(sigp + "missing-exception:" + k, "%s succeeded where set on validated items raises %s"
                             % (k, S.exc_name(rexc))))
        elif k == "po":
            if ret[1] not in snap or after != snap - {ret[1]}:
                hits.append(_hit("contents-differ:po", "pop did not remove exactly the member it returned"))
        else:
            if after != ref:
                f17 = k in ("ix", "sy") and new_items is not None and bool(new_items & snap)
                hits.append(_hit(F24 if f17 else sigp + "contents-differ:" + k,
                                 "contents differ from the builtin set on validated items",
                                 before=_srt(snap), expected=_srt(ref), observed=_srt(after)))
            if (ret is S.Self) != (rret is S.Self):
                hits.append(_hit("return-differs:" + k, "in-place operator did not return the receiver"))
        # notifications
        per = {}
        for c in calls:
            per.setdefault(c[0], []).append(c)
        if any(len(x) > 1 for x in per.values()):
            hits.append(_hit("several-events:" + k, "a notifier was called more than once for one operation"))
        if per and len(per) != 2:
            hits.append(_hit("notifier-skipped:" + k, "only %d of 2 notifiers called" % len(per)))
        if after != snap and not per:
            hits.append(_hit("change-without-event:" + k, "contents changed, nobody notified",
                             before=_srt(snap), after=_srt(after)))
        if after == snap and per:
            hits.append(_hit("event-without-change:" + k, "contents unchanged but notified",
                             before=_srt(snap), event=[_srt(calls[0][1]), _srt(calls[0][2])]))
        for (pos, removed, added, live) in calls:
            tags.add("ev:" + ("r" if removed else "") + ("a" if added else ""))
            why = check_delta(snap, after, removed, added)
            if why is not None:
                hits.append(_hit("delta-law:" + k, "notifier #%d: %s" % (pos, why), before=_srt(snap),
                                 after=_srt(after), removed=_srt(removed), added=_srt(added)))
            if (set(live[0]), set(live[1])) != (removed, added):
                hits.append(_hit("notifier-args-mutated-after-call:" + k,
                                 "the sets handed to notifier #%d were modified after it returned" % pos))
        if obj is not None:
            # the Set trait's own notifier: one <name>_items event per notification while the set is the live
            # value of an alive owner (whatever the owner's truth value), none for copies and orphans
            expect = 1 if (calls and obj["state"] == "live" and obj["owner"] is not None) else 0
            if len(item_events) != expect:
                hits.append(_hit("items-event-count:" + k, "%d '<name>_items' events, expected %d (state %s, owner %s)"
                                 % (len(item_events), expect, obj["state"],
                                    "none" if obj["owner"] is None else ("falsy" if kind == "tof" else "truthy"))))
            for (r_, a_) in item_events:
                why = check_delta(snap, after, r_, a_)
                if why is not None:
                    hits.append(_hit("items-event-law:" + k, "TraitSetEvent: " + why))
        ev = "-"
        if calls:
            ev = "E%s%s" % (_srt(calls[0][1]), _srt(calls[0][2]))
        outs.append("ok %s %s %s" % (_srt(after), S.show_atom(ret[1]) if k == "po" else "-", ev))
    return finish()


def resolve(case):
    """Fill in `po ?` with the member the implementation pops at that point."""
    if "po ?" not in case:
        return case
    try:
        return _run(case, resolving=True)[3]
    except Exception:
        return case.replace("po ?", "po _")


def run_impl(case):
    if case.startswith("#extra"):
        return "extra", [h for h in extra_checks({}) if h.get("case") == case], ["extra"]
    out, hits, tags, _ = _run(case)
    return out, hits, tags


def extra_checks(ctx):
    """The copy clause through a real Set trait (TraitSetObject): deepcopy /
    pickle / copy of `obj.s` and of the whole object keep the members."""
    from traits.api import HasTraits, Set, Int, TraitError
    hits = []

    class A(HasTraits):
        s = Set(Int)

    a = A(s={1, 2, 3})
    for name, f in (("copy", copy.copy), ("deepcopy", copy.deepcopy),
                    ("pickle", lambda x: pickle.loads(pickle.dumps(x)))):
        case = "#extra: Set(Int) trait value, %s" % name
        try:
            c = f(a.s)
        except Exception as e:
            hits.append(_hit("copy-raises:%s-traitsetobject" % name, "%s of a Set(Int) trait value raised %s"
                             % (name, type(e).__name__), case=case, no_shrink=True))
            continue
        if set(c) != {1, 2, 3}:
            hits.append(_hit("copy-differs:%s-traitsetobject" % name, "%s of a Set(Int) trait value is not equal"
                             % name, case=case, no_shrink=True))
        if set(a.s) != {1, 2, 3}:
            hits.append(_hit("copy-disturbs-original:%s-traitsetobject" % name, "original changed", case=case,
                             no_shrink=True))
    return hits
