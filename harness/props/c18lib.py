"""C18 helpers.

* `run_r(case)`: the `R|cfg|ops` reference-ledger protocol on the REAL code
  (twin of Driver/Persist.lean `handleR`), measuring `sys.getrefcount` of every
  pool object after every operation.
* `gen_program` / `run_program`: generated API programs for the runtime tier
  (executed in a subprocess by props/subserver.py, normal or ASan+UBSan build).

Never imports traits at module level.
"""
import gc
import sys

from .seqlib import exc_class, exc_name

POOL = 12          # ids 0..11; 0 = Uninitialized (not tracked), 1..9 values, 10..11 attribute-name objects
NAMES = {10: "x", 11: "y"}
LOOKUP_HASHES = 1  # hash calls has_traits_setattro makes before setattr_trait runs (checked by selftest)


# ============================================================================ R protocol

class _Ctl:
    """Behaviour of the callbacks for the operation in progress."""

    def __init__(self, pool):
        self.pool = pool
        self.reset({})

    def reset(self, kv):
        self.val = kv.get("val", "-")
        self.dflt = kv.get("dflt", "1")
        self.post_fail = self._fail(kv.get("post", "-"))
        self.notify_fail = self._fail(kv.get("notify", "-"))
        self.n_post = 0
        self.n_notify = 0

    @staticmethod
    def _fail(spec):
        if ":" in spec:
            k, e = spec.split(":")
            return int(k), e
        return None

    def validate(self, value):
        from traits.api import TraitError
        w = self.val.split(":")
        if w[0] == "conv":
            return self.pool[int(w[1])]
        if w[0] == "raise":
            raise (TraitError("rejected") if w[1] == "TraitError" else exc_class(w[1])("validator raises"))
        return value

    def default(self):
        w = self.dflt.split(":")
        if w[0] == "raise":
            raise exc_class(w[1])("factory raises")
        return self.pool[int(w[0])]

    def post(self, value):
        n = self.n_post
        self.n_post += 1
        if self.post_fail and self.post_fail[0] == n:
            raise exc_class(self.post_fail[1])("post_setattr raises")

    def notify(self, old, new):
        n = self.n_notify
        self.n_notify += 1
        if self.notify_fail and self.notify_fail[0] == n:
            raise exc_class(self.notify_fail[1])("notifier raises")


def _name_class():
    class N(str):
        """Attribute name whose __hash__ can be made to raise on its k-th call."""
        calls = 0
        fail_at = None

        def __hash__(self):
            N.calls += 1
            if N.fail_at is not None and N.calls == N.fail_at:
                raise RuntimeError("hash raises")
            return str.__hash__(self)

        def __eq__(self, other):
            return str.__eq__(self, other)

        def __ne__(self, other):
            return str.__ne__(self, other)
    return N


def _make_host(cfg, ctl):
    from traits.api import ComparisonMode, HasTraits, TraitType
    from traits.constants import DefaultValue
    ns = {}

    def get_default_value(self):
        return (DefaultValue.callable_and_args, (ctl.default, (), None))
    ns["get_default_value"] = get_default_value
    if "v" in cfg:
        ns["validate"] = lambda self, obj, name, value: ctl.validate(value)
    if "p" in cfg:
        ns["post_setattr"] = lambda self, obj, name, value: ctl.post(value)
    def as_ctrait(self):
        ct = TraitType.as_ctrait(self)
        if "o" in cfg:
            ct.setattr_original_value = True          # TRAIT_SETATTR_ORIGINAL_VALUE (as Expression does)
        if "q" in cfg:
            ct.post_setattr_original_value = True     # TRAIT_POST_SETATTR_ORIGINAL_VALUE (as Supports does)
        return ct
    ns["as_ctrait"] = as_ctrait
    LT = type("LT", (TraitType,), ns)
    md = {}
    if "c" in cfg:
        md["comparison_mode"] = ComparisonMode.none
    H = type(HasTraits)("H", (HasTraits,), {"x": LT(**md), "y": LT(**md)})
    return H


def parse_r_op(op):
    w = op.split()
    kind, name, key = w[0], w[1], int(w[2])
    rest = w[3:]
    v = None
    if kind == "set":
        v = int(rest[0])
        rest = rest[1:]
    kv = dict(x.split("=", 1) for x in rest)
    return kind, name, key, v, kv


def run_r(case):
    """Returns (output_line, hits, tags)."""
    from traits.trait_base import Uninitialized
    _, cfg, ops_s = case.split("|")
    cfg = cfg.strip()

    class V(object):
        __slots__ = ("i", "__weakref__")

        def __init__(self, i):
            self.i = i
    N = _name_class()
    pool = [Uninitialized] + [V(i) for i in range(1, 10)] + [N("x"), N("y")]
    safety = [list(pool), list(pool), list(pool)]   # a stray DECREF must not free what we still look at
    ctl = _Ctl(pool)
    H = _make_host(cfg, ctl)
    obj = H()
    notifier = None
    if "n" in cfg or "l" in cfg:
        lst = obj._notifiers(True)
        if "n" in cfg:
            notifier = lambda o, name, old, new: ctl.notify(old, new)  # noqa: E731
            lst.append(notifier)
        del lst
    ident = dict((id(p), i) for i, p in enumerate(pool))
    gc.collect()
    base = [sys.getrefcount(pool[i]) for i in range(POOL)]   # measured exactly as below (no loop variable)
    nbase = sys.getrefcount(notifier) if notifier is not None else 0
    outs, hits, tags = [], [], set()
    adjust = [0] * POOL
    known_off = [0] * POOL
    for op in [o.strip() for o in ops_s.split(";") if o.strip()]:
        kind, name, key, v, kv = parse_r_op(op)
        ctl.reset(kv)
        tags.add("R:" + kind)
        cls = "ok"
        for k_ in ("hash", "val", "dflt", "post", "notify"):
            if k_ in kv and ("raise" in kv[k_] or k_ in ("hash",) or ":" in kv[k_] and k_ in ("post", "notify")):
                cls = {"hash": "setitem-failure", "val": "validate-raises", "dflt": "factory-raises",
                       "post": "post-raises", "notify": "notify-raises"}[k_]
                break
        tags.add("R:path:" + cls)
        N.calls = 0
        N.fail_at = None
        if "hash" in kv:
            N.fail_at = LOOKUP_HASHES + int(kv["hash"]) + 1
        res = "ok"
        try:
            if kind == "set":
                setattr(obj, pool[key], pool[v])
            elif kind == "get":
                getattr(obj, pool[key])
            else:
                delattr(obj, pool[key])
        except Exception as e:
            res = "err " + exc_name(e)
            del e
        N.fail_at = None
        gc.collect(0)   # nothing here builds cycles (the exception is deleted above); full collection once per case
        d = obj.__dict__
        held = [0] * POOL
        shown = []
        for k_, val in list(d.items()):
            if id(k_) in ident:
                held[ident[id(k_)]] += 1
            if id(val) in ident:
                held[ident[id(val)]] += 1
                shown.append("%s:%d" % (str.__str__(k_), ident[id(val)]))
            else:
                shown.append("%s:?" % str.__str__(k_))
        k_ = val = None   # the loop variables would count as references
        # `adjust` compensates the references this harness gives back (below), so that what is printed is what
        # the code did, cumulatively - the same quantity as the model's held + stray
        refs = [0] + [sys.getrefcount(pool[i]) - base[i] + adjust[i] for i in range(1, POOL)]
        outs.append("%s d={%s} r=[%s]" % (res, ",".join(sorted(shown)), ",".join(map(str, refs))))
        # ---------------- oracle: reference neutrality, from the state alone
        if notifier is not None:
            # call_notifiers works on a copy of the notifier lists; when it returns - normally or because a
            # notifier raised - it owns no reference to any notifier
            ncur = sys.getrefcount(notifier)
            if ncur != nbase:
                hits.append({"signature": "refcount:%sattr-%s:notifier" % (kind, cls),
                             "what": "after `%s` (%s) the notifier has %+d references (its list holds it once, as "
                                     "before)" % (op, res, ncur - nbase)})
                if ncur < nbase:
                    import ctypes
                    for _ in range(nbase - ncur):
                        ctypes.pythonapi.Py_IncRef(ctypes.py_object(notifier))
                else:
                    nbase = ncur
        for i in range(1, POOL):
            off = refs[i] - held[i]
            if off != known_off[i]:
                which = "name" if i >= 10 else "value"
                hits.append({"signature": "refcount:%sattr-%s:%s" % (kind, cls, which),
                             "what": "after `%s` (%s) object #%d has %+d references but obj.__dict__ holds %d" % (
                                 op, res, i, refs[i], held[i])})
                known_off[i] = off
            # A real deficit would free the object while we still hold it (and crash this process at the next
            # collection): give the missing references back.
            deficit = held[i] - (refs[i] - adjust[i])
            if deficit > 0:
                import ctypes
                for _ in range(deficit):
                    ctypes.pythonapi.Py_IncRef(ctypes.py_object(pool[i]))
                adjust[i] -= deficit
    del safety
    return " ; ".join(outs), hits, tags


def selftest_lookup_hashes():
    """The number of hash calls before setattr_trait is what the R generator assumes."""
    from traits.api import Any, HasTraits
    N = _name_class()

    class A(HasTraits):
        x = Any()
    a = A()
    n = N("x")
    N.calls = 0
    setattr(a, n, 1)
    return N.calls - 1   # minus the PyDict_SetItem of setattr_trait


def gen_r(rng):
    flags = "v" if rng.random() < 0.8 else ""
    for f, p in (("o", 0.2), ("q", 0.15), ("p", 0.45), ("c", 0.2)):
        if rng.random() < p:
            flags += f
    r = rng.random()
    if r < 0.45:
        flags += "n"
    elif r < 0.6:
        flags += "l"
    ops = []
    present = set()
    for _ in range(rng.randint(1, 8)):
        name = rng.choice(["x", "x", "y"])
        key = 10 if name == "x" else 11
        r = rng.random()
        if r < 0.65:
            v = rng.randint(1, 6)
            kv = []
            if "v" in flags:
                c = rng.random()
                if c < 0.25:
                    kv.append("val=conv:%d" % rng.randint(1, 8))
                elif c < 0.4:
                    kv.append("val=raise:%s" % rng.choice(["TraitError", "ValueError", "RuntimeError"]))
            kv.append("dflt=%s" % (rng.choice(["9", "9", "8", "7"]) if rng.random() < 0.85 else "raise:" +
                                   rng.choice(["ValueError", "RuntimeError"])))
            if "p" in flags and rng.random() < 0.3:
                kv.append("post=%d:%s" % (rng.randint(0, 1), rng.choice(["ValueError", "TraitError"])))
            if "n" in flags and rng.random() < 0.25:
                kv.append("notify=0:%s" % rng.choice(["ValueError", "RuntimeError"]))
            if rng.random() < 0.15:
                kv.append("hash=%d" % rng.randint(0, 2))
            ops.append("set %s %d %d %s" % (name, key, v, " ".join(kv)))
        elif r < 0.82:
            kv = ["dflt=%s" % (rng.choice(["9", "8"]) if rng.random() < 0.85 else "raise:ValueError")]
            if "p" in flags and rng.random() < 0.25:
                kv.append("post=0:ValueError")
            if "n" in flags and rng.random() < 0.2:
                kv.append("notify=0:RuntimeError")
            ops.append("get %s %d %s" % (name, key, " ".join(kv)))
        else:
            kv = ["dflt=%s" % (rng.choice(["9", "8"]) if rng.random() < 0.85 else "raise:ValueError")]
            if "p" in flags and rng.random() < 0.25:
                kv.append("post=%d:ValueError" % rng.randint(0, 1))
            if "n" in flags and rng.random() < 0.25:
                kv.append("notify=%d:RuntimeError" % rng.randint(0, 1))
            ops.append("del %s %d %s" % (name, key, " ".join(kv)))
    return "R|%s|%s" % (flags, ";".join(ops))


def exhaustive_r():
    """Every single operation x flag subset x callback outcome, from the two
    interesting start states (slot absent / slot present)."""
    out = []
    for flags in ("", "v", "vp", "vn", "vpn", "vo", "vpq", "vc", "vcn", "vl", "vpl", "vpnoqc", "pn"):
        pre = ["", "set x 10 1 dflt=9"]
        for p in pre:
            head = (p + ";") if p else ""
            for val in ("", "val=conv:6", "val=raise:TraitError"):
                if val and "v" not in flags:
                    continue
                for dflt in ("dflt=9", "dflt=raise:ValueError"):
                    for post in ([""] + (["post=0:ValueError", "post=1:ValueError"] if "p" in flags else [])):
                        for noti in ([""] + (["notify=0:RuntimeError"] if "n" in flags else [])):
                            for h in ("", "hash=0", "hash=1", "hash=2"):
                                out.append("R|%s|%sset x 10 2 %s" % (flags, head, " ".join(
                                    x for x in (val, dflt, post, noti, h) if x)))
            for dflt in ("dflt=9", "dflt=raise:ValueError"):
                for post in ([""] + (["post=0:ValueError", "post=1:ValueError"] if "p" in flags else [])):
                    for noti in ([""] + (["notify=0:RuntimeError", "notify=1:RuntimeError"] if "n" in flags else [])):
                        tail = " ".join(x for x in (dflt, post, noti) if x)
                        out.append("R|%s|%sget x 10 %s" % (flags, head, tail))
                        out.append("R|%s|%sdel x 10 %s" % (flags, head, tail))
    return out


# ============================================================================ U: the tuple validator rebuilds its result

def run_u(case):
    """`U|behaviours|items|path`: twin of Driver `handleU` on a real Tuple trait."""
    import ctypes
    import traits.api as T
    from traits.api import TraitError
    parts = case.split("|")
    behs, items = parts[1].split(), [int(x) for x in parts[2].split()]
    path = parts[3].strip() if len(parts) > 3 else "v"

    class V(object):
        __slots__ = ("i", "__weakref__")

        def __init__(self, i):
            self.i = i
    pool = [None] + [V(i) for i in range(1, 10)]
    keep = [list(pool) for _ in range(3)]
    ident = dict((id(pool[i]), i) for i in range(1, 10))

    def mk(b):
        if b == "n":
            return T.Any()
        if b == "s":
            f = lambda self, o, n, v: v                                    # noqa: E731
        elif b.startswith("c"):
            f = lambda self, o, n, v, k=int(b[1:]): pool[k]                # noqa: E731
        else:
            def f(self, o, n, v, e=b[1:]):
                raise (TraitError("rejected") if e == "TraitError" else exc_class(e)("element validator raises"))
        return type("EL", (T.TraitType,), {"validate": f})()
    cls = type(T.HasTraits)("UHost", (T.HasTraits,), {"q": T.Tuple(*[mk(b) for b in behs])})
    h = cls()
    ct = h.trait("q")
    value = tuple(pool[i] for i in items)
    gc.collect()
    base = [0] + [sys.getrefcount(pool[i]) for i in range(1, 10)]
    res, r = "ok", None
    try:
        if path == "s":
            h.q = value
            r = h.__dict__["q"]
        else:
            r = ct.validate(h, "q", value)
    except Exception as e:
        res = "err " + exc_name(e)
        del e
    deltas = [sys.getrefcount(pool[i]) - base[i] for i in range(1, 10)]
    hits = []
    if res == "ok":
        if r is value:
            head, expect, cls_ = "same", [0] * 9, "same"
        else:
            ids = [ident.get(id(x), 0) for x in r]
            head = "new [" + ",".join(map(str, ids)) + "]"
            expect = [ids.count(i) for i in range(1, 10)]
            conv = [i for i, (a, b) in enumerate(zip(r, value)) if a is not b]
            cls_ = "conversion-at-%d" % conv[0] if conv else "new"
    else:
        head, expect, cls_ = res, [0] * 9, "raises"
    out = "%s r=[%s]" % (head, ",".join(map(str, deltas)))
    # ---------------- oracle: the result owns one reference per slot, nothing else changed
    if deltas != expect:
        hits.append({"signature": "refcount:tuple-rebuild:%s:%s" % (path, cls_),
                     "what": "Tuple(%s) given items %s (%s): reference changes %s, the result's slots account for %s" % (
                         " ".join(behs), items, head, deltas, expect)})
    # give back what is missing before anything is freed (a deficit would free objects we still use)
    for i in range(1, 10):
        for _ in range(max(0, expect[i - 1] - deltas[i - 1])):
            ctypes.pythonapi.Py_IncRef(ctypes.py_object(pool[i]))
            base[i] += 1
    r = None
    if path == "s":
        try:
            del h.q
        except Exception:
            pass
    gc.collect()
    after = [sys.getrefcount(pool[i]) - base[i] for i in range(1, 10)]
    if any(after) and not hits:
        hits.append({"signature": "refcount:tuple-release:%s:%s" % (path, cls_),
                     "what": "after the result of Tuple(%s) on %s was released, counts are off by %s" % (
                         " ".join(behs), items, after)})
    for i in range(1, 10):
        for _ in range(max(0, -after[i - 1])):
            ctypes.pythonapi.Py_IncRef(ctypes.py_object(pool[i]))
    del keep
    return out, hits, ["U:" + path, "U:" + cls_]


def gen_u(rng=None, n=0):
    import itertools
    out = []
    behs = ["n", "s", "c9", "c8", "rTraitError", "rValueError"]
    for size in (1, 2, 3):
        for bs in itertools.product(behs, repeat=size):
            if sum(1 for b in bs if b.startswith("r")) > 1:
                continue
            for items in ([1, 2, 3][:size], [1, 1, 1][:size], [9, 2, 9][:size]):
                for path in ("v", "s"):
                    out.append("U|%s|%s|%s" % (" ".join(bs), " ".join(map(str, items)), path))
    for bs, items in (("s s s c7", "1 2 3 4"), ("n n n n c7 s c6", "1 2 3 4 5 5 1"), ("s c2 s s", "1 2 3 4"),
                      ("s s", "1 2 3"), ("s s s", "1 2")):
        for path in ("v", "s"):
            out.append("U|%s|%s|%s" % (bs, items, path))
    for _ in range(n):
        size = rng.randint(1, 6)
        bs = [rng.choice(behs[:4] + ["s", "s", "n"]) for _ in range(size)]
        if rng.random() < 0.2:
            bs[rng.randrange(size)] = rng.choice(["rTraitError", "rValueError"])
        out.append("U|%s|%s|%s" % (" ".join(bs), " ".join(str(rng.randint(1, 9)) for _ in range(size)),
                                   rng.choice("vs")))
    return out


# ============================================================================ V: validation is reference-neutral

V_TRAITS = ["Int", "Float", "Str", "CInt", "CFloat", "CStr", "Bool", "Complex", "Bytes", "Any", "Range(0,9)",
            "Range(0.0,1.0)", "Range(0.0,1.0,excl)", "Range(low=1)", "Enum(1,2,3)", "Either(Int,Str)",
            "Either(None,Int)", "Either(Range,List)", "Either(Range,Float)", "Either(Range,Str)",
            "Either(Float-Range,CInt)", "Either(Range,Range)", "Union(Int,Str)", "Union(None,Float)",
            "Union(Range,Float)", "Either(Str,Range,Instance)", "Either(CFloat,Str)", "Either(Enum,Range,Tuple)",
            "Tuple(Int,Str)", "Tuple(Float,Range)", "Tuple(Any,Any,Float)", "Either(Str,Tuple(Any,Float))",
            "Tuple(Any,Tuple(Any,Float))", "List(Tuple(Any,Float))", "Tuple(Any,CInt,Any,CFloat)",
            "Dict(Str,Tuple(Any,Float))", "Either(Tuple(Any,Float),Tuple(Any,Any,Float))", "Tuple(Any,Range-int)", "List(Int)", "List(Either(Range,Float))", "Set(Int)",
            "Dict(Str,Int)", "Dict(Str,Either(Range,Str))", "Map", "PrefixList", "Instance(Cls)", "Callable",
            "String(maxlen)", "Trait(0,Range)", "Trait(None,Int)", "Type", "TraitType-python-validate"]
V_VALUES = ["t_conv2", "t_conv3", "t_conv4", "t_nested", "l_tconv", "d_tconv", "f5.5", "f0.5", "f-3.25", "fnan", "i_big", "i_mid", "s_dyn", "s_num", "obj", "list", "flist", "tuple",
            "ftuple", "dict", "fdict", "bytes", "cplx", "set"]


def v_trait(name):
    import traits.api as T
    from .subserver import ct_catalog
    extra = {
        "Either(Range,Float)": lambda: T.Either(T.Range(0.0, 1.0), T.Float),
        "Either(Range,Str)": lambda: T.Either(T.Range(0.0, 1.0), T.Str),
        "Either(Float-Range,CInt)": lambda: T.Either(T.Range(-1.0, 1.0, exclude_high=True), T.CInt),
        "Either(Range,Range)": lambda: T.Either(T.Range(0.0, 1.0), T.Range(2.0, 3.0), T.Range(0, 9)),
        "Union(Range,Float)": lambda: T.Union(T.Range(0.0, 1.0), T.Float),
        "Either(Str,Range,Instance)": lambda: T.Either(T.Str, T.Range(0.0, 1.0), T.Instance(T.HasTraits)),
        "Either(CFloat,Str)": lambda: T.Either(T.CFloat, T.Str),
        "Either(Enum,Range,Tuple)": lambda: T.Either(T.Enum(1, 2), T.Range(0.0, 1.0), T.Tuple(T.Float, T.Float)),
        "Tuple(Float,Range)": lambda: T.Tuple(T.Float, T.Range(0.0, 1.0)),
        "List(Either(Range,Float))": lambda: T.List(T.Either(T.Range(0.0, 1.0), T.Float)),
        "Dict(Str,Either(Range,Str))": lambda: T.Dict(T.Str, T.Either(T.Range(0.0, 1.0), T.Str)),
        "Tuple(Any,Any,Float)": lambda: T.Tuple(T.Any, T.Any, T.Float),
        "Either(Str,Tuple(Any,Float))": lambda: T.Either(T.Str, T.Tuple(T.Any, T.Float)),
        "Tuple(Any,Tuple(Any,Float))": lambda: T.Tuple(T.Any, T.Tuple(T.Any, T.Float)),
        "List(Tuple(Any,Float))": lambda: T.List(T.Tuple(T.Any, T.Float)),
        "Tuple(Any,CInt,Any,CFloat)": lambda: T.Tuple(T.Any, T.CInt, T.Any, T.CFloat),
        "Dict(Str,Tuple(Any,Float))": lambda: T.Dict(T.Str, T.Tuple(T.Any, T.Float)),
        "Either(Tuple(Any,Float),Tuple(Any,Any,Float))": lambda: T.Either(T.Tuple(T.Any, T.Float),
                                                                           T.Tuple(T.Any, T.Any, T.Float)),
        "Tuple(Any,Range-int)": lambda: T.Tuple(T.Any, T.Range(0.0, 1e12)),
    }
    if name in extra:
        return extra[name]()
    cat, _, _ = ct_catalog()
    tr = cat[name]()
    return tr() if isinstance(tr, type) else tr


def v_value(name):
    """A FRESH, mortal object every time (never an interned / cached constant)."""
    big = int("12345678901")

    class Tok(object):
        pass
    return {
        # tuples whose LAST / middle element is converted by its element trait (int -> float, str -> int)
        "t_conv2": lambda: (Tok(), int("12345678903")),
        "t_conv3": lambda: (Tok(), "".join(["x", "y"]), int("12345678904")),
        "t_conv4": lambda: (Tok(), "".join(["4", "2"]), Tok(), int("12345678905")),
        "t_nested": lambda: (Tok(), (Tok(), int("12345678906"))),
        "l_tconv": lambda: [(Tok(), int("12345678907")), (Tok(), float("1.5"))],
        "d_tconv": lambda: {"".join(["k", "3"]): (Tok(), int("12345678908"))},
        "f5.5": lambda: float("5.5"), "f0.5": lambda: float("0.5"), "f-3.25": lambda: float("-3.25"),
        "fnan": lambda: float("nan"), "i_big": lambda: int("12345678901"), "i_mid": lambda: int("1000003"),
        "s_dyn": lambda: "".join(["ab", "cd"]), "s_num": lambda: "".join(["1", "2", "3"]), "obj": lambda: object(),
        "list": lambda: [big, 2], "flist": lambda: [float("5.5"), float("0.25")],
        "tuple": lambda: (int("12345678902"), "".join(["x", "y"])), "ftuple": lambda: (float("2.5"), float("7.5")),
        "dict": lambda: {"".join(["k", "1"]): big}, "fdict": lambda: {"".join(["k", "2"]): float("5.5")},
        "bytes": lambda: bytes([65, 66, 67]), "cplx": lambda: complex("1+2j"), "set": lambda: {big, 3},
    }[name]()


_VCLS = {}


def run_v(case):
    """`#V <trait> | <value> | <path>`: repeat an assignment (or CTrait.validate) and compare the reference count
    of the value passed in with the references the object's __dict__ legitimately holds."""
    import traits.api as T
    _, rest = case.split(" ", 1)
    tname, vname, path = [x.strip() for x in rest.split("|")]
    if tname not in _VCLS:
        try:
            _VCLS[tname] = type(T.HasTraits)("VHost", (T.HasTraits,), {"q": v_trait(tname)})
        except Exception as e:
            _VCLS[tname] = "cannot build: " + exc_name(e)
    cls = _VCLS[tname]
    if isinstance(cls, str):
        return "skip " + cls, [], ["V:skip"]
    h = cls()
    v = v_value(vname)
    if sys.getrefcount(v) >= 2 ** 30:
        return "skip immortal value", [], ["V:skip"]
    leaves = []

    def collect(x, depth=0):
        if isinstance(x, (list, tuple, set)) and depth < 4:
            for y in x:
                collect(y, depth + 1)
        elif isinstance(x, dict) and depth < 4:
            for y in x.values():
                collect(y, depth + 1)
        elif sys.getrefcount(x) < 2 ** 30 and not any(x is l for l in leaves):
            leaves.append(x)
    if isinstance(v, (list, tuple, dict, set)):
        collect(v)
    keep = [list(leaves) for _ in range(3)]   # an over-release must not free what we still look at

    own = set()

    def subcontainers(x, depth=0):
        if isinstance(x, (list, tuple, set, dict)) and depth < 5:
            own.add(id(x))
            for y in (x.values() if isinstance(x, dict) else x):
                subcontainers(y, depth + 1)
    subcontainers(v)

    def occurrences(x, leaf, depth=0):
        if x is leaf:
            return 1
        if id(x) in own:
            return 0    # a container of the value itself, passed through unchanged: its slots are in the baseline
        if isinstance(x, (list, tuple, set)) and depth < 5:
            return sum(occurrences(y, leaf, depth + 1) for y in x)
        if isinstance(x, dict) and depth < 5:
            return sum(occurrences(y, leaf, depth + 1) for y in x.values())
        return 0
    hits, outs = [], []
    ct = h.trait("q")
    gc.collect()
    base = sys.getrefcount(v)
    lbase = [sys.getrefcount(leaves[i]) for i in range(len(leaves))]
    first_leaf = None
    for rep in range(4):
        res = "ok"
        try:
            if path == "set":
                h.q = v
            else:
                r = ct.validate(h, "q", v)
                r = None
        except Exception as e:
            res = exc_name(e)
            del e
        stored = h.__dict__.get("q")
        held = 1 if stored is v else 0
        stored = None
        if leaves:
            gc.collect()   # a replaced Trait*Object is a reference cycle (its notifier is a bound method of itself)
        cur = sys.getrefcount(v)
        outs.append(res)
        if cur - base != held:
            hits.append({"signature": "refcount:validate:%s:%s-%s" % (tname, path, "ok" if res == "ok" else "raises"),
                         "what": "%s of a fresh %s to %s, repetition %d (%s): the value has %+d references, the "
                                 "object holds %d" % ("assignment" if path == "set" else "CTrait.validate", vname,
                                                      tname, rep + 1, res, cur - base, held)})
            break
        # items of a container value: each is referenced once more per slot of the STORED value that holds it
        # (the stored value is usually a new container: a rebuilt tuple, a Trait*Object), and not at all when only
        # CTrait.validate ran and its result was dropped
        stored = h.__dict__.get("q") if path == "set" else None
        want = [0 if stored is v else occurrences(stored, leaves[i]) for i in range(len(leaves))]
        stored = None
        lcur = [sys.getrefcount(leaves[i]) - lbase[i] for i in range(len(leaves))]
        if lcur != want:
            hits.append({"signature": "refcount:validate-items:%s:%s-%s" % (tname, path, "ok" if res == "ok" else "raises"),
                         "what": "%s of a %s to %s, repetition %d (%s): its items have %r more references, the stored "
                                 "value's slots account for %r" % (path, vname, tname, rep + 1, res, lcur, want)})
            import ctypes
            for i in range(len(leaves)):
                for _ in range(max(0, want[i] - lcur[i])):
                    ctypes.pythonapi.Py_IncRef(ctypes.py_object(leaves[i]))
            break
    del keep
    return " ".join(outs), hits, ["V:" + path, "V:" + ("ok" if outs and outs[-1] == "ok" else "raises")]


def gen_v(exhaustive, rng=None, n=0):
    out = []
    if exhaustive:
        for t in V_TRAITS:
            for v in V_VALUES:
                for path in ("set", "validate"):
                    out.append("#V %s | %s | %s" % (t, v, path))
    return out


# ============================================================================ programs (runtime tier)

FAMILIES = ["attr-history", "handler-mutation", "fault-injection", "add-remove-trait", "persist", "containers",
            "delegate-property", "raw-ctrait", "name-hash"]

VALUES = [0, 1, -7, 2 ** 70, 1.5, "a", "", None, True, "bad", [1], [1, "x"], {"a": 1}, {1, 2}, (1, 2), b"b"]


def gen_program(rng, family=None):
    fam = family or rng.choice(FAMILIES[:7] if rng.random() < 0.93 else FAMILIES)
    traits = {"i": "int", "a": "any", "l": "list_int", "s": "str"}
    steps = [["new", "o"]]
    names = ["i", "a", "l", "s"]

    def val():
        # 20..22: tracked objects (reference count checked at the end); 10, 11: fresh lists
        return rng.choice(list(range(len(VALUES))) + [20, 21, 22, 20, 10, 11])

    def rnd_attr_op(o="o"):
        n = rng.choice(names)
        r = rng.random()
        if r < 0.5:
            return ["set", o, n, val()]
        if r < 0.75:
            return ["get", o, n]
        if r < 0.9:
            return ["del", o, n]
        return ["gc"]
    if fam == "attr-history":
        traits.update({"r": "readonly", "e": "event", "d": "dict", "t": "set", "rg": "range", "m": "map",
                       "inst": "instance", "c": "cint", "en": "enum", "tu": "tuple", "dis": "disallow", "k": "constant"})
        names += ["r", "e", "d", "t", "rg", "m", "inst", "c", "en", "tu", "dis", "k", "undeclared", "_private"]
        for _ in range(rng.randint(5, 25)):
            steps.append(rnd_attr_op())
    elif fam == "handler-mutation":
        nh = rng.randint(1, 3)
        handlers = {}
        for h in range(nh):
            acts = []
            for _ in range(rng.randint(1, 3)):
                r = rng.random()
                n = rng.choice(names)
                if r < 0.2:
                    acts.append(["del", "o", n])
                elif r < 0.4:
                    acts.append(["set", "o", n, val()])
                elif r < 0.55:
                    acts.append(["rm_self"])
                elif r < 0.7:
                    acts.append(["add", rng.randrange(nh), rng.choice(names + ["anytrait"])])
                elif r < 0.8:
                    acts.append(["raise", rng.choice(["ValueError", "TraitError", "RuntimeError"])])
                elif r < 0.9:
                    acts.append(["gc"])
                else:
                    acts.append(["rm_other", rng.randrange(nh)])
            handlers[str(h)] = acts
        steps.append(["handlers", handlers, rng.randint(1, 3)])
        for h in range(nh):
            kind = rng.choice(["otc", "otc", "observe", "anytrait", "static"])
            steps.append([kind, "o", rng.choice(names), h])
        for _ in range(rng.randint(4, 16)):
            steps.append(rnd_attr_op())
            if rng.random() < 0.1:
                steps.append(["otc_rm", "o", rng.choice(names), rng.randrange(nh)])
            if rng.random() < 0.1:
                steps.append(["listop", "o", "l", rng.choice(["append", "pop", "clear", "extend", "setslice", "sort"]),
                              val()])
    elif fam == "fault-injection":
        k = rng.randint(0, 4)
        exc = rng.choice(["TraitError", "ValueError", "AttributeError", "RuntimeError", "KeyError"])
        traits.update({"fv": ["failing_validator", k, exc], "fd": ["failing_default", rng.randint(0, 2), exc],
                       "fp": ["failing_post", rng.randint(0, 3), exc], "lf": ["list_failing", k, exc],
                       "fprop": ["failing_property", rng.randint(0, 3), exc],
                       "ff": ["failing_factory", rng.randint(0, 1), exc]})
        names += ["fv", "fd", "fp", "lf", "fprop", "ff"]
        steps.append(["handlers", {"0": [["raise", exc]], "1": []}, 2])
        if rng.random() < 0.5:
            steps.append(["otc", "o", rng.choice(names), 0])
        if rng.random() < 0.5:
            steps.append(["observe", "o", rng.choice(names), 1])
        if rng.random() < 0.3:
            steps.append(["reraise", True])
        for _ in range(rng.randint(5, 20)):
            steps.append(rnd_attr_op())
            if rng.random() < 0.15:
                steps.append(["listop", "o", "lf", rng.choice(["append", "extend", "setslice", "insert"]), val()])
    elif fam == "add-remove-trait":
        steps.append(["handlers", {"0": [], "1": [["del", "o", "dyn"]]}, 2])
        for _ in range(rng.randint(5, 20)):
            r = rng.random()
            if r < 0.3:
                steps.append(["add_trait", "o", rng.choice(["dyn", "dyn2", "i", "a"]),
                              rng.choice(["int", "any", "list_int", "str", "readonly", "event", "instance"])])
            elif r < 0.5:
                steps.append(["remove_trait", "o", rng.choice(["dyn", "dyn2", "i", "nope"])])
            elif r < 0.6:
                steps.append(["otc", "o", rng.choice(["dyn", "dyn2", "i"]), rng.randint(0, 1)])
            elif r < 0.65:
                steps.append(["new", "o"])
            else:
                n = rng.choice(["dyn", "dyn2", "i", "a", "l"])
                steps.append(rng.choice([["set", "o", n, val()], ["get", "o", n], ["del", "o", n], ["gc"]]))
    elif fam == "persist":
        traits.update({"p": "vprop", "d": "dict", "t": "set", "inst": "instance", "r": "readonly", "dl": "delegate",
                       "rg": "range", "m": "map"})
        names += ["p", "d", "t", "inst", "r", "dl", "rg", "m"]
        for _ in range(rng.randint(2, 8)):
            steps.append(rnd_attr_op())
        objs = ["o"]
        for j in range(rng.randint(1, 5)):
            r = rng.random()
            src = rng.choice(objs)
            dst = "c%d" % j
            if r < 0.35:
                steps.append(["pickle", src, rng.randint(0, 5), dst])
                objs.append(dst)
            elif r < 0.5:
                steps.append(["deepcopy", src, dst])
                objs.append(dst)
            elif r < 0.6:
                steps.append(["copy", src, dst])
                objs.append(dst)
            elif r < 0.75:
                steps.append(["clone", src, rng.choice([None, "shallow", "deep"]), dst])
                objs.append(dst)
            else:
                steps.append(["ct_roundtrip", src, rng.choice(names), rng.choice(["getstate", "pickle", "deepcopy",
                                                                                   "copy"])])
            if rng.random() < 0.4:
                steps.append(["gc"])
            for _ in range(rng.randint(0, 3)):
                steps.append(rnd_attr_op(rng.choice(objs)))
    elif fam == "containers":
        traits.update({"ll": "list_list", "d": "dict_list", "t": "set"})
        steps.append(["handlers", {"0": [["listop", "o", "l", "clear", 0]], "1": [["set", "o", "l", 10]]}, 1])
        if rng.random() < 0.6:
            steps.append(["otc", "o", "l_items", rng.randint(0, 1)])
        if rng.random() < 0.4:
            steps.append(["observe", "o", "l.items", rng.randint(0, 1)])
        for _ in range(rng.randint(5, 20)):
            steps.append(["listop", "o", rng.choice(["l", "l", "ll"]),
                          rng.choice(["append", "pop", "clear", "extend", "setslice", "sort", "insert", "imul",
                                      "delslice", "reverse", "remove"]), val()])
            if rng.random() < 0.15:
                steps.append(["set", "o", "l", rng.choice([10, 11, val()])])
            if rng.random() < 0.1:
                steps.append(["gc"])
    elif fam == "delegate-property":
        traits.update({"dl": "delegate", "dm": "delegate_modify", "pr": "prototype", "p": "vprop",
                       "cp": "cached_prop", "inst": "instance"})
        names += ["dl", "dm", "pr", "p", "cp", "inst"]
        steps.append(["handlers", {"0": [], "1": [["set", "o", "inst", None]]}, 1])
        steps.append(["otc", "o", rng.choice(["dl", "dm", "p", "cp"]), rng.randint(0, 1)])
        for _ in range(rng.randint(5, 20)):
            r = rng.random()
            if r < 0.15:
                steps.append(["set_delegate", "o", rng.choice([True, False])])
            elif r < 0.25:
                steps.append(["set", "o", "inst", None])
            else:
                steps.append(rnd_attr_op())
    elif fam == "raw-ctrait":
        kind = rng.randint(-1, 10)
        prep = rng.choice(["bare", "bare", "delegate", "default", "property", "property-post-none", "validate",
                           "default-type"])
        steps.append(["raw_ctrait", kind, prep, rng.randint(0, 11), rng.choice(["get", "set", "del", "getstate",
                                                                              "pickle", "all"])])
    elif fam == "name-hash":
        steps.append(["hashname", "o", rng.choice(["i", "a", "l"]), rng.randint(1, 6), val(),
                      rng.choice(["set", "get", "del"])])
        steps.append(["gc"])
    steps.append(["gc"])
    return {"family": fam, "traits": traits, "steps": steps}


def program_signature(prog):
    fam = prog["family"]
    if fam == "raw-ctrait":
        st = [s for s in prog["steps"] if s[0] == "raw_ctrait"][0]
        kind, prep = st[1], st[2]
        # by root cause: which field the installed handler dereferences was never filled
        if prep == "property-post-none":
            return "raw-ctrait:validated-property-post-setattr-none"
        if kind == 3 and prep not in ("delegate", "property"):
            return "raw-ctrait:delegate-kind-without-delegate"
        if kind == 7 and prep not in ("default", "default-type", "property"):
            return "raw-ctrait:constant-kind-without-default"
        if prep in ("default", "default-type") and st[3] in (5, 6, 9):
            return "raw-ctrait:container-default-without-handler"
        return "raw-ctrait:%s:kind%s" % (prep, kind)
    if fam == "name-hash":
        return "name-hash:setattr-setitem-failure"
    return fam


def _mk_value(i, track):
    v = VALUES[i % len(VALUES)] if isinstance(i, int) and i < 100 else i
    if isinstance(v, (list, dict, set)):
        return type(v)(v)
    if i == 10:
        return [1, 2, 3]
    if i == 11:
        return []
    return v


def run_program(prog):
    """Interpreter (child process).  Every API call is wrapped; the trace of
    exception classes comes back; a crash never comes back."""
    import copy
    import pickle
    import traits.api as T
    from traits.api import TraitError
    from traits.ctrait import CTrait
    from traits.constants import DefaultValue
    trace = []
    counters = {}

    def failing(kind, k, exc):
        key = (kind, len(counters))
        counters[key] = 0

        def maybe():
            n = counters[key]
            counters[key] = n + 1
            if n == k:
                raise (TraitError("injected") if exc == "TraitError" else exc_class(exc)("injected"))
        return maybe

    class Other(T.HasTraits):
        dl = T.Int(3)
        dm = T.Int(4)
        pr = T.List(T.Int, [1])
        v = T.Int()

    def mk_trait(spec):
        if isinstance(spec, list):
            kind, k, exc = spec
            m = failing(kind, k, exc)
            if kind == "failing_validator":
                class FV(T.TraitType):
                    default_value = 0

                    def validate(self, o, n, v):
                        m()
                        return v
                return FV()
            if kind == "failing_default":
                class FD(T.TraitType):
                    def get_default_value(self):
                        return (DefaultValue.callable_and_args, ((lambda: (m(), 5)[1]), (), None))
                return FD()
            if kind == "failing_factory":
                return T.Instance(Other, factory=lambda: (m(), Other())[1], args=())
            if kind == "failing_post":
                class FP(T.TraitType):
                    default_value = 0

                    def post_setattr(self, o, n, v):
                        m()
                return FP()
            if kind == "list_failing":
                class FI(T.TraitType):
                    default_value = 0

                    def validate(self, o, n, v):
                        m()
                        return v
                return T.List(FI())
            if kind == "failing_property":
                return T.Property(T.Int)
        return {
            "int": lambda: T.Int(), "any": lambda: T.Any(), "list_int": lambda: T.List(T.Int), "str": lambda: T.Str(),
            "readonly": lambda: T.ReadOnly, "event": lambda: T.Event(T.Int), "dict": lambda: T.Dict(T.Str, T.Int),
            "set": lambda: T.Set(T.Int), "range": lambda: T.Range(0.0, 1.0), "map": lambda: T.Map({"a": 1, "bad": 2}),
            "instance": lambda: T.Instance(Other), "cint": lambda: T.CInt(), "enum": lambda: T.Enum(1, "a", None),
            "tuple": lambda: T.Tuple(T.Int, T.Int), "disallow": lambda: T.Disallow, "constant": lambda: T.Constant(3),
            "vprop": lambda: T.Property(T.Int), "delegate": lambda: T.DelegatesTo("inst"),
            "delegate_modify": lambda: T.Delegate("inst", modify=True), "prototype": lambda: T.PrototypedFrom("inst"),
            "cached_prop": lambda: T.Property(T.Int, observe="i"), "list_list": lambda: T.List(T.List(T.Int)),
            "dict_list": lambda: T.Dict(T.Str, T.List(T.Int)),
        }[spec]()
    ns = {"__module__": "props.c18lib"}
    inj = {}
    for name, spec in prog["traits"].items():
        ns[name] = mk_trait(spec)
        if spec in ("vprop",) or (isinstance(spec, list) and spec[0] == "failing_property"):
            sh = "_%s_shadow" % name
            ns[sh] = T.Any(0, transient=True)
            m = failing(*spec) if isinstance(spec, list) else (lambda: None)
            ns["_get_" + name] = (lambda sh_, m_: (lambda self: (m_(), getattr(self, sh_))[1]))(sh, m)
            ns["_set_" + name] = (lambda sh_, m_: (lambda self, v: (m_(), setattr(self, sh_, v))[1]))(sh, m)
        if spec == "cached_prop":
            ns["_get_" + name] = T.cached_property(lambda self: self.i * 2)
    if "inst" not in ns and any(s in ("delegate", "delegate_modify", "prototype") for s in prog["traits"].values()):
        ns["inst"] = T.Instance(Other)
    cls = type(T.HasTraits)("Prog", (T.HasTraits,), ns)
    setattr(sys.modules["props.c18lib"], "Prog", cls)
    setattr(sys.modules["props.c18lib"], "Other", Other)
    Other.__module__ = "props.c18lib"
    Other.__qualname__ = "Other"
    objs = {}
    handlers = {}
    hfuncs = {}
    registered = []
    budget = [0]

    class Tracked(object):
        """values whose reference count must be back at baseline at the end"""
    tracked = [Tracked() for _ in range(3)]

    def value(i):
        if isinstance(i, int) and 20 <= i < 23:
            return tracked[i - 20]
        return _mk_value(i, tracked)

    def call(label, f):
        try:
            f()
            trace.append(label + ":ok")
        except BaseException as e:
            if isinstance(e, (KeyboardInterrupt, SystemExit, MemoryError)):
                raise
            trace.append(label + ":" + exc_name(e))

    def run_actions(hid, obj_name):
        if budget[0] <= 0:
            return
        budget[0] -= 1
        for act in handlers.get(str(hid), []):
            a = act[0]
            if a == "raise":
                raise (TraitError("h") if act[1] == "TraitError" else exc_class(act[1])("handler raises"))
            elif a == "del":
                call("h.del", lambda: delattr(objs[act[1]], act[2]))
            elif a == "set":
                call("h.set", lambda: setattr(objs[act[1]], act[2], value(act[3])))
            elif a == "rm_self":
                for (kind, o, n, h) in list(registered):
                    if h == hid:
                        unregister(kind, o, n, h)
            elif a == "rm_other":
                for (kind, o, n, h) in list(registered):
                    if h == act[1]:
                        unregister(kind, o, n, h)
            elif a == "add":
                register("otc", "o", act[2], act[1])
            elif a == "gc":
                gc.collect()
            elif a == "listop":
                do_listop(act[1], act[2], act[3], act[4])

    def hfunc(hid):
        if hid not in hfuncs:
            def h(*args):
                run_actions(hid, "o")

            def ho(event):
                run_actions(hid, "o")
            hfuncs[hid] = (h, ho)
        return hfuncs[hid]

    def register(kind, o, n, hid):
        if o not in objs:
            return
        h, ho = hfunc(hid)
        if kind == "otc":
            call("otc", lambda: objs[o].on_trait_change(h, n if n != "anytrait" else None))
        elif kind == "anytrait":
            call("anytrait", lambda: objs[o].on_trait_change(h))
        elif kind == "observe":
            call("observe", lambda: objs[o].observe(ho, n))
        elif kind == "static":
            call("static", lambda: objs[o]._notifiers(True).append(lambda ob, na, ol, ne: run_actions(hid, o)))
            return
        registered.append((kind, o, n, hid))

    def unregister(kind, o, n, hid):
        h, ho = hfunc(hid)
        if (kind, o, n, hid) in registered:
            registered.remove((kind, o, n, hid))
        if o not in objs:
            return
        if kind == "observe":
            call("unobserve", lambda: objs[o].observe(ho, n, remove=True))
        else:
            call("otc_rm", lambda: objs[o].on_trait_change(h, n if kind == "otc" and n != "anytrait" else None,
                                                          remove=True))

    def do_listop(o, n, op, vi):
        def f():
            l = getattr(objs[o], n)
            v = value(vi)
            if op == "append":
                l.append(v)
            elif op == "pop":
                l.pop()
            elif op == "clear":
                l.clear()
            elif op == "extend":
                l.extend([v, 1, v])
            elif op == "setslice":
                l[::2] = [v] * len(l[::2])
            elif op == "delslice":
                del l[1::2]
            elif op == "sort":
                l.sort()
            elif op == "insert":
                l.insert(-1, v)
            elif op == "imul":
                l *= 2 if len(l) < 50 else 0
            elif op == "reverse":
                l.reverse()
            elif op == "remove":
                l.remove(v)
        call("list." + op, f)

    def raw_ctrait(kind, prep, arg, use):
        def f():
            t = CTrait(kind)
            if prep == "delegate":
                t.delegate("inst", "p", arg, False)
            elif prep == "default":
                t.set_default_value(arg, (len, ((),), None) if arg == 7 else (lambda o: 3) if arg == 8 else 5)
            elif prep == "default-type":
                t.set_default_value(arg, [1] if arg in (3, 5) else {} if arg in (4, 6) else set() if arg == 9 else
                                    (len, ((),), None) if arg == 7 else (lambda o: 3) if arg == 8 else None)
            elif prep in ("property", "property-post-none"):
                t._set_property(lambda o: 1, 1, lambda o, v: None, 2, (lambda v: v), 1)
                if prep == "property-post-none":
                    t.post_setattr = None
            elif prep == "validate":
                from props.subserver import _validate_arg
                t.set_validate(_validate_arg(arg))
            h = objs.get("o") or cls()
            h.add_trait("z", t)
            if use in ("get", "all"):
                call("raw.get", lambda: getattr(h, "z"))
            if use in ("set", "all"):
                call("raw.set", lambda: setattr(h, "z", 1))
            if use in ("del", "all"):
                call("raw.del", lambda: delattr(h, "z"))
            if use in ("getstate", "all"):
                t.__dict__ = {}
                call("raw.getstate", lambda: CTrait(0).__setstate__(t.__getstate__()))
            if use in ("pickle", "all"):
                call("raw.deepcopy", lambda: copy.deepcopy(t))
        call("raw", f)

    def hashname(o, n, fail_at, vi, use):
        N = _name_class()
        key = N(n)
        N.calls = 0
        N.fail_at = fail_at
        if use == "set":
            call("hashname.set", lambda: setattr(objs[o], key, value(vi)))
        elif use == "get":
            call("hashname.get", lambda: getattr(objs[o], key))
        else:
            call("hashname.del", lambda: delattr(objs[o], key))
        N.fail_at = None
        # use the name object afterwards: if its count was dropped once too often this reads freed memory
        call("hashname.use", lambda: (len(key), key.upper(), [key] * 3))

    gc.collect()
    base = [sys.getrefcount(t) for t in tracked]
    reraise = [False]
    for st in prog["steps"]:
        op = st[0]
        if op == "new":
            call("new", lambda: objs.__setitem__(st[1], cls()))
            if "inst" in ns and st[1] in objs and prog["family"] in ("delegate-property", "persist"):
                call("inst", lambda: setattr(objs[st[1]], "inst", Other()))
        elif op == "set":
            if st[1] in objs:
                call("set", lambda: setattr(objs[st[1]], st[2], value(st[3])))
        elif op == "get":
            if st[1] in objs:
                call("get", lambda: getattr(objs[st[1]], st[2]))
        elif op == "del":
            if st[1] in objs:
                call("del", lambda: delattr(objs[st[1]], st[2]))
        elif op == "gc":
            gc.collect()
        elif op == "handlers":
            handlers.update(st[1])
            budget[0] = 40 * st[2]
        elif op in ("otc", "observe", "anytrait", "static"):
            register(op, st[1], st[2], st[3])
        elif op == "otc_rm":
            for r in list(registered):
                if r[3] == st[3]:
                    unregister(*r)
                    break
        elif op == "reraise":
            from traits.api import push_exception_handler
            push_exception_handler(lambda *a: None, reraise_exceptions=True, main=True)
            reraise[0] = True
        elif op == "listop":
            if st[1] in objs:
                do_listop(st[1], st[2], st[3], st[4])
        elif op == "add_trait":
            if st[1] in objs:
                call("add_trait", lambda: objs[st[1]].add_trait(st[2], mk_trait(st[3])))
        elif op == "remove_trait":
            if st[1] in objs:
                call("remove_trait", lambda: objs[st[1]].remove_trait(st[2]))
        elif op == "pickle":
            if st[1] in objs:
                call("pickle", lambda: objs.__setitem__(st[3], pickle.loads(pickle.dumps(objs[st[1]], st[2]))))
        elif op == "deepcopy":
            if st[1] in objs:
                call("deepcopy", lambda: objs.__setitem__(st[2], copy.deepcopy(objs[st[1]])))
        elif op == "copy":
            if st[1] in objs:
                call("copy", lambda: objs.__setitem__(st[2], copy.copy(objs[st[1]])))
        elif op == "clone":
            if st[1] in objs:
                call("clone", lambda: objs.__setitem__(st[3], objs[st[1]].clone_traits(copy=st[2])))
        elif op == "ct_roundtrip":
            if st[1] in objs:
                def f():
                    ct = objs[st[1]].trait(st[2])
                    if ct is None:
                        return
                    if st[3] == "getstate":
                        CTrait(0).__setstate__(ct.__getstate__())
                    elif st[3] == "pickle":
                        try:
                            pickle.loads(pickle.dumps(ct))
                        except (pickle.PicklingError, AttributeError, TypeError):
                            pass
                    elif st[3] == "deepcopy":
                        copy.deepcopy(ct)
                    else:
                        copy.copy(ct)
                call("ct_roundtrip", f)
        elif op == "set_delegate":
            if st[1] in objs:
                call("set_delegate", lambda: setattr(objs[st[1]], "inst", Other() if st[2] else None))
        elif op == "raw_ctrait":
            raw_ctrait(st[1], st[2], st[3], st[4])
        elif op == "hashname":
            if st[1] in objs:
                hashname(*st[1:])
    if reraise[0]:
        from traits.api import pop_exception_handler
        pop_exception_handler()
    # ---- reference neutrality of the tracked values once everything is gone
    objs.clear()
    handlers.clear()
    hfuncs.clear()
    del registered[:]
    gc.collect()
    gc.collect()
    after = [sys.getrefcount(t) for t in tracked]
    return {"ok": True, "trace_len": len(trace), "errors": sorted(set(t.split(":", 1)[1] for t in trace if
                                                                     not t.endswith(":ok"))),
            "ref_delta": [a - b for a, b in zip(after, base)]}
