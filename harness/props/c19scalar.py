"""Scalar callback sites of C19 (oracle-only `#{"scalar":…}` cases).

Each runner executes a short history on a *faulted* object (the named callback
raises exception E on its k-th invocation of the marked step) and on a *twin*
whose callbacks never fail and which skips the marked step when the callback is
decisive; it returns (output, hits, tags).
"""
from . import seqlib as S


_FALSY = [0]     # set per case by run(): 0 truthy, 1 `__bool__` -> False, 2 `__len__` -> 0


def _Base():
    """HasTraits, or a HasTraits subclass whose instances are alive but falsy: nothing in C19 depends on an
    object's truth value (a share of the cases runs on such classes)."""
    from traits.api import HasTraits
    if _FALSY[0] == 1:
        return type("FalsyB", (HasTraits,), {"__bool__": lambda self: False})
    if _FALSY[0] == 2:
        return type("FalsyL", (HasTraits,), {"__len__": lambda self: 0})
    return HasTraits


def _hit(sig, what, **kw):
    d = {"signature": sig, "what": what}
    d.update(kw)
    return d


class Fault:
    """Raises `exc` on the k-th call while armed."""

    def __init__(self):
        self.armed = False
        self.k = 0
        self.exc = "ValueError"
        self.n = 0
        self.fired = False

    def arm(self, k, exc):
        self.armed, self.k, self.exc, self.n, self.fired = True, k, exc, 0, False

    def disarm(self):
        self.armed = False

    def tick(self):
        if self.armed:
            n = self.n
            self.n += 1
            if n == self.k:
                self.fired = True
                raise S.exc_class(self.exc)("injected")


def _silence():
    from traits.api import push_exception_handler
    from traits.observation.api import push_exception_handler as obs_push
    push_exception_handler(lambda *a: None, reraise_exceptions=False, main=True)
    obs_push(handler=lambda event: None, reraise_exceptions=False)


def _unsilence():
    from traits.api import pop_exception_handler
    from traits.observation.api import pop_exception_handler as obs_pop
    pop_exception_handler()
    obs_pop()


# ------------------------------------------------------------------ 1. custom validators

def _validator_classes(fault):
    from traits.api import HasTraits, TraitType, Int, Either, Tuple, Str, TraitError, Union, Float

    class Even(TraitType):
        default_value = 0

        def validate(self, obj, name, value):
            fault.tick()
            if isinstance(value, int) and value % 2 == 0:
                return value
            self.error(obj, name, value)

    class Neg(TraitType):
        default_value = -1

        def validate(self, obj, name, value):
            fault.tick()
            if isinstance(value, int) and value < 0:
                return value
            self.error(obj, name, value)

    class A(_Base()):
        e = Even()
        n = Neg()
        en = Either(Even(), Neg())
        un = Union(Even(), Neg())          # the Python-level compound (Union.validate), not the C one
        # a compound nested in a compound (set_validate splices the inner validators into the outer list), closed by
        # a member that accepts what the custom validator refuses
        nn = Either(Either(Float, Even()), Str)
        t = Tuple(Even(), Neg(), Even())
        i = Int(7)
        s = Str("s")
        # validated traits whose default is computed from the state at the moment of the first read
        de = Even()
        dn = Neg()

        def _de_default(self):
            DCALLS.append("de")
            return 2 * self.i

        def _dn_default(self):
            DCALLS.append("dn")
            return -abs(self.i) - 1
    return A


DCALLS = []   # calls of the dynamic-default methods of the validator classes


def _acceptable(name, val):
    """the declared domains of the validator family, written independently of the traits"""
    even = lambda v: isinstance(v, int) and not isinstance(v, bool) and v % 2 == 0 or v is False  # noqa: E731
    even = lambda v: isinstance(v, int) and v % 2 == 0  # noqa: E731,F811  (bools are ints for the custom validators)
    neg = lambda v: isinstance(v, int) and v < 0  # noqa: E731
    if name in ("e", "de"):
        return even(val)
    if name in ("n", "dn"):
        return neg(val)
    if name in ("en", "un"):
        return even(val) or neg(val)
    if name == "nn":
        return isinstance(val, (float, str)) or (isinstance(val, int) and not isinstance(val, bool)) or even(val)
    if name == "t":
        return isinstance(val, (list, tuple)) and len(val) == 3 and even(val[0]) and neg(val[1]) and even(val[2])
    if name == "i":
        return isinstance(val, int) and not isinstance(val, bool)
    if name == "s":
        return isinstance(val, str)
    raise AssertionError(name)


def _plain_dict(obj):
    """the stored trait values (listener bookkeeping under dunder keys holds per-object wrapper objects)"""
    return {k: v for k, v in obj.__dict__.items() if not k.startswith("__")}


def run_validator(c):
    fault = Fault()
    A = _validator_classes(fault)
    hits, outs, tags = [], [], set()

    def play(obj, steps, fault_at):
        res = []
        log = []
        obj.on_trait_change(lambda o, n, old, new: log.append((n, old, new)), "e,n,en,un,nn,t,i,s,de,dn")
        for j, (name, val, via) in enumerate(steps):
            val = tuple(val) if isinstance(val, list) else val
            snap = dict((a, getattr(obj, a)) for a in ("e", "n", "en", "un", "nn", "t", "i", "s"))
            # the dynamic-default traits are never read by the harness itself: whether `de`/`dn` are
            # materialised is part of the state ("caches are as before"), seen through __dict__
            raw = _plain_dict(obj)
            ncalls = len(DCALLS)
            if j == fault_at:
                fault.arm(c["k"], c["exc"])
            del log[:]
            try:
                if via == "get":
                    r = "ok %r" % (getattr(obj, name),)
                elif via == "set":
                    setattr(obj, name, val)
                    r = "ok"
                elif via == "setq":           # quiet assignment: same validation, no notification
                    obj.trait_setq(**{name: val})
                    r = "ok"
                elif via == "qset":
                    obj.trait_set(trait_change_notify=False, **{name: val})
                    r = "ok"
                else:
                    obj.trait_set(**{name: val})
                    r = "ok"
            except Exception as ex:
                r = "err " + S.exc_name(ex)
            fired = fault.fired if j == fault_at else False
            fault.disarm()
            after = dict((a, getattr(obj, a)) for a in ("e", "n", "en", "un", "nn", "t", "i", "s"))
            if r.startswith("err") and via != "get":
                snap["__dict__"], snap["default-calls"] = raw, 0
                after["__dict__"], after["default-calls"] = _plain_dict(obj), len(DCALLS) - ncalls
            res.append((r, after, list(log), fired, snap))
        return res
    steps = c["steps"]
    f = play(A(), steps, c["at"])
    fired = f[c["at"]][3]
    # steps in which no callback was made to fail: the outcome is decided by the declared domain alone — accepted
    # silently or rejected with TraitError; anything else (a stale error indicator surfacing as SystemError, an
    # exception out of nowhere) means an earlier failure was not cleaned up
    for j, (name, val, via) in enumerate(steps):
        if j == c["at"] or via == "get":
            continue
        want = "ok" if _acceptable(name, val) else "err TraitError"
        if f[j][0] != want:
            hits.append(_hit("unfaulted-step-outcome:validator:" + name, "assignment %s = %r with no injected failure gave %s, the "
                             "declared domain says %s" % (name, val, f[j][0], want)))
            break
    if fired:
        tags.add("fired:validator:" + c["exc"])
        r, after, log, _, snap = f[c["at"]]
        sg = "validator:" + steps[c["at"]][0]
        if not r.startswith("err"):
            hits.append(_hit("callback-failure-swallowed:" + sg, "injected %s swallowed" % c["exc"]))
        elif r.split()[1] not in (c["exc"], "TraitError"):
            hits.append(_hit("callback-exception-changed:" + sg, "injected %s surfaced as %s" % (c["exc"], r)))
        if after != snap:
            hits.append(_hit("failed-op-mutated:" + sg, "attributes changed by a failing assignment", before=snap, after=after))
        if log:
            hits.append(_hit("failed-op-notified:" + sg, "handlers notified by a failing assignment", log=log))
        twin_steps = steps[:c["at"]] + steps[c["at"] + 1:]
        t = play(A(), twin_steps, -1)
        frest = [x[:3] for i, x in enumerate(f) if i != c["at"]]
        if frest != [x[:3] for x in t]:
            hits.append(_hit("twin-differs:" + sg, "object behaves differently after the failed assignment"))
    outs = [x[0] for x in f]
    return " ; ".join(outs), hits, tags


# ------------------------------------------------------------------ 2. defaults

def run_default(c):
    from traits.api import HasTraits, Int, List, Instance, Any
    fault = Fault()
    calls = {"m": 0, "f": 0}

    class Box:
        pass

    def factory():
        calls["f"] += 1
        fault.tick()
        return Box()

    class D(_Base()):
        x = Int
        ys = List(Int)
        b = Instance(Box, factory=factory)
        z = Any

        def _x_default(self):
            calls["m"] += 1
            fault.tick()
            return 5

        def _ys_default(self):
            calls["m"] += 1
            fault.tick()
            return [1, 2]
    hits, tags = [], set()
    name = c["name"]
    if c.get("via") == "assign":
        # the default is computed as the OLD value of the first assignment (a handler is registered):
        # the assignment fails with the default's exception, stores nothing, notifies nobody, and the same
        # assignment repeated afterwards behaves as on an object that never saw the failure
        val = {"x": 7, "ys": [3], "b": Box()}[name]

        def assign(obj, lg):
            try:
                setattr(obj, name, val)
                return "ok"
            except BaseException as ex:
                return "err " + S.exc_name(ex)
        d, log = D(), []
        d.on_trait_change(lambda o, n, old, new: log.append((n, repr(old) if not isinstance(old, Box) else "Box", repr(new) if not isinstance(new, Box) else "Box")), "x,ys,b")
        fault.arm(0, c["exc"])
        r = assign(d, log)
        fired = fault.fired
        fault.disarm()
        sg = "default-on-assign:" + name
        if fired:
            tags.add("fired:default-on-assign:" + c["exc"])
            if not r.startswith("err"):
                hits.append(_hit("callback-failure-swallowed:" + sg, "default raising %s during an assignment was swallowed" % c["exc"]))
            elif r.split()[1] not in (c["exc"], "TraitError"):
                hits.append(_hit("callback-exception-changed:" + sg, "injected %s surfaced as %s" % (c["exc"], r)))
            if name in d.__dict__:
                hits.append(_hit("failed-op-mutated:" + sg, "a value was stored although the default computation raised"))
            if log:
                hits.append(_hit("failed-op-notified:" + sg, "handlers notified although the default computation raised", log=list(log)))
            r2 = assign(d, log)
            t, tlog = D(), []
            t.on_trait_change(lambda o, n, old, new: tlog.append((n, repr(old) if not isinstance(old, Box) else "Box", repr(new) if not isinstance(new, Box) else "Box")), "x,ys,b")
            rt = assign(t, tlog)
            if (r2, log) != (rt, tlog):
                hits.append(_hit("twin-differs:" + sg, "the repeated assignment differs from a fault-free twin", got=[r2, log], twin=[rt, tlog]))
        return r, hits, tags
    d = D()
    log = []
    d.on_trait_change(lambda o, n, old, new: log.append(n), "x,ys,b")
    fault.arm(0, c["exc"])
    try:
        getattr(d, name)
        r = "ok"
    except BaseException as ex:
        r = "err " + S.exc_name(ex)
    fired = fault.fired
    fault.disarm()
    sg = "default:" + name
    if fired:
        tags.add("fired:default:" + c["exc"])
        if not r.startswith("err"):
            hits.append(_hit("callback-failure-swallowed:" + sg, "default raising %s was swallowed: %s" % (c["exc"], r)))
        elif r.split()[1] not in (c["exc"], "TraitError"):
            hits.append(_hit("callback-exception-changed:" + sg, "injected %s surfaced as %s" % (c["exc"], r)))
        if name in d.__dict__:
            hits.append(_hit("failed-op-mutated:" + sg, "a value was stored although the default computation raised"))
        if log:
            hits.append(_hit("failed-op-notified:" + sg, "handlers notified although the default computation raised"))
        before = dict(calls)
        try:
            v = getattr(d, name)
            r2 = "ok"
        except BaseException as ex:
            r2 = "err " + S.exc_name(ex)
        if r2 != "ok" or (calls["m"] + calls["f"]) != (before["m"] + before["f"]) + 1:
            hits.append(_hit("no-retry:" + sg, "next read did not recompute the default (%s)" % r2))
        # twin: never failed
        t = D()
        tv = getattr(t, name)
        same = (type(v) is type(tv)) and (v == tv or isinstance(v, Box))
        if r2 == "ok" and not same:
            hits.append(_hit("twin-differs:" + sg, "default after a failed computation differs", got=repr(v), twin=repr(tv)))
        if log:
            hits.append(_hit("default-read-notified:" + sg, "default read notified handlers", log=list(log)))
    return r, hits, tags


# ------------------------------------------------------------------ 3. properties

def run_property(c):
    from traits.api import HasTraits, Int, Property, cached_property
    fault = Fault()
    calls = [0]

    class P(_Base()):
        a = Int(1)
        store = Int(0)
        p = Property(Int, observe="a")
        q = Property(Int, observe="store")

        @cached_property
        def _get_p(self):
            calls[0] += 1
            fault.tick()
            return self.a * 10

        def _get_q(self):
            return self.store

        def _set_q(self, v):
            fault.tick()
            self.store = v
    hits, tags = [], set()
    o = P()
    log = []
    o.on_trait_change(lambda ob, n, old, new: log.append((n, new)), "p,q")
    sg = "property:" + c["site"]
    if c["site"] == "getter":
        if c.get("warm"):
            o.p
            o.a = 2
        fault.arm(0, c["exc"])
        try:
            o.p
            r = "ok"
        except BaseException as ex:
            r = "err " + S.exc_name(ex)
        fired = fault.fired
        fault.disarm()
        if fired:
            tags.add("fired:getter:" + c["exc"])
            if not r.startswith("err"):
                hits.append(_hit("callback-failure-swallowed:" + sg, "getter raising %s was swallowed" % c["exc"]))
            elif r.split()[1] not in (c["exc"], "TraitError"):
                hits.append(_hit("callback-exception-changed:" + sg, "injected %s surfaced as %s" % (c["exc"], r)))
            n0 = calls[0]
            v = o.p
            if v != o.a * 10 or calls[0] != n0 + 1:
                hits.append(_hit("cache-written-by-failed-getter:" + sg, "read after a failed getter returned %r (a=%r), getter calls %d" % (v, o.a, calls[0] - n0)))
            o.a = 3
            if o.p != 30:
                hits.append(_hit("twin-differs:" + sg, "property stale after a failed getter"))
    else:
        fault.arm(0, c["exc"])
        del log[:]
        try:
            o.q = 9
            r = "ok"
        except BaseException as ex:
            r = "err " + S.exc_name(ex)
        fired = fault.fired
        fault.disarm()
        if fired:
            tags.add("fired:setter:" + c["exc"])
            if not r.startswith("err"):
                hits.append(_hit("callback-failure-swallowed:" + sg, "setter raising %s was swallowed" % c["exc"]))
            elif r.split()[1] not in (c["exc"], "TraitError"):
                hits.append(_hit("callback-exception-changed:" + sg, "injected %s surfaced as %s" % (c["exc"], r)))
            if log:
                hits.append(_hit("failed-op-notified:" + sg, "property change announced although the setter raised", log=list(log)))
            if o.q != 0:
                hits.append(_hit("failed-op-mutated:" + sg, "value changed although the setter raised before storing"))
            del log[:]
            o.q = 4
            if o.q != 4 or [n for n, _ in log] != ["q"]:
                hits.append(_hit("twin-differs:" + sg, "property misbehaves after a failed setter", log=list(log), q=o.q))
    return r, hits, tags


# ------------------------------------------------------------------ 4. adapter factories

def run_adapter(c):
    from traits.adaptation.adaptation_manager import AdaptationManager
    from traits.adaptation.adaptation_error import AdaptationError
    fault = Fault()

    class A:
        pass

    class B:
        def __init__(self, adaptee):
            self.adaptee = adaptee

    class C:
        def __init__(self, adaptee):
            self.adaptee = adaptee

    def f_ab(x):
        fault.tick()
        return B(x)

    def f_bc(x):
        fault.tick()
        return C(x)
    m = AdaptationManager()
    m.register_factory(f_ab, A, B)
    m.register_factory(f_bc, B, C)
    hits, tags = [], set()
    a = A()
    target = {"B": B, "C": C}[c["target"]]
    n_offers = sum(len(v) for v in m._adaptation_offers.values())
    fault.arm(c["k"], c["exc"])
    try:
        m.adapt(a, target)
        r = "ok"
    except BaseException as ex:
        r = "err " + S.exc_name(ex)
    fired = fault.fired
    fault.disarm()
    sg = "adapter-factory:" + c["target"]
    if fired:
        tags.add("fired:factory:" + c["exc"])
        if not r.startswith("err"):
            hits.append(_hit("callback-failure-swallowed:" + sg, "factory raising %s was swallowed" % c["exc"]))
        elif r.split()[1] not in (c["exc"], "TraitError", "AdaptationError"):
            hits.append(_hit("callback-exception-changed:" + sg, "injected %s surfaced as %s" % (c["exc"], r)))
        if sum(len(v) for v in m._adaptation_offers.values()) != n_offers:
            hits.append(_hit("failed-op-mutated:" + sg, "offer registry changed by a failing adaptation"))
        try:
            res = m.adapt(a, target)
            ok = isinstance(res, target)
        except Exception:
            ok = False
        if not ok:
            hits.append(_hit("twin-differs:" + sg, "adaptation no longer works after a failed factory"))
    return r, hits, tags


# ------------------------------------------------------------------ 4b. adapter factory reached through a trait

def run_adapter_trait(c):
    """An adapter factory raising while a value is assigned to a Supports / AdaptsTo trait,
    alone or as a member of an Either compound: the exception must reach the caller and
    nothing may be stored."""
    from traits.api import HasTraits, Interface, Supports, AdaptsTo, Either, Instance, Int
    from traits.adaptation.api import (AdaptationManager, get_global_adaptation_manager,
                                       set_global_adaptation_manager)
    fault = Fault()

    class IP(Interface):
        pass

    class Doc(_Base()):
        pass

    class Adapted(_Base()):
        pass
    IP.register(Adapted)

    def factory(adaptee):
        fault.tick()
        return Adapted()
    shapes = {"supports": Supports(IP), "adaptsto": AdaptsTo(IP),
              "either-first": Either(Supports(IP), Instance(HasTraits)),
              "either-second": Either(Int, Supports(IP)),
              "either-adaptsto": Either(AdaptsTo(IP), Instance(HasTraits))}
    Holder = type("Holder", (HasTraits,), {"item": shapes[c["shape"]], "other": Int(3)})
    old = get_global_adaptation_manager()
    m = AdaptationManager()
    set_global_adaptation_manager(m)
    hits, tags = [], set()
    try:
        m.register_factory(factory, Doc, IP)
        h = Holder()
        log = []
        h.on_trait_change(lambda o, n, ol, nw: log.append(n), "item,other")
        before = h.item
        doc = Doc()
        fault.arm(0, c["exc"])
        try:
            h.item = doc
            r = "ok"
        except BaseException as ex:
            r = "err " + S.exc_name(ex)
        fired = fault.fired
        fault.disarm()
        sg = "adapter-factory-in-trait:" + c["shape"]
        if fired:
            tags.add("fired:factory-trait:" + c["exc"])
            if not r.startswith("err"):
                hits.append(_hit("callback-failure-swallowed:" + sg, "adapter factory raising %s was swallowed; item is now %s" % (
                    c["exc"], type(h.item).__name__)))
            elif r.split()[1] not in (c["exc"], "TraitError"):
                hits.append(_hit("callback-exception-changed:" + sg, "injected %s surfaced as %s" % (c["exc"], r)))
            if r.startswith("err") and (h.item is not before or h.other != 3):
                hits.append(_hit("failed-op-mutated:" + sg, "a value was stored although the adapter factory raised"))
            if r.startswith("err") and log:
                hits.append(_hit("failed-op-notified:" + sg, "handlers notified although the adapter factory raised"))
            h.item = doc
            ok = isinstance(h.item if "adaptsto" not in c["shape"] else getattr(h, "item_", None), Adapted) or \
                (c["shape"] == "either-adaptsto" and h.item is doc)
            if not ok:
                hits.append(_hit("twin-differs:" + sg, "assignment after a failed factory gives %s" % type(h.item).__name__))
    finally:
        set_global_adaptation_manager(old)
    return r, hits, tags


# ------------------------------------------------------------------ 3b. getter raising inside the dependency notification

def run_property_notify(c):
    """The getter of a cached property raises once while the library recomputes the value
    to notify listeners of a dependency change (observe= and legacy depends_on= variants);
    afterwards the property must behave as on an object that never saw the failure."""
    from traits.api import HasTraits, Int, Property, cached_property
    kw = {"observe": "a"} if c["api"] == "observe" else {"depends_on": "a"}

    def scenario(fail_at):
        calls = [0]

        class M(_Base()):
            a = Int(1)
            double = Property(Int, **kw)

            @cached_property
            def _get_double(self):
                calls[0] += 1
                if calls[0] == fail_at:
                    raise S.exc_class(c["exc"])("getter failed")
                return 2 * self.a
        m = M()
        events = []
        m.on_trait_change(lambda obj, name, old, new: events.append((old, new)), "double")
        obs = []
        if c.get("warm", 1):
            try:
                obs.append(m.double)
            except Exception as ex:
                obs.append("err " + S.exc_name(ex))
        for v in c["values"]:
            m.a = v
            try:
                obs.append(m.double)
            except Exception as ex:
                obs.append("err " + S.exc_name(ex))
        return obs, events, calls[0]
    _silence()
    try:
        good, gev, ngood = scenario(-1)
        bad, bev, n = scenario(c["fail_at"])
    finally:
        _unsilence()
    hits, tags = [], set()
    sg = "property-getter-in-notification:" + c["api"]
    if n >= c["fail_at"]:
        tags.add("fired:getter-notify:" + c["exc"])
        # reads after the failing call must give the fault-free values (a read that itself hits the failing
        # call may raise; every later one must be right)
        k = 0
        for g, b in zip(good, bad):
            if isinstance(b, str):
                continue
            if g != b:
                hits.append(_hit("twin-differs:" + sg, "stale or wrong value after a getter failed inside the notification",
                                 fault_free=good, faulted=bad))
                break
            k += 1
        # the event of the change whose notification hit the failing call is legitimately lost (the new
        # value could not be computed); a LATER change must be announced exactly as on the twin
        if c["fail_at"] <= ngood - 2 and gev[-1:] != bev[-1:]:
            hits.append(_hit("twin-differs-events:" + sg, "last property change event differs after a getter failed inside the "
                             "notification", fault_free=gev[-2:], faulted=bev[-2:]))
    return " ".join(str(x) for x in bad), hits, tags


# ------------------------------------------------------------------ 5. change handlers

def run_handler(c):
    from traits.api import HasTraits, Int
    fault = Fault()
    calls = []

    class H(_Base()):
        x = Int(0)
        y = Int(0)

        def _x_changed(self, old, new):
            calls.append(("static", old, new))
            if c["site"] == "static":
                fault.tick()

    def dyn(obj, name, old, new):
        calls.append(("dynamic", old, new))
        if c["site"] == "dynamic":
            fault.tick()

    def dyn2(obj, name, old, new):
        calls.append(("dynamic2", old, new))

    def obs(event):
        calls.append(("observe", event.old, event.new))
        if c["site"] == "observe":
            fault.tick()

    def obs2(event):
        calls.append(("observe2", event.old, event.new))
    hits, tags = [], set()
    _silence()
    try:
        h = H()
        order = c.get("order", 0)
        regs = [lambda: h.on_trait_change(dyn, "x"), lambda: h.observe(obs, "x"),
                lambda: h.on_trait_change(dyn2, "x"), lambda: h.observe(obs2, "x")]
        for i in range(4):
            regs[(i + order) % 4]()
        fault.arm(0, c["exc"])
        try:
            h.x = 5
            r = "ok"
        except BaseException as ex:
            r = "err " + S.exc_name(ex)
        fired = fault.fired
        fault.disarm()
        sg = "change-handler:" + c["site"]
        if fired:
            tags.add("fired:handler:" + c["exc"])
            if r != "ok":
                hits.append(_hit("handler-exception-escaped:" + sg, "a raising change handler made the assignment raise: " + r))
            if h.x != 5:
                hits.append(_hit("handler-exception-undid-assignment:" + sg, "value is %r after the assignment" % h.x))
            kinds = sorted(k for k, _, _ in calls)
            if kinds != ["dynamic", "dynamic2", "observe", "observe2", "static"]:
                hits.append(_hit("handler-exception-stopped-others:" + sg, "handlers called: %s" % kinds))
            if any((o, n) != (0, 5) for _, o, n in calls):
                hits.append(_hit("handler-untruthful:" + sg, "old/new reported: %s" % calls))
            del calls[:]
            h.x = 6
            kinds = sorted(k for k, _, _ in calls)
            if kinds != ["dynamic", "dynamic2", "observe", "observe2", "static"] or h.x != 6:
                hits.append(_hit("twin-differs:" + sg, "handlers after a failed handler: %s" % kinds))
    finally:
        _unsilence()
    return r, hits, tags


# ------------------------------------------------------------------ 6. user filter raising during observe()

def run_observe_filter(c):
    """observe() with an expression of two graphs: trait("a") | match(user_filter).  The user filter raises at its
    k-th call: the registration decides the outcome, so observe() must raise and leave NOTHING attached (also
    not the graph registered before the failing one); a later registration behaves as on a fresh object."""
    from traits.api import HasTraits, Int
    from traits.observation.api import trait, match
    fault = Fault()
    calls = []

    class O(_Base()):
        a = Int(0)
        b = Int(0)
        c = Int(0)

    def filt(name, ctrait):
        fault.tick()
        return name in ("b", "c")

    def handler(event):
        calls.append((event.name, event.old, event.new))

    def expr():
        e = trait("a") | match(filt) if c.get("order", 0) == 0 else match(filt) | trait("a")
        return [trait("c"), e] if c.get("list") else e
    hits, tags = [], set()

    def play(obj, faulted):
        out = []
        if faulted:
            fault.arm(c["k"], c["exc"])
            try:
                obj.observe(handler, expr())
                out.append("ok")
            except BaseException as ex:
                out.append("err " + S.exc_name(ex))
            out.append(fault.fired)
            fault.disarm()
            del calls[:]
            obj.a, obj.b, obj.c = 1, 2, 3
            out.append(list(calls))
        else:
            obj.a, obj.b, obj.c = 1, 2, 3      # the twin goes through the same values, with nothing attached
        # the rest: identical for the faulted object and the twin
        del calls[:]
        obj.observe(handler, expr())
        obj.a, obj.b = 7, 8
        out.append(sorted(calls))
        del calls[:]
        obj.observe(handler, expr(), remove=True)
        obj.a, obj.b, obj.c = 9, 10, 11
        out.append(list(calls))
        return out
    f = play(O(), True)
    r, fired, after = f[0], f[1], f[2]
    sg = "observe-filter"
    if fired:
        tags.add("fired:observe-filter:" + c["exc"])
        if not r.startswith("err"):
            hits.append(_hit("callback-failure-swallowed:" + sg, "observe() succeeded although the user filter raised"))
        elif r.split()[1] != c["exc"]:
            hits.append(_hit("callback-exception-changed:" + sg, "injected %s surfaced as %s" % (c["exc"], r)))
        if after:
            hits.append(_hit("failed-op-mutated:" + sg, "the handler is attached although observe() raised", calls=after))
        t = play(O(), False)
        if f[3:] != t:
            hits.append(_hit("twin-differs:" + sg, "registration / removal after the failed observe() differ from a fresh object",
                             got=repr(f[3:]), twin=repr(t)))
    return r, hits, tags


# ------------------------------------------------------------------ 7. default raising while the legacy listener re-hooks a chain

def run_legacy_chain(c):
    """root.on_trait_change(h, 'child:pet:name'); assigning a child whose `_pet_default` raises while the library
    hooks the chain: the library's own listener is a change handler (the assignment completes), and afterwards
    everything behaves as with a child whose default never raised — in particular a replaced child is fully unhooked."""
    from traits.api import HasTraits, Instance, Str
    fault = Fault()
    calls = []

    class Pet(_Base()):
        name = Str("p")

    class Child(_Base()):
        pet = Instance(Pet)

        def _pet_default(self):
            fault.tick()
            return Pet()

    class Root(_Base()):
        child = Instance(Child)

    def handler(obj, name, old, new):
        calls.append((name, old, new))
    hits, tags = [], set()
    sep = c.get("sep", ":")
    pattern = "child" + sep + "pet" + sep + "name"

    def play(faulted):
        root = Root()
        root.on_trait_change(handler, pattern)
        c1, c2 = Child(), Child()
        if faulted:
            fault.arm(0, c["exc"])
        try:
            root.child = c1
            r = "ok"
        except BaseException as ex:
            r = "err " + S.exc_name(ex)
        fired = fault.fired
        fault.disarm()
        del calls[:]
        out = []
        c1.pet = Pet()                   # explicit value: no default needed from here on
        c1.pet.name = "x"
        out.append(("hooked-later", len(calls)))
        del calls[:]
        root.child = c2
        del calls[:]
        c1.pet.name = "y"                # c1 is detached: must be silent
        c1.pet = Pet()
        out.append(("detached", list(calls)))
        del calls[:]
        c2.pet.name = "z"
        out.append(("reachable", [n for n, _, _ in calls]))
        del calls[:]
        root.on_trait_change(handler, pattern, remove=True)
        c2.pet.name = "w"
        out.append(("removed", list(calls)))
        return r, fired, out
    _silence()
    try:
        r, fired, out = play(True)
        sg = "legacy-chain-default"
        if fired:
            tags.add("fired:legacy-chain-default:" + c["exc"])
            if r != "ok":
                hits.append(_hit("handler-exception-escaped:" + sg, "the assignment raised: " + r))
            d = dict(out)
            if d["detached"]:
                hits.append(_hit("detached-object-still-hooked:" + sg, "changes below a replaced child still call the handler", calls=repr(d["detached"])))
            if d["removed"]:
                hits.append(_hit("removed-registration-still-called:" + sg, "handler called after remove=True", calls=repr(d["removed"])))
            _, _, tout = play(False)
            if dict(tout)["reachable"] != d["reachable"] or dict(tout)["removed"] != d["removed"] or dict(tout)["detached"] != d["detached"]:
                hits.append(_hit("twin-differs:" + sg, "behaviour after the failed hook-up differs from a fault-free twin", got=repr(out), twin=repr(tout)))
    finally:
        _unsilence()
    return r, hits, tags


# ------------------------------------------------------------------ 10. deferred traits (DelegatesTo / PrototypedFrom)

def run_delegate(c):
    """Assignments through deferring attributes whose target trait has a user validator: a failing validator must leave
    values, local shadows AND the forwarding of the target's changes to the deferring attribute's listeners as they were
    (fault-free twin for the rest of the history)."""
    from traits.api import HasTraits, TraitType, Instance, PrototypedFrom, DelegatesTo
    fault = Fault()

    class Even(TraitType):
        default_value = 0

        def validate(self, obj, name, value):
            fault.tick()
            if isinstance(value, int) and value % 2 == 0:
                return value
            self.error(obj, name, value)

    class Proto(_Base()):
        x = Even()
        y = Even()

    class Item(_Base()):
        proto = Instance(Proto)
        x = PrototypedFrom("proto")
        y = DelegatesTo("proto")
        px = PrototypedFrom("proto", "x")

    def play(steps, fault_at):
        protos = [Proto(x=2, y=4), Proto(x=6, y=8)]
        item = Item(proto=protos[0])
        log = []
        for nm in ("x", "y", "px"):
            item.on_trait_change(lambda o, n, old, new: log.append(("item", n, old, new)), nm)
        if c.get("observe"):
            item.observe(lambda ev: log.append(("obs", ev.name, ev.old, ev.new)), "x")
        def plog(tag):
            return lambda o, n, old, new: log.append((tag, n, old, new))
        for i, p in enumerate(protos):
            p.on_trait_change(plog("proto%d" % i), "x,y")
        res = []
        for j, (who, name, val) in enumerate(steps):
            tgt = item if who == "item" else protos[int(who[-1])]
            snap = (item.x, item.y, item.px, protos[0].x, protos[0].y, protos[1].x, protos[1].y, sorted(_plain_dict(item)))
            if j == fault_at:
                fault.arm(0, c["exc"])
            del log[:]
            try:
                if name == "del":
                    delattr(tgt, val)
                elif name == "swap":
                    item.proto = protos[val]
                else:
                    setattr(tgt, name, val)
                r = "ok"
            except Exception as ex:
                r = "err " + S.exc_name(ex)
            fired = fault.fired if j == fault_at else False
            fault.disarm()
            after = (item.x, item.y, item.px, protos[0].x, protos[0].y, protos[1].x, protos[1].y, sorted(_plain_dict(item)))
            res.append((r, after, list(log), fired, snap))
        return res
    hits, tags = [], set()
    steps, at = c["steps"], c["at"]
    f = play(steps, at)
    if f[at][3]:
        tags.add("fired:delegate:%s.%s:%s" % (steps[at][0][:4], steps[at][1], c["exc"]))
        r, after, log, _, snap = f[at]
        sg = "delegate:%s.%s" % (steps[at][0][:4], steps[at][1])
        if not r.startswith("err"):
            hits.append(_hit("callback-failure-swallowed:" + sg, "injected %s swallowed" % c["exc"]))
        elif r.split()[1] not in (c["exc"], "TraitError"):
            hits.append(_hit("callback-exception-changed:" + sg, "injected %s surfaced as %s" % (c["exc"], r)))
        if after != snap:
            hits.append(_hit("failed-op-mutated:" + sg, "values / local shadows changed by a failing assignment", before=repr(snap), after=repr(after)))
        if log:
            hits.append(_hit("failed-op-notified:" + sg, "handlers notified by a failing assignment", log=repr(log)))
        t = play(steps[:at] + steps[at + 1:], -1)
        frest = [x[:3] for i, x in enumerate(f) if i != at]
        if frest != [x[:3] for x in t]:
            k = next(i for i, (a, b) in enumerate(zip(frest, [x[:3] for x in t])) if a != b)
            hits.append(_hit("twin-differs:" + sg, "after the failed assignment the object behaves differently from a fault-free twin "
                             "(values, local shadows or which listeners are told about a change of the target)",
                             step=repr((steps[:at] + steps[at + 1:])[k]), got=repr(frest[k]), twin=repr(t[k][:3])))
    return " ; ".join(x[0] for x in f), hits, tags


def gen_delegate(rng, exc):
    steps = []
    for _ in range(rng.randint(2, 7)):
        r = rng.random()
        if r < 0.45:
            steps.append(["item", rng.choice(["x", "y", "px"]), rng.choice([2, 4, 10, 12, 3, "q"])])
        elif r < 0.75:
            steps.append([rng.choice(["proto0", "proto0", "proto1"]), rng.choice(["x", "y"]), rng.choice([2, 4, 14, 16, 5])])
        elif r < 0.87:
            steps.append(["item", "del", rng.choice(["x", "px"])])
        else:
            steps.append(["item", "swap", rng.choice([0, 1])])
    cand = [j for j, st in enumerate(steps) if st[1] in ("x", "y", "px")]
    if not cand:
        return None
    return {"scalar": "delegate", "steps": steps, "at": rng.choice(cand), "exc": exc, "observe": rng.randint(0, 1)}


# ------------------------------------------------------------------ 11. synchronised traits (the library's own change handler calls the partner's validator)

def run_sync(c):
    """A hub of objects linked with sync_trait; the validator of one partner raises while the library propagates a change.
    The assignment on the source has succeeded, so the failure of that ONE partner must not leave the group half-updated:
    every other partner holds the new value, the failing one keeps its old value, no lock stays set; a failure of the
    source's own validator is an ordinary rejected assignment (nothing changes anywhere)."""
    from traits.api import HasTraits, TraitType, Int
    fault = Fault()
    where = []

    class Picky(TraitType):
        default_value = 0

        def validate(self, obj, name, value):
            try:
                fault.tick()
            except Exception:
                where.append(obj)
                raise
            if isinstance(value, int):
                return value
            self.error(obj, name, value)

    class A(_Base()):
        x = Int()

    class B(_Base()):
        x = Picky()
    kinds = c["kinds"]                      # e.g. "ABAB": object 0 is the hub
    objs = [(A if k == "A" else B)() for k in kinds]
    for i in c["order"]:
        objs[0].sync_trait("x", objs[i])
    hits, tags, outs = [], set(), []
    _silence()
    try:
        for j, (who, val) in enumerate(c["steps"]):
            before = [o.x for o in objs]
            del where[:]
            if j == c["at"]:
                fault.arm(c["k"], c["exc"])
            try:
                objs[who].x = val
                r = "ok"
            except Exception as ex:
                r = "err " + S.exc_name(ex)
            fired = fault.fired
            fault.disarm()
            fault.fired = False
            after = [o.x for o in objs]
            locks = [dict(o.__dict__.get("__sync_trait__", {}).get("", {})) for o in objs]
            outs.append(r)
            sg = "sync:%s%d" % (kinds[who], len(kinds))
            if any(locks):
                hits.append(_hit("sync-lock-left:" + sg, "a re-entrancy lock stays set after the assignment", locks=repr(locks)))
            if fired and where and where[0] is objs[who]:
                tags.add("fired:sync-own:" + c["exc"])
                if not r.startswith("err"):
                    hits.append(_hit("callback-failure-swallowed:" + sg, "the source's own validator failed but the assignment succeeded"))
                if after != before:
                    hits.append(_hit("failed-op-mutated:" + sg, "a rejected assignment changed the group", before=before, after=after))
            elif fired and where:
                tags.add("fired:sync-partner:" + c["exc"])
                bad = objs.index(where[0])
                # the links form a star around object 0: a change travels spoke -> hub -> other spokes, so a hub that
                # refuses the value shields the other spokes (by topology, not a defect); a refusing spoke only itself
                if bad == 0:
                    want = [val if i == who else before[i] for i in range(len(objs))]
                else:
                    want = [before[i] if i == bad else val for i in range(len(objs))]
                if r != "ok" or after != want:
                    hits.append(_hit("half-updated-group:" + sg, "the validator of partner %d raised %s during the propagation: expected the other "
                                     "partners to follow the source (%r), observed %s %r" % (bad, c["exc"], want, r, after), before=before))
            elif r == "ok" and len(set(before)) == 1 and val != before[who] and after != [val] * len(objs):
                hits.append(_hit("sync-diverged:" + sg, "fault-free assignment did not reach every partner", after=after))
    finally:
        _unsilence()
    return " ; ".join(outs), hits, tags


def gen_sync(rng, exc):
    n = rng.randint(2, 4)
    kinds = rng.choice("AB") + "".join(rng.choice("AB") for _ in range(n - 1))
    if "B" not in kinds:
        kinds = kinds[:-1] + "B"
    order = list(range(1, n))
    rng.shuffle(order)
    steps = [[rng.randrange(n), rng.choice([1, 2, 3, 5, 8, 13])] for _ in range(rng.randint(1, 5))]
    # distinct consecutive values so that every step is a real change
    for i in range(1, len(steps)):
        if steps[i][1] == steps[i - 1][1]:
            steps[i][1] += 20
    return {"scalar": "sync", "kinds": kinds, "order": order, "steps": steps, "at": rng.randrange(len(steps)),
            "k": rng.randint(0, kinds.count("B") - 1), "exc": exc}


# ------------------------------------------------------------------ 12. repeated failures (resources a single failure cannot show)

def run_repeat(c):
    """The same failing operation repeated N times on one thread, then ordinary work on that thread: a failure must not
    consume anything that is not given back (recursion budget, locks, pending error indicators), however often it happens."""
    import threading
    from traits.api import HasTraits, TraitType, Instance, DelegatesTo, PrototypedFrom, Property, Int
    fault = Fault()

    class Picky(TraitType):
        default_value = 0

        def validate(self, obj, name, value):
            fault.tick()
            return value

    class Proto(_Base()):
        x = Picky()
        q = Int(3)
        p = Property(Int)

        def _x_default(self):
            fault.tick()
            return 4

        def _get_p(self):
            fault.tick()
            return 5

    class Item(_Base()):
        proto = Instance(Proto)
        x = DelegatesTo("proto")
        px = PrototypedFrom("proto", "x")
        p = DelegatesTo("proto")
    out = {}

    def work():
        try:
            item = Item(proto=Proto())
            n_fail = 0
            for _ in range(c["n"]):
                item.proto = Proto() if c["site"] == "default" else item.proto
                fault.arm(0, c["exc"])
                try:
                    if c["site"] == "default":
                        getattr(item, c["attr"])          # read through the deferring attribute: the target's default raises
                    elif c["site"] == "getter":
                        item.p                            # the target's property getter raises
                    else:
                        setattr(item, c["attr"], 8)      # write through: the target's validator raises
                except Exception:
                    n_fail += 1
                fault.disarm()
            out["failed"] = n_fail
            # ordinary work afterwards, on the same thread
            deep = []
            for _ in range(200):
                deep = [deep]
            repr(deep)
            sorted([[3, [2]], [1, [0]]])
            item.proto.q = 6
            assert item.proto.q == 6 and isinstance(item, HasTraits)
            item.proto = Proto()
            out["after"] = (item.x, item.px, item.p)
        except BaseException as ex:         # noqa: B036
            out["exc"] = S.exc_name(ex) + ":" + type(ex).__name__
    t = threading.Thread(target=work)
    t.start()
    t.join()
    hits, tags = [], {"repeat:%s:%s" % (c["site"], c["attr"])}
    if out.get("failed") != c["n"]:
        hits.append(_hit("callback-failure-swallowed:repeat:" + c["site"], "%s of %d injected failures reached the caller" % (out.get("failed"), c["n"])))
    if "exc" in out:
        hits.append(_hit("repeated-failure-leaks:%s:%s" % (c["site"], out["exc"].split(":")[1]), "after %d failing operations ordinary work on "
                         "the same thread raises %s" % (c["n"], out["exc"])))
    elif out.get("after") != (4, 4, 5):
        hits.append(_hit("repeated-failure-state:" + c["site"], "state after the failures: %r" % (out.get("after"),)))
    return "ok %s" % out.get("failed"), hits, tags


RUNNERS = {"repeat": run_repeat, "sync": run_sync, "delegate": run_delegate, "observe-filter": run_observe_filter, "legacy-chain": run_legacy_chain, "validator": run_validator, "default": run_default, "property": run_property,
           "adapter": run_adapter, "handler": run_handler, "adapter-trait": run_adapter_trait,
           "property-notify": run_property_notify}


def run(c):
    import warnings
    import json
    import zlib
    _FALSY[0] = zlib.crc32(json.dumps(c, sort_keys=True).encode()) % 4 if c.get("falsy", 1) else 0
    _FALSY[0] = _FALSY[0] if _FALSY[0] in (1, 2) else 0
    with warnings.catch_warnings():
        warnings.simplefilter("ignore")
        out, hits, tags = RUNNERS[c["scalar"]](c)
    tags = set(tags)
    tags.add("objects:" + ["truthy", "falsy-bool", "falsy-len"][_FALSY[0]])
    return out, hits, tags


def generate(rng, n, excs):
    import json
    vals = {"e": [2, 4, 3, "x", None], "n": [-1, -5, 2, "x"], "en": [2, -3, 3, "x", None], "un": [2, -3, -5, 3, "x", None],
            "nn": [2.5, 4, "second", "x", 3, None, 7.0],
            "t": [[2, -1, 4], [2, 2, 4], [3, -1, 4], [2, -1], "x"], "i": [1, 2, "x"], "s": ["a", 3],
            "de": [2, 6, 3, "x"], "dn": [-2, -7, 4, "x"]}
    for _ in range(n):
        r = rng.random()
        exc = rng.choice(excs)
        r0 = rng.random()
        if r0 < 0.12:
            c = gen_delegate(rng, exc)
            if c is None:
                continue
        elif r0 < 0.2:
            c = gen_sync(rng, exc)
        elif r0 < 0.205:
            site = rng.choice(["default", "getter", "validator"])
            c = {"scalar": "repeat", "site": site, "attr": rng.choice(["x", "px"]) if site != "getter" else "p",
                 "n": rng.choice([2500, 4000]), "exc": exc, "falsy": 0}
        elif r < 0.45:
            steps = []
            for _ in range(rng.randint(1, 6)):
                name = rng.choice(list(vals))
                if name in ("de", "dn") and rng.random() < 0.4:
                    steps.append([name, None, "get"])      # first read: materialises the dynamic default
                else:
                    steps.append([name, rng.choice(vals[name]), rng.choice(["set", "set", "set", "trait_set", "trait_set", "setq", "qset"])])
            cand = [j for j, s in enumerate(steps) if s[0] in ("e", "n", "en", "un", "nn", "t", "de", "dn") and s[2] != "get"]
            if not cand:
                continue
            at = rng.choice(cand)
            kmax = {"e": 0, "n": 0, "en": 1, "un": 1, "nn": 0, "t": 2, "de": 0, "dn": 0}[steps[at][0]]
            if steps[at][0] in ("en", "un", "nn") and exc == "TraitError":
                # a TraitError inside one alternative of a compound *is* a rejection by that
                # alternative (the next one is tried): not a failing callback in C19's sense
                exc = "ValueError"
            c = {"scalar": "validator", "steps": steps, "at": at, "k": rng.randint(0, kmax), "exc": exc}
        elif r < 0.6:
            c = {"scalar": "default", "name": rng.choice(["x", "ys", "b"]), "exc": exc}
            if rng.random() < 0.4:
                c["via"] = "assign"
        elif r < 0.75:
            c = {"scalar": "property", "site": rng.choice(["getter", "setter"]), "warm": rng.choice([0, 1]), "exc": exc}
        elif r < 0.80:
            t = rng.choice(["B", "C"])
            c = {"scalar": "adapter", "target": t, "k": rng.randint(0, 1 if t == "C" else 0), "exc": exc}
        elif r < 0.86:
            c = {"scalar": "adapter-trait", "shape": rng.choice(["supports", "adaptsto", "either-first", "either-second",
                                                                  "either-adaptsto"]),
                 "exc": exc if exc != "TraitError" else "ValueError"}
        elif r < 0.92:
            c = {"scalar": "property-notify", "api": rng.choice(["observe", "depends_on"]), "warm": rng.choice([0, 1, 1]),
                 "fail_at": rng.randint(1, 4), "values": [rng.choice([2, 3, 5, 7, 8]) for _ in range(rng.randint(2, 4))],
                 "exc": exc}
        elif r < 0.95:
            c = {"scalar": "observe-filter", "k": rng.randint(0, 5), "order": rng.randint(0, 1), "list": rng.randint(0, 1), "exc": exc}
        elif r < 0.97:
            c = {"scalar": "legacy-chain", "sep": rng.choice([":", "."]), "exc": exc}
        else:
            c = {"scalar": "handler", "site": rng.choice(["static", "dynamic", "observe"]), "order": rng.randint(0, 3), "exc": exc}
        yield "#" + json.dumps(c, separators=(",", ":"))
