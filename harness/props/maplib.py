"""Shared pieces of the `map` cluster (also used by `set`): atoms, validators,
line protocol, dict operations, generators.

Atoms on a case line:  i3 -> 3,  s3 -> '3'  (the Lean twin is `Py.KAtom`).
Only on '#' lines (implementation + oracle, never sent to the model):
  b0/b1 -> False/True, f2 -> 2.0, N -> None, U -> [] (unhashable),
  and in pair lists the malformed elements !3 (a 3-tuple) and !0 (a non-iterable).
"""
import itertools

from .seqlib import exc_name, exc_class  # noqa: F401  (re-exported)


# ------------------------------------------------------------------ atoms

def parse_atom(s):
    s = s.strip()
    c, rest = s[0], s[1:]
    if c == "i":
        return int(rest)
    if c == "s":
        return str(int(rest))
    if c == "b":
        return bool(int(rest))
    if c == "f":
        return float(int(rest))
    if s == "N":
        return None
    if s == "U":
        return []
    raise ValueError("bad atom %r" % s)


def show_atom(x):
    if isinstance(x, bool):
        return "b%d" % int(x)
    if isinstance(x, int):
        return "i%d" % x
    if isinstance(x, str):
        try:
            return "s%d" % int(x)
        except ValueError:
            return "s?"
    if isinstance(x, float):
        return "f%d" % int(x)
    if x is None:
        return "N"
    return "?"


def atom_key(x):
    """Canonical order: ints before strings, then by number (twin of `Atom.le`)."""
    try:
        return (1 if isinstance(x, str) else 0, int(x))
    except Exception:
        return (2, 0)


def parse_pairs(s):
    s = s.strip()
    assert s[0] == "[" and s[-1] == "]", s
    inner = s[1:-1].strip()
    out = []
    if not inner:
        return out
    for el in inner.split(","):
        el = el.strip()
        if el == "!3":
            out.append((1, 2, 3))
        elif el == "!0":
            out.append(5)
        else:
            k, v = el.split(":")
            out.append((parse_atom(k), parse_atom(v)))
    return out


def show_pairs(items):
    return "{" + ",".join("%s:%s" % (show_atom(k), show_atom(v)) for k, v in items) + "}"


def show_sorted(d):
    return show_pairs(sorted(d.items(), key=lambda kv: atom_key(kv[0])))


def show_pairlist(ps):
    return "[" + ",".join("%s:%s" % (show_atom(k), show_atom(v)) for k, v in ps) + "]"


# ------------------------------------------------------------------ validators

class Validator:
    """Python twin of `Py.KAtom.validator`; the ordinal is reset per operation.
    `pure(n, x)` is the validator as a function of (call ordinal, argument)."""

    def __init__(self, spec):
        self.spec = spec
        self.n = 0
        parts = spec.split(":")
        self.kind = parts[0]
        if self.kind == "failk":
            self.k = int(parts[1])
            self.exc = parts[2]

    def reset(self):
        self.n = 0

    def __call__(self, x):
        n = self.n
        self.n += 1
        return self.pure(n, x)

    # A callable OBJECT that is falsy: whether a validator was given is an `is None` question, never a
    # truth test (a rule-set object with __len__ == 0 is a legitimate validator).
    def __len__(self):
        return 0

    def __bool__(self):
        return False

    def __eq__(self, other):
        return isinstance(other, Validator) and other.spec == self.spec

    def __hash__(self):
        return hash(self.spec)

    def pure(self, n, x):
        from traits.api import TraitError
        k = self.kind
        if k == "id":
            return x
        if k == "toint":
            return int(x)
        if k == "tostr":
            return str(x)
        if k == "intonly":
            if isinstance(x, str):
                raise TraitError("str")
            return x
        if k == "rejneg":
            if int(x) < 0:
                raise TraitError("negative")
            return x
        if k == "range05":
            if isinstance(x, str) or not 0 <= x <= 5:
                raise TraitError("range")
            return x
        if k == "mod5":
            return int(x) % 5
        if k == "inc":
            return int(x) + 1
        if k == "failk":
            if n == self.k:
                raise exc_class(self.exc)("k-th call fails")
            return x
        raise AssertionError(self.spec)


class Recorder:
    """A notifier that is a falsy callable object (a notifier is called, never truth-tested)."""

    def __init__(self, fn):
        self.fn = fn

    def __call__(self, *args):
        return self.fn(*args)

    def __len__(self):
        return 0

    def __bool__(self):
        return False


TRAIT_SPECS = {"Int": "intonly", "CInt": "toint", "CStr": "tostr", "Range05": "range05", "Any": "id"}


# ------------------------------------------------------------------ dict operations

def parse_op(s):
    w = s.split()
    k = w[0]
    if k in ("si", "sd", "pd"):
        return (k, parse_atom(w[1]), parse_atom(w[2]))
    if k in ("di", "po", "sd1"):
        return (k, parse_atom(w[1]))
    if k in ("up", "um", "ug", "io", "iom") or k in SHAPED_OPS:
        return (k, parse_pairs(w[1]))
    if k in ("pi", "cl"):
        return (k,)
    raise ValueError("bad op %r" % s)


class Self:
    """Marker: the operation returned the receiver itself."""


# ---- argument shapes of update / |= / the constructor that the builtin dict accepts (malformed stream) ----
# The builtin decides "mapping or iterable of pairs" by `hasattr(arg, 'keys')` and then reads a mapping
# through keys() + __getitem__ only.

class DuckMap:
    """keys / items / __getitem__ / __iter__ / __len__, not a registered collections.abc.Mapping"""

    def __init__(self, d):
        self._d = d

    def keys(self):
        return self._d.keys()

    def items(self):
        return self._d.items()

    def __getitem__(self, k):
        return self._d[k]

    def __iter__(self):
        return iter(self._d)

    def __len__(self):
        return len(self._d)


class KeysOnlyMap:
    """the minimum the builtin dict needs of a mapping: keys() and __getitem__"""

    def __init__(self, d):
        self._d = d

    def keys(self):
        return list(self._d)

    def __getitem__(self, k):
        return self._d[k]


def shaped(shape, pairs):
    """The argument object for a list of pairs; returns (object, the pairs the builtin dict reads from it)."""
    import collections.abc
    if shape == "D":        # duck-typed mapping
        d = dict(pairs)
        return DuckMap(d), list(d.items())
    if shape == "K":        # keys() + __getitem__ only
        d = dict(pairs)
        return KeysOnlyMap(d), list(d.items())
    if shape == "S":        # a real Mapping subclass that is not a dict
        d = dict(pairs)

        class MapSub(collections.abc.Mapping):
            def __getitem__(self, k):
                return d[k]

            def __iter__(self):
                return iter(d)

            def __len__(self):
                return len(d)
        return MapSub(), list(d.items())
    if shape == "T":        # duck-typed mapping whose KEYS are 2-tuples (iterating it yields things that unpack as pairs)
        d = {(k, v): v for k, v in pairs}
        return DuckMap(d), list(d.items())
    if shape == "C":        # duck-typed mapping whose keys are 2-character strings
        d = {"%s%s" % (str(show_atom(k))[-1], str(show_atom(v))[-1]): v for k, v in pairs}
        return DuckMap(d), list(d.items())
    if shape == "P":        # iterable of pairs that also has an unrelated attribute named like a dict method
        class Pairs(list):
            values = None
        return Pairs(pairs), list(pairs)
    raise AssertionError(shape)


SHAPES = "DKSTCP"
SHAPED_OPS = {"u" + c: ("update", c) for c in SHAPES}
SHAPED_OPS.update({"i" + c: ("ior", c) for c in SHAPES})


def apply_op(d, op):
    """Apply a parsed op to a dict-like.  Returns the return value (Self for an
    in-place operator that returned the receiver)."""
    import operator
    k = op[0]
    if k == "si":
        d[op[1]] = op[2]
    elif k == "di":
        del d[op[1]]
    elif k == "up":
        d.update(list(op[1]))
    elif k == "um":
        d.update(dict(op[1]))
    elif k == "ug":
        d.update(p for p in op[1])
    elif k == "io":
        r = operator.ior(d, list(op[1]))
        return Self if r is d else r
    elif k == "iom":
        r = operator.ior(d, dict(op[1]))
        return Self if r is d else r
    elif k in SHAPED_OPS:
        how, shape = SHAPED_OPS[k]
        arg, _ = shaped(shape, op[1])
        if how == "update":
            d.update(arg)
        else:
            r = operator.ior(d, arg)
            return Self if r is d else r
    elif k == "sd":
        return ("v", d.setdefault(op[1], op[2]))
    elif k == "sd1":
        return ("v", d.setdefault(op[1]))
    elif k == "po":
        return ("v", d.pop(op[1]))
    elif k == "pd":
        return ("v", d.pop(op[1], op[2]))
    elif k == "pi":
        return ("p",) + tuple(d.popitem())
    elif k == "cl":
        d.clear()
    else:
        raise AssertionError(op)
    return None


def show_ret(r):
    if r is None:
        return "-"
    if r is Self:
        return "self"
    if r[0] == "v":
        return "v:" + show_atom(r[1])
    return "p:%s:%s" % (show_atom(r[1]), show_atom(r[2]))


# ------------------------------------------------------------------ generators

KEY_VALIDATORS = ["id", "id", "toint", "toint", "tostr", "tostr", "intonly", "rejneg", "mod5", "inc"]
VAL_VALIDATORS = ["id", "id", "tostr", "toint", "intonly", "rejneg"]
NOTIFIERS = ["r", "ro", "or", "ror", "oro", "o", "rr", "oor", "orr", ""]
EXCS = ["TraitError", "ValueError", "AttributeError", "RuntimeError", "KeyError", "TypeError"]


def rand_atom(rng, neg=True):
    n = rng.choice([0, 1, 1, 2, 2, 3, 4, 5, 6] + ([-1, -2] if neg else []))
    return ("i%d" if rng.random() < 0.6 else "s%d") % n


def rand_pairs(rng, maxn=4, neg=True, distinct=False):
    n = rng.randint(0, maxn)
    ps, seen = [], set()
    for _ in range(n):
        k = rand_atom(rng, neg)
        if distinct and k in seen:
            continue
        seen.add(k)
        ps.append("%s:%s" % (k, rand_atom(rng, neg)))
    return "[" + ",".join(ps) + "]"


def random_op(rng, keys, neg=True):
    """One random operation; `keys` = atoms likely to be present (bias towards hits)."""
    def key():
        if keys and rng.random() < 0.55:
            return rng.choice(keys)
        return rand_atom(rng, neg)
    r = rng.random()
    if r < 0.18:
        return "si %s %s" % (key(), rand_atom(rng, neg))
    if r < 0.27:
        return "di %s" % key()
    if r < 0.37:
        return "%s %s" % (rng.choice(["up", "up", "ug"]), rand_pairs(rng, 4, neg))
    if r < 0.43:
        return "um %s" % rand_pairs(rng, 4, neg, distinct=True)
    if r < 0.50:
        return "io %s" % rand_pairs(rng, 3, neg)
    if r < 0.55:
        return "iom %s" % rand_pairs(rng, 3, neg, distinct=True)
    if r < 0.70:
        return "sd %s %s" % (key(), rand_atom(rng, neg))
    if r < 0.78:
        return "po %s" % key()
    if r < 0.88:
        return "pd %s %s" % (key(), rand_atom(rng, neg))
    if r < 0.95:
        return "pi"
    return "cl"


def random_history(rng, kind="td", maxops=10):
    if kind == "pd":
        kv = vv = "id"
        ns = ""
    else:
        kv = rng.choice(KEY_VALIDATORS + ["failk:%d:%s" % (rng.randint(0, 3), rng.choice(EXCS))])
        vv = rng.choice(VAL_VALIDATORS + ["failk:%d:%s" % (rng.randint(0, 3), rng.choice(EXCS))])
        ns = rng.choice(NOTIFIERS)
    neg = "rejneg" not in (kv, vv) or rng.random() < 0.3
    if kv.startswith("failk") or vv.startswith("failk"):
        init = "[]" if rng.random() < 0.7 else rand_pairs(rng, 2, neg)
    else:
        init = rand_pairs(rng, 5, neg and rng.random() < 0.5)
    keys = [p.split(":")[0] for p in init[1:-1].split(",") if p]
    # after coercion the stored keys look different: offer both spellings
    keys = keys + [("s" if k[0] == "i" else "i") + k[1:] for k in keys]
    ops = [random_op(rng, keys, neg) for _ in range(rng.randint(1, maxops))]
    return "%s|%s|%s|%s|%s|%s" % (kind, kv, vv, ns, init, ";".join(ops))


def dict_trait_cases():
    """The value of a Dict(K, V) trait on a HasTraits owner (TraitDictObject), on a truthy (`tdo`) and on an
    alive-but-falsy (`tdof`) owner: every mutator with valid / convertible / invalid keys and values."""
    combos = [("Int", "Int"), ("CStr", "CInt"), ("CInt", "Any"), ("Any", "Range05"), ("Int", "CStr")]
    for kt, vt in combos:
        init = {"Int": "[i1:%s,i2:%s]", "CStr": "[s1:%s,s2:%s]", "CInt": "[i1:%s,i2:%s]", "Any": "[i1:%s,s2:%s]"}[kt]
        good = {"Int": "i4", "CInt": "i4", "Any": "i4", "Range05": "i4", "CStr": "s4"}[vt]
        init = init % (good, good)
        keys = ["i1", "s1", "i3", "s3"]
        vals = ["i5", "s5", "i9"]
        for kind in ("tdo", "tdof"):
            for ns in ("r", "ro"):
                head = "%s|%s|%s|%s|%s|" % (kind, kt, vt, ns, init)
                for k in keys:
                    yield head + "di %s;po %s;pd %s i0" % (k, k, k)
                    for v in vals:
                        yield head + "si %s %s" % (k, v)
                        yield head + "sd %s %s" % (k, v)
                        yield head + "up [%s:%s,i2:%s]" % (k, v, good)
                        yield head + "iom [%s:%s]" % (k, v)
                yield head + "pi;cl;cl;si i1 %s" % good


def random_dict_trait_history(rng, maxops=8):
    kt = rng.choice(["Int", "CStr", "CInt", "Any"])
    vt = rng.choice(["Int", "CInt", "CStr", "Any", "Range05"])
    kind = rng.choice(["tdo", "tdo", "tdof"])
    pairs, seen = [], set()
    for _ in range(rng.randint(0, 4)):
        k = rand_atom(rng, False)
        if k in seen:
            continue
        seen.add(k)
        pairs.append("%s:%s" % (k, rand_atom(rng, False)))
    keys = [p.split(":")[0] for p in pairs]
    keys = keys + [("s" if k[0] == "i" else "i") + k[1:] for k in keys]
    ops = [random_op(rng, keys, True) for _ in range(rng.randint(1, maxops))]
    return "%s|%s|%s|%s|[%s]|%s" % (kind, kt, vt, rng.choice(["r", "ro", "or", ""]), ",".join(pairs), ";".join(ops))


def exhaustive_single_ops(tier, kind="td"):
    """Every single operation on every small dict (<= 2 keys quick, <= 3 thorough
    drawn in every order from {1, '1', 2}) x argument shapes x validator pairs."""
    keys = ["i1", "s1", "i2"]
    argkeys = ["i1", "s1", "i2", "s2"]
    vals = ["i1", "s5"]
    maxk = 2 if tier == "quick" else 3
    states = []
    for n in range(maxk + 1):
        for perm in itertools.permutations(keys, n):
            states.append("[" + ",".join("%s:i7" % k for k in perm) + "]")
    ops = []
    for k in argkeys:
        ops += ["di " + k, "po " + k, "pd %s i0" % k]
        for v in vals:
            ops += ["si %s %s" % (k, v), "sd %s %s" % (k, v)]
    ops += ["pi", "cl"]
    plists = [[]] + [[k] for k in argkeys] + [[a, b] for a in argkeys for b in argkeys]
    if tier != "quick":
        plists += [[a, b, c] for a in argkeys for b in argkeys for c in argkeys]
    for pl in plists:
        txt = "[" + ",".join("%s:%s" % (k, vals[i % 2]) for i, k in enumerate(pl)) + "]"
        ops += ["up " + txt, "io " + txt]
        if len(set(pl)) == len(pl):
            ops += ["um " + txt, "iom " + txt]
    if kind == "pd":
        vpairs = [("id", "id")]
    elif tier == "quick":
        vpairs = [("id", "id"), ("toint", "id"), ("tostr", "tostr"), ("intonly", "id")]
    else:
        vpairs = [(a, b) for a in ("id", "toint", "tostr", "intonly", "inc", "failk:1:ValueError")
                  for b in ("id", "tostr", "intonly", "failk:0:TraitError")]
    for kv, vv in vpairs:
        for st in states:
            for op in ops:
                yield "%s|%s|%s|%s|%s|%s" % (kind, kv, vv, "" if kind == "pd" else "ro", st, op)


def malformed_history(rng):
    """'#' lines: keys/values outside the model (bool/float collisions, None,
    unhashable) and malformed pair iterables; implementation + oracle only."""
    specials = ["b0", "b1", "f1", "f2", "N", "U", "i1", "i2", "s1"]

    def a():
        return rng.choice(specials)

    def plist():
        els = []
        for _ in range(rng.randint(0, 3)):
            r = rng.random()
            els.append("!3" if r < 0.15 else "!0" if r < 0.3 else "%s:%s" % (a(), a()))
        return "[" + ",".join(els) + "]"
    ops = []
    for _ in range(rng.randint(1, 6)):
        r = rng.random()
        if r < 0.2:
            ops.append("si %s %s" % (a(), a()))
        elif r < 0.3:
            ops.append("di %s" % a())
        elif r < 0.4:
            ops.append("%s %s" % (rng.choice(["up", "ug", "io"]), plist()))
        elif r < 0.5:       # the same arguments in the other shapes the builtin dict accepts (see `shaped`)
            ops.append("%s%s %s" % (rng.choice("ui"), rng.choice(SHAPES), plist().replace("!3", "i3:i3").replace("!0", "s0:i1")))
        elif r < 0.65:
            ops.append("sd %s %s" % (a(), a()))
        elif r < 0.72:
            ops.append("sd1 %s" % a())
        elif r < 0.82:
            ops.append("po %s" % a())
        elif r < 0.92:
            ops.append("pd %s %s" % (a(), a()))
        else:
            ops.append(rng.choice(["pi", "cl"]))
    kv = rng.choice(["id", "id", "toint", "tostr", "intonly"])
    vv = rng.choice(["id", "tostr"])
    init = rng.choice(["[]", "[i1:i2]", "[i1:i2,i2:i3]", "[s1:i2,i0:i0]"])
    kind = "td" + rng.choice(SHAPES) if rng.random() < 0.25 else "td"
    return "#%s|%s|%s|%s|%s|%s" % (kind, kv, vv, rng.choice(["r", "ro", "or"]), init, ";".join(ops))
