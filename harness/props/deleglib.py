"""Shared pieces of the `deleg` cluster (C11): line protocol, real-code driver, generators.

Case line (one history):

    dg|<classes>|<objects>|<validators>|<op>;<op>;...

  classes     '/'-separated; one class = '<pfx>,<attr>,<attr>...'
                <pfx>   '-' : class body defines no __prefix__ ;  '=<text>' : __prefix__ = <text> ;
                        optionally followed by '^<k>': the class is a subclass of (earlier) class k and
                        inherits its __prefix__ and attributes unless it restates them
                <attr>  'name=T:<vid>:<default>[:<n|i|e>]'  typed attribute, validator number <vid>, comparison
                                                   mode none / identity / equality (default e)
                        'name=D:<rawprefix>'       DelegatesTo('d', prefix=<rawprefix>)
                        'name=P:<rawprefix>'       PrototypedFrom('d', prefix=<rawprefix>)
              every class also has the delegate reference attribute  d = Instance(HasTraits)
  objects     ','-separated class indices; object ids are positions
  validators  ','-separated specs: id | mod7 | rejneg | failat:<k>:<Exc>   (k = 0-based op index)
  ops         st <o> <name> <int>    o.name = int
              dl <o> <name>          del o.name
              sw <o> <t|N>           o.d = object t | None   (skipped when it would close a cycle)
              rd <o> <name>          read

Output per op (joined with ' ; '):

    <res> E[<events>] X<k> S[<snapshot>] F[<forwarders>]

  res        ok | ok <int> (read) | err <Exc> | skip
  events     sorted 'o.name:old>new' of the on_trait_change handlers attached to every declared attribute
  X<k>       number of exceptions swallowed by the notification exception handler during the op
  snapshot   per object 'v,v,...' for its declared attributes (declaration order), '!A' AttributeError,
             '!T' TraitError, '!O' other; objects separated by '/'
  forwarders per object the sorted entries 'name@<hooked object|->' of __listener_traits__
"""
import sys

EXC_NAMES = ("TraitError", "IndexError", "ValueError", "KeyError", "TypeError",
             "AttributeError", "OverflowError", "RuntimeError")


def exc_name(e):
    for c in type(e).__mro__:
        if c.__name__ in EXC_NAMES:
            return c.__name__
    return "Other"


def exc_short(e):
    n = exc_name(e)
    return {"AttributeError": "!A", "TraitError": "!T"}.get(n, "!O")


# ----------------------------------------------------------------- parsing

class AttrSpec:
    __slots__ = ("name", "kind", "vid", "dflt", "raw", "cmp")

    def __init__(self, s):
        self.name, _, rest = s.partition("=")
        parts = rest.split(":")
        self.kind = parts[0]
        if self.kind == "T":
            self.vid, self.dflt, self.raw = int(parts[1]), int(parts[2]), None
            self.cmp = parts[3] if len(parts) > 3 else "e"
            if self.cmp not in ("n", "i", "e"):
                raise ValueError(s)
        elif self.kind in ("D", "P"):
            self.vid = self.dflt = self.cmp = None
            self.raw = parts[1] if len(parts) > 1 else ""
        else:
            raise ValueError(s)


class ClassSpec:
    """One class of the line.  `own_*` is what the class body states; after `resolve` `.pfx`, `.attrs`,
    `.by_name` are the *effective* ones (a subclass `^k` inherits `__prefix__` and the attributes of class k
    unless it restates them; inherited attributes keep their position, new ones are appended)."""

    def __init__(self, s):
        parts = s.split(",")
        head = parts[0]
        self.base = None
        if "^" in head:
            head, b = head.split("^")
            self.base = int(b)
        if head == "-":
            self.own_pfx = None
        elif head.startswith("="):
            self.own_pfx = head[1:]
        else:
            raise ValueError(s)
        self.own_attrs = [AttrSpec(a) for a in parts[1:] if a]
        own = {a.name: a for a in self.own_attrs}
        if len(own) != len(self.own_attrs) or "d" in own:
            raise ValueError("duplicate / reserved attribute name: " + s)
        self.pfx, self.attrs, self.by_name = self.own_pfx, self.own_attrs, own

    def resolve(self, earlier):
        if self.base is None:
            return
        if self.base >= len(earlier):
            raise ValueError("base class must be an earlier class")
        b = earlier[self.base]
        own = {a.name: a for a in self.own_attrs}
        self.pfx = self.own_pfx if self.own_pfx is not None else b.pfx
        self.attrs = [own.get(a.name, a) for a in b.attrs] + [a for a in self.own_attrs if a.name not in b.by_name]
        self.by_name = {a.name: a for a in self.attrs}


def parse_classes(text):
    classes = []
    for c in text.split("/"):
        spec = ClassSpec(c)
        spec.resolve(classes)
        classes.append(spec)
    return classes


def parse_case(case):
    kind, classes, objects, validators, ops = case.split("|")
    if kind.lstrip("#") != "dg":
        raise ValueError(kind)
    classes = parse_classes(classes)
    objects = [int(x) for x in objects.split(",") if x.strip() != ""]
    validators = [v for v in validators.split(",") if v]
    ops = [parse_op(o) for o in ops.split(";") if o.strip()]
    return classes, objects, validators, ops


def parse_op(s):
    w = s.split()
    k = w[0]
    if k == "st":
        return (k, int(w[1]), w[2], int(w[3]))
    if k in ("dl", "rd"):
        return (k, int(w[1]), w[2])
    if k == "sw":
        return (k, int(w[1]), None if w[2] == "N" else int(w[2]))
    if k == "cp":          # cp A p: pickle round trip of the whole pool; cp <o> c: copy.copy of object o
        if (w[1] == "A") != (w[2] in ("p", "d")) or w[2] not in ("p", "c", "d"):
            raise ValueError(s)
        return (k, None if w[1] == "A" else int(w[1]), w[2])
    raise ValueError(s)


# ----------------------------------------------------------------- validators

class Env:
    """Python twin of Driver/Deleg.lean `parseValidator`: validator number, *op index* (the call ordinal of
    the model: at most one validator runs per operation), value."""

    def __init__(self, specs):
        self.specs = [s.split(":") for s in specs]
        self.op_index = 0
        self.calls = []
        self.world = None
        self.restoring = False     # inside a copy / unpickle: stored values are accepted as they are

    def validate(self, vid, obj):
        """Called by the real trait with the real object; returns the very object when the validator does not
        change the value (identity matters)."""
        if self.restoring:
            return obj
        tok = self.world.tok(obj)
        self.calls.append((vid, tok))
        r = self.pure(vid, self.op_index, tok)
        if vid < len(self.specs) and self.specs[vid][0] == "oshift":
            # an 'original value' trait (Expression, AdaptsTo): validate returns ANOTHER object (the compiled /
            # adapted form, here x + 50), the trait stores the assigned one (`pure` = what is stored)
            return self.world.obj(tok + 50)
        return obj if r == tok else self.world.obj(r)

    def pure(self, vid, k, x):
        from traits.api import TraitError
        if vid >= len(self.specs):
            return x
        s = self.specs[vid]
        if s[0] == "id":
            return x
        if s[0] == "mod7":
            return x if x >= 100 else x % 7
        if s[0] == "rejneg":
            if x < 0:
                raise TraitError("negative")
            return x
        if s[0] in ("int", "oshift"):
            return x
        if s[0] == "range":
            if not (int(s[1]) <= x <= int(s[2])):
                raise TraitError("out of range")
            return x
        if s[0] == "failat":
            if k == int(s[1]):
                raise {"TraitError": TraitError, "ValueError": ValueError, "RuntimeError": RuntimeError,
                       "TypeError": TypeError, "AttributeError": AttributeError}.get(s[2], Exception)("fails")
            return x
        raise AssertionError(s)


# ----------------------------------------------------------------- the real objects

# Values are written as *tokens*: an int below 100 is that (small, interned) int; a token from 100 on is one
# fixed object of the case, so that equal-but-distinct objects occur: 1 == 1.0 == True, two equal tuples, two
# equal lists, floats equal to the int defaults.  EQCLASS is Python's `==` on the pool (twin of the Lean driver).
SPECIAL = {100: lambda: float("1"), 101: lambda: True, 102: lambda: tuple([1, 2]), 103: lambda: tuple([1, 2]),
           104: lambda: float("3"), 105: lambda: float("4"), 106: lambda: [5], 107: lambda: [5]}
EQCLASS = {100: 1, 101: 1, 102: 1000, 103: 1000, 104: 3, 105: 4, 106: 1001, 107: 1001}


def eq_class(tok):
    return EQCLASS.get(tok, tok)


class World:
    """The pool built from the REAL classes."""

    def __init__(self, classes, objects, validators, falsy=None):
        from traits.api import HasTraits, Instance, DelegatesTo, PrototypedFrom, TraitType, Int, Range
        from traits.constants import ComparisonMode
        self.classes, self.env = classes, Env(validators)
        env = self.env
        env.world = self
        self.special = {t: f() for t, f in SPECIAL.items()}
        self.tok_of_id = {id(o): t for t, o in self.special.items()}
        modes = {"n": ComparisonMode.none, "i": ComparisonMode.identity, "e": ComparisonMode.equality}

        class VT(TraitType):
            def __init__(self, vid, dflt, cmp):
                super().__init__(dflt, comparison_mode=modes[cmp])
                self.vid = vid

            def validate(self, object, name, value):
                return env.validate(self.vid, value)

        class VTO(VT):
            """Stores the original value, like Expression / AdaptsTo (trait_types.py `as_ctrait`)."""

            def as_ctrait(self):
                ctrait = super().as_ctrait()
                ctrait.setattr_original_value = True
                return ctrait

        self.pyclasses = []
        for i, c in enumerate(classes):
            ns = {} if c.base is not None else {"d": Instance(HasTraits)}
            # a share of the cases runs on objects that are alive but FALSY (nothing in the statement depends on
            # the truth value of a delegator or delegate; catches `if not obj:` written for `if obj is None:`)
            if c.base is None and falsy == "bool":
                ns["__bool__"] = lambda self: False
            elif c.base is None and falsy == "len":
                ns["__len__"] = lambda self: 0
            if c.own_pfx is not None:
                ns["__prefix__"] = c.own_pfx
            for a in c.own_attrs:
                if a.kind == "T":
                    # validator specs `int` / `range:lo:hi` make the target a REAL Int / Range trait (C fast
                    # validators, no Python validate); every other spec a custom TraitType
                    spec = env.specs[a.vid] if a.vid < len(env.specs) else ["id"]
                    if spec[0] == "oshift":
                        ns[a.name] = VTO(a.vid, a.dflt, a.cmp)
                    elif spec[0] == "int":
                        ns[a.name] = Int(a.dflt, comparison_mode=modes[a.cmp])
                    elif spec[0] == "range":
                        ns[a.name] = Range(int(spec[1]), int(spec[2]), value=a.dflt, comparison_mode=modes[a.cmp])
                    else:
                        ns[a.name] = VT(a.vid, a.dflt, a.cmp)
                elif a.kind == "D":
                    ns[a.name] = DelegatesTo("d", prefix=a.raw)
                else:
                    ns[a.name] = PrototypedFrom("d", prefix=a.raw)
            bases = (HasTraits,) if c.base is None else (self.pyclasses[c.base],)
            # importable under this module's name, so that instances can be pickled (one world at a time)
            ns["__module__"] = __name__
            ns["__qualname__"] = "K%d" % i
            self.pyclasses.append(type(HasTraits)("K%d" % i, bases, ns))
            globals()["K%d" % i] = self.pyclasses[-1]
        self.cls_of = list(objects)
        self.objs = [self.pyclasses[k]() for k in objects]          # may raise: reported as init-err
        self.ids = {id(o): i for i, o in enumerate(self.objs)}
        self.events = []      # on_trait_change
        self.oevents = []     # observe
        self.exceptions = []
        self.graveyard = []   # replaced originals are kept alive (ids stay unique, weak references stay valid)
        for i in range(len(self.objs)):
            self._attach(i)

    def _attach(self, i):
        for a in self.spec(i).attrs:
            self.objs[i].on_trait_change(self._otc(i), a.name)
            self.objs[i].observe(self._obs(i), a.name)

    def copy_op(self, which, how):
        """Replace the whole pool by its pickle round trip (`which` None) or object `which` by `copy.copy` of
        it; the history continues on the copies, which get the same handlers the originals had."""
        import copy
        import pickle
        self.env.restoring = True
        try:
            if which is None and how == "d":
                new = copy.deepcopy(self.objs)          # HasTraits.__deepcopy__ = clone_traits(copy='deep')
                todo = range(len(self.objs))
            elif which is None:
                new = pickle.loads(pickle.dumps(self.objs, protocol=pickle.HIGHEST_PROTOCOL))
                todo = range(len(self.objs))
            else:
                new = list(self.objs)
                new[which] = copy.copy(self.objs[which])
                todo = [which]
        finally:
            self.env.restoring = False
        self.graveyard.append(self.objs)
        self.objs = new
        self.ids = {id(o): i for i, o in enumerate(self.objs)}
        for i in todo:
            self._attach(i)

    def _otc(self, i):
        ev = self.events

        def h(obj, name, old, new):
            if obj is not self.objs[i]:      # an original that was replaced by its copy: no longer in the pool
                return
            ev.append((i, name, self.tok(old), self.tok(new)))
        return h

    def _obs(self, i):
        ev = self.oevents

        def h(event):
            if event.object is not self.objs[i]:
                return
            ev.append((i, event.name, self.tok(event.old), self.tok(event.new)))
        return h

    # -- observations
    def spec(self, i):
        return self.classes[self.cls_of[i]]

    def tok(self, obj):
        t = self.tok_of_id.get(id(obj))
        if t is not None:
            return t
        if type(obj) is int and -100 < obj < 100:
            return obj
        return "?%s" % type(obj).__name__

    def obj(self, tok):
        return self.special[tok] if tok in self.special else tok

    def read(self, i, name):
        return self.tok(getattr(self.objs[i], name))

    def snapshot(self):
        """{(obj, name): int | '!X'} over all declared attributes."""
        out = {}
        for i, o in enumerate(self.objs):
            for a in self.spec(i).attrs:
                try:
                    out[(i, a.name)] = self.tok(getattr(o, a.name))
                except Exception as e:
                    out[(i, a.name)] = exc_short(e)
        return out

    def delegate_of(self, i):
        d = self.objs[i].__dict__.get("d")
        return None if d is None else self.ids[id(d)]

    def forwarders(self, i):
        """{name: hooked object id | None} read from __listener_traits__ / __traits_listener__."""
        o = self.objs[i]
        lt = o.__dict__.get("__listener_traits__", {})
        tl = o.__dict__.get("__traits_listener__", {})
        out = {}
        for name in lt:
            hooked = "?"
            for pat, wrappers in tl.items():
                for w in wrappers:
                    if getattr(w, "handler", None) is lt[name]:
                        nxt = w.listener.next
                        keys = [self.ids.get(id(k), "?") for k in list(nxt.active.keys())]
                        hooked = None if not keys else (keys[0] if len(keys) == 1 else "+".join(map(str, keys)))
            out[name] = hooked
        return out

    def local(self, i, name):
        return name in self.objs[i].__dict__


def show_snapshot(world, snap):
    return "/".join(",".join(str(snap[(i, a.name)]) for a in world.spec(i).attrs) for i in range(len(world.objs)))


def show_forwarders(world):
    parts = []
    for i in range(len(world.objs)):
        f = world.forwarders(i)
        parts.append("+".join("%s@%s" % (n, "-" if f[n] is None else f[n]) for n in sorted(f)))
    return "/".join(parts)


def show_events(evs):
    try:
        evs = sorted(evs)
    except TypeError:
        evs = sorted(evs, key=lambda e: (e[0], e[1], str(e[2]), str(e[3])))
    return ",".join("%d.%s:%s>%s" % e for e in evs)


def falsy_mode(case):
    """Replay-stable switch: a quarter of the cases each with __bool__ -> False / __len__ -> 0 classes."""
    import zlib
    return {2: "bool", 3: "len"}.get(zlib.crc32(case.lstrip("#").encode()) % 4)


def would_cycle(deleg, o, t):
    """Would o.d = t close a cycle in the delegate graph?"""
    seen = 0
    cur = t
    while cur is not None and seen <= len(deleg) + 1:
        if cur == o:
            return True
        cur = deleg.get(cur)
        seen += 1
    return False


# ----------------------------------------------------------------- documented semantics (used by the ORACLE only)

def doc_target(attr, name, cls):
    """Delegate docstring (trait_types.py:1102-1115): name of the attribute deferred to."""
    raw = attr.raw
    if raw == "":
        return name
    if not raw.endswith("*"):
        return raw
    if len(raw) > 1:
        return raw[:-1] + name
    return (cls.pfx or "") + name


# ----------------------------------------------------------------- generators

SHAPES = {
    # name: (classes, objects) ; object 0 is the top of the chain
    # 1. same name, DelegatesTo, chain of 3 ending in a plain attribute
    "same-D": ("-,x=D:,y=T:1:2/-,x=D:,y=T:1:2/-,x=T:0:3,y=T:1:4", "0,1,2,2"),
    # 2. same name, PrototypedFrom chain
    "same-P": ("-,x=P:,y=T:1:2/-,x=P:,y=T:1:2/-,x=T:0:3,y=T:1:4", "0,1,2,2"),
    # 3. explicit name
    "expl-D": ("-,x=D:val,y=P:val/-,val=T:0:3,x=T:1:5", "0,0,1,1"),
    "expl-P": ("-,x=P:val,z=D:x/-,val=T:0:3,x=T:1:5", "0,0,1,1"),
    # 4. 'p_*'
    "pre-D": ("-,x=D:p_*,y=D:p_*/-,p_x=T:0:3,p_y=T:1:4,x=T:0:7", "0,0,1,1"),
    "pre-P": ("-,x=P:p_*,y=D:p_*/-,p_x=T:0:3,p_y=T:1:4,x=T:0:7", "0,0,1,1"),
    # 5. '*' with __prefix__
    "star-D": ("=q_,x=D:*,y=P:*/-,q_x=T:0:3,q_y=T:1:4,x=T:0:7", "0,0,1,1"),
    "star-P": ("=q_,x=P:*,y=D:*/-,q_x=T:0:3,q_y=T:1:4,x=T:0:7", "0,0,1,1"),
    # mixed chains: DelegatesTo through PrototypedFrom and the reverse
    "D-P-T": ("-,x=D:/-,x=P:/-,x=T:0:3", "0,1,2,2"),
    "P-D-T": ("-,x=P:/-,x=D:/-,x=T:0:3", "0,1,2,2"),
    # one class deferring to itself-typed objects: chain of the same class, last link to a plain holder
    "self-D": ("-,x=D:,y=P:x/-,x=T:0:3", "0,0,0,1"),
    # '*' chains: same prefix at both levels / different prefixes
    "star2-same": ("=a_,x=D:*/=a_,a_x=D:*/-,a_a_x=T:0:1,b_a_x=T:0:2", "0,1,2,2"),
    "star2-diff": ("=a_,x=D:*/=b_,a_x=D:*/-,a_a_x=T:0:1,b_a_x=T:0:2", "0,1,2,2"),
    "star2-diffP": ("=a_,x=P:*/=b_,a_x=P:*/-,a_a_x=T:0:1,b_a_x=T:1:2", "0,1,2,2"),
    # '*' chain whose write walk ends on c.a_a_x while reads / listener hooks go on through c.b_a_x -> d.b_a_x:
    # the only shape where `del` of a prototyped value can raise after deleting
    "star2-deep": ("=a_,x=P:*/=b_,a_x=P:*/-,a_a_x=T:0:1,b_a_x=P:/-,b_a_x=T:1:2", "0,1,2,3,3"),
    # prefix chains with renaming at every level
    "pre-chain": ("-,x=D:p_*/-,p_x=P:q_*/-,q_p_x=T:0:3,p_x=T:1:9", "0,1,2,2"),
    # inheritance: '*' (and the other styles) used through SUBCLASSES of the deferring class: inheriting
    # __prefix__ without restating it, restating it, overriding it, overriding one attribute
    "star-sub": ("=q_,x=D:*,y=P:*/-^0/=q_^0/=r_^0/-^0,y=D:*,z=P:x/"
                 "-,q_x=T:0:3,q_y=T:1:4,x=T:0:7,y=T:1:8,r_x=T:0:5,r_y=T:1:6", "1,2,3,4,0,5,5"),
    "star-sub2": ("=q_,x=P:*/-^0,y=D:*/-^1/-,q_x=T:0:3,q_y=T:1:4,x=T:0:7,y=T:1:8", "2,1,0,3,3"),
    "sub-styles": ("-,x=D:,y=P:val,z=D:p_*/-^0/=p_^0,w=P:*/-,x=T:0:3,val=T:1:4,p_z=T:0:5,p_w=T:1:6,w=T:0:9,z=T:0:8",
                   "1,2,0,3,3"),
    # a subclass RE-DECLARES an inherited deferring attribute under the same name with another prefix / style /
    # kind: values AND notifications must follow the subclass's own declaration (its own __listener_traits__
    # pattern, has_traits.py:553-556), not the base's; base and subclass instances share the target objects
    "redeclare": ("-,x=D:,y=P:val,z=D:p_*/-^0,x=D:val,y=D:p_*,z=P:/=q_^0,x=P:*,z=D:other/-^1,x=P:p_*/"
                  "-,x=T:0:3,val=T:1:4,p_z=T:0:5,p_y=T:1:6,z=T:0:8,q_x=T:0:9,other=T:1:2,y=T:0:1,p_x=T:1:7",
                  "0,1,2,3,4,4"),
    "redeclare2": ("=a_,x=D:*,y=P:*/=b_^0,y=D:a_*/-^0,x=D:b_*,y=P:/"
                   "-,a_x=T:0:3,a_y=T:1:4,b_x=T:0:5,b_y=T:1:6,x=T:0:7,y=T:1:8", "0,1,2,3,3"),
    # comparison modes of the TARGET trait (identity / none / equality) with equal-but-distinct values: the
    # handlers of the deferring attribute hear exactly the changes the target's trait reports
    "cmp-D": ("-,a=D:,b=D:,c=D:,pa=P:a/-,a=T:0:3:i,b=T:0:3:n,c=T:0:3:e", "0,0,1,1"),
    "cmp-P": ("-,a=P:,b=P:,c=P:,dc=D:c/-,a=T:0:3:i,b=T:0:4:n,c=T:0:3:e", "0,0,1,1"),
    "cmp-chain": ("-,a=D:,b=P:,c=D:/-,a=P:,b=D:,c=D:/-,a=T:0:3:i,b=T:1:4:n,c=T:0:1:e", "0,1,2,2"),
    # malformed: target missing on the delegate's class; '*' without __prefix__; empty __prefix__
    "missing": ("-,x=D:nope,y=P:nope/-,x=T:0:3", "0,0,1"),
    "star-nopfx": ("-,x=D:*/-,x=T:0:3", "0,1"),
    "star-emptypfx": ("=,x=D:*,y=P:*/-,x=T:0:3,y=T:1:4", "0,0,1,1"),
    # the shortest wildcard prefix: one character and the asterisk (`len(prefix) > 1` in get_delegate_pattern)
    # (on a class WITH __prefix__: a pattern that wrongly keeps its asterisk would pick the class prefix up)
    "pre1": ("=q_,x=D:p*,y=P:p*/-,px=T:0:3,py=T:1:4,x=T:0:7,pq_x=T:1:5,pq_y=T:0:6", "0,0,1,1"),
}
MAIN_SHAPES = ["same-D", "same-P", "expl-D", "expl-P", "pre-D", "pre-P", "star-D", "star-P"]
CHAIN_SHAPES = ["D-P-T", "P-D-T", "self-D", "star2-same", "star2-diff", "star2-diffP", "star2-deep", "pre-chain"]
ODD_SHAPES = ["missing", "star-nopfx", "star-emptypfx", "pre1"]
CMP_SHAPES = ["cmp-D", "cmp-P", "cmp-chain"]
# tokens of equal-but-distinct objects (see SPECIAL) next to the ints they are equal to
CMP_VALUES = [1, 100, 101, 1, 100, 3, 104, 3, 4, 105, 102, 103, 102, 106, 107, 2]
SUB_SHAPES = ["star-sub", "star-sub2", "sub-styles", "redeclare", "redeclare2"]


def random_validators(rng, nops, real=False):
    if real and rng.random() < 0.3:
        return [rng.choice(["int", "range:0:9", "range:0:9", "rejneg"]) for _ in range(2)]
    pool = ["id", "id", "mod7", "rejneg", "rejneg",
            "failat:%d:%s" % (rng.randint(0, max(0, nops - 1)),
                              rng.choice(["TraitError", "ValueError", "RuntimeError"]))]
    return [rng.choice(pool), rng.choice(pool)]


def random_history(rng, shape, maxops=12, build_first=None):
    classes, objects = SHAPES[shape]
    cls = parse_classes(classes)
    objs = [int(x) for x in objects.split(",")]
    n = len(objs)
    nops = rng.randint(1, maxops)
    ops = []
    # mostly: first wire the chain bottom-up (valid), sometimes top-down / partially / not at all
    mode = rng.random() if build_first is None else build_first
    order = list(range(n - 1))
    if mode < 0.55:
        wiring = [(i, _next_obj(objs, i, rng, cls)) for i in reversed(order)]
    elif mode < 0.75:
        wiring = [(i, _next_obj(objs, i, rng, cls)) for i in order]
    elif mode < 0.9:
        wiring = [(i, _next_obj(objs, i, rng, cls)) for i in rng.sample(order, rng.randint(0, len(order)))]
    else:
        wiring = []
    for (o, t) in wiring:
        if t is not None:
            ops.append("sw %d %d" % (o, t))
    names = lambda i: [a.name for a in cls[objs[i]].attrs]
    while len(ops) < nops + len(wiring):
        r = rng.random()
        o = rng.randrange(n)
        nm = names(o)
        if r < 0.40:
            if shape in CMP_SHAPES:
                v = rng.choice(CMP_VALUES) if rng.random() < 0.92 else rng.choice([-1, 5])
            else:
                v = rng.choice([0, 1, 2, 3, 4, 5, 6, 7, 8, 9, 11, 12]) if rng.random() < 0.8 else rng.choice([-1, -2, -5])
            ops.append("st %d %s %d" % (o, rng.choice(nm), v))
        elif r < 0.55:
            ops.append("dl %d %s" % (o, rng.choice(nm)))
        elif r < 0.80:
            t = rng.choice([None] + list(range(n))) if rng.random() < 0.5 else _next_obj(objs, o, rng, cls)
            ops.append("sw %d %s" % (o, "N" if t is None else t))
        elif r < 0.83 and shape not in CMP_SHAPES:
            # the history continues on a copy: pickle round trip of the whole pool / copy.copy of one object
            ops.append(rng.choice(["cp A p", "cp A d"]) if rng.random() < 0.6 else "cp %d c" % o)
        elif r < 0.97:
            ops.append("rd %d %s" % (o, rng.choice(nm)))
        else:
            ops.append("st %d %s %d" % (o, rng.choice(["nope", "zz"]), rng.randint(0, 9)))
    vals = random_validators(rng, len(ops), real=shape not in CMP_SHAPES)
    if shape in CMP_SHAPES and rng.random() < 0.7:
        vals = ["id", "id"]
    return "dg|%s|%s|%s|%s" % (classes, objects, ",".join(vals), ";".join(ops))


P_SHAPES = ["same-P", "expl-P", "pre-P", "star-P", "P-D-T", "star2-diffP", "pre-chain", "star-sub2", "cmp-P", "pre1"]


def rejected_history(rng, shape):
    """'An assignment rejected by the target's validator, then a change on the prototype must still notify the
    listeners of the deferring attribute': chain wired bottom-up, an assignment through a PrototypedFrom (or
    any deferring) attribute that the validator at the end of the chain rejects (Int-like custom TraitType,
    real Range, k-th-operation-fails), then assignments of every typed attribute of every other object, then a
    short random tail."""
    classes, objects = SHAPES[shape]
    cls = parse_classes(classes)
    objs = [int(x) for x in objects.split(",")]
    n = len(objs)
    ops = []
    for i in reversed(range(n - 1)):
        t = _next_obj(objs, i, rng, cls)
        if t is not None and rng.random() < 0.95:
            ops.append("sw %d %d" % (i, t))
    deferring = [(i, a.name) for i in range(n) for a in cls[objs[i]].attrs if a.kind in ("P", "D")]
    protos = [(i, a.name) for i in range(n) for a in cls[objs[i]].attrs if a.kind == "P"] or deferring
    o, a = rng.choice(protos if rng.random() < 0.85 else deferring)
    if rng.random() < 0.3:                                      # sometimes from the unlinked state
        ops.append("st %d %s %d" % (o, a, rng.choice([1, 5, 8])))
        if rng.random() < 0.6:
            ops.append("dl %d %s" % (o, a))
    kind = rng.choice(["rejneg", "range", "range", "failat"]) if shape not in CMP_SHAPES else "rejneg"
    if kind == "failat":
        vals = ["failat:%d:%s" % (len(ops), rng.choice(["TraitError", "ValueError", "RuntimeError"]))] * 2
        ops.append("st %d %s %d" % (o, a, rng.choice([0, 2, 6, 9])))
    else:
        vals = ["rejneg", "rejneg"] if kind == "rejneg" else ["range:0:9", "range:0:9"]
        ops.append("st %d %s %d" % (o, a, rng.choice([-1, -2, -5] if kind == "rejneg" else [-1, 11, 12, -5])))
    typed = [(j, b.name) for j in range(n) for b in cls[objs[j]].attrs if b.kind == "T"]
    rng.shuffle(typed)
    for (j, b) in typed[:6]:
        ops.append("st %d %s %d" % (j, b, rng.choice([0, 1, 2, 4, 5, 6, 8, 9])))
    for _ in range(rng.randint(0, 4)):
        r = rng.random()
        j = rng.randrange(n)
        nm = [b.name for b in cls[objs[j]].attrs]
        if r < 0.15 and shape not in CMP_SHAPES:
            ops.append(rng.choice(["cp A p", "cp A d"]) if rng.random() < 0.6 else "cp %d c" % j)
        elif r < 0.4:
            ops.append("st %d %s %d" % (j, rng.choice(nm), rng.choice([0, 3, 7, 9, -1, 12])))
        elif r < 0.6:
            ops.append("dl %d %s" % (j, rng.choice(nm)))
        else:
            ops.append("rd %d %s" % (j, rng.choice(nm)))
    return "dg|%s|%s|%s|%s" % (classes, objects, ",".join(vals), ";".join(ops))


def original_value_history(rng, shape):
    """Target traits of the 'original value' kind (Expression, AdaptsTo: validate returns another object than
    the one stored): 'a local value of a PrototypedFrom attribute is what a direct assignment to the target
    trait would store'.  Every assignment uses a value not used before in the history, so the identity
    pre-filter of setattr_trait (which compares the VALIDATED object, finding F22 of C02) never matters."""
    classes, objects = SHAPES[shape]
    cls = parse_classes(classes)
    objs = [int(x) for x in objects.split(",")]
    n = len(objs)
    ops = []
    for i in reversed(range(n - 1)):
        t = _next_obj(objs, i, rng, cls)
        if t is not None and rng.random() < 0.95:
            ops.append("sw %d %d" % (i, t))
    fresh = list(range(20, 50))
    rng.shuffle(fresh)
    deferring = [(i, a.name) for i in range(n) for a in cls[objs[i]].attrs if a.kind in ("P", "D")]
    for _ in range(rng.randint(2, 9)):
        r = rng.random()
        j = rng.randrange(n)
        nm = [b.name for b in cls[objs[j]].attrs]
        if r < 0.35 and deferring:
            o, a = rng.choice(deferring)
            ops.append("st %d %s %d" % (o, a, fresh.pop()))
        elif r < 0.55:
            ops.append("st %d %s %d" % (j, rng.choice(nm), fresh.pop()))
        elif r < 0.7:
            ops.append("dl %d %s" % (j, rng.choice(nm)))
        elif r < 0.8:
            ops.append(rng.choice(["cp A p", "cp A d"]) if rng.random() < 0.6 else "cp %d c" % j)
        else:
            ops.append("rd %d %s" % (j, rng.choice(nm)))
    return "dg|%s|%s|oshift,oshift|%s" % (classes, objects, ";".join(ops))


def _next_obj(objs, i, rng, cls=None):
    """A plausible delegate for object i: an object of the next class in the chain; when there is none, an
    object whose class declares one of the attributes object i defers to (or of the same class)."""
    want = objs[i] + 1
    cands = [j for j, k in enumerate(objs) if k == want and j != i]
    if not cands and cls is not None:
        mine = cls[objs[i]]
        targets = {doc_target(a, a.name, mine) for a in mine.attrs if a.kind in ("D", "P")}
        cands = [j for j, k in enumerate(objs) if j != i and targets & set(cls[k].by_name)
                 and any(b.kind == "T" for b in cls[k].attrs)]
    if not cands or rng.random() < 0.15:
        cands = [j for j in range(len(objs)) if j != i]
    return rng.choice(cands) if cands else None
