"""C16 — legacy on_trait_change extended names agree with observe on unshared graphs.

Case line (see lean/TraitsVerif/Driver/Legacy.lean):

    arity link* final | op ; op ; ...

BOTH real APIs are registered on the same tree-shaped graph with recording
handlers; after every operation every allocated object (also the detached ones)
is probed on `value` and `aux`.  Output per op:

    ok L=<legacy calls> O=<observe calls> P=<lv>/<la>/<ov>/<oa> A=<active tables> H=<legacy notifiers>

The Lean model computes L, A, H with the transcribed listener machinery and O / ov / oa
with the reachability specification, so one string comparison checks the model of the
legacy code AND that the real observe implements the specification.
"""
from . import c16lib as G

PROPERTY = "C16"
DRIVER = "TraitsVerif/Driver/Legacy.lean"
PROPS_MODULES = ["TraitsVerif.Props.C16"]
TRANSLATORS = ["legacysrc"]
RULE = ("names: 1-3 links over child (Instance) / kids (List) / byname (Dict) / group (Set; not with value-equality "
        "nodes, which are unhashable) with '.' or ':' after each link; 10% of the random names have a GROUP `[a,b]` / `[a,b,c]` of distinct link "
        "traits at one position (legacy `[child,kids].value`, observe `[child,kids.items].value`) and 10% end in the "
        "metadata name `+tag` / the optional name `value?` / the prefix wildcard `val+` (observe side: plain `value`) (all match `value` only) - both real APIs and the oracle, not the Lean driver; final "
        "value|aux, handler signatures with 0, 3, 4 arguments (1 and 2 arguments with ':' links only, implementation + "
        "oracle only); histories of 1-12 operations built with a shadow tree so "
        "that ~60% of the mutations hit an object currently reachable along the name at the link the name follows "
        "there, the rest hit off-path attributes, detached objects, invalid indices / keys / objects (skipped on both "
        "sides), removal and re-registration; after EVERY operation every allocated object (also detached ones) is "
        "probed on both scalars. List ops: reassign, append, insert, del, item and slice assignment, clear; dict ops: "
        "reassign, __setitem__, update and |= mixing existing and new keys (ONE event with changed+added), setdefault, "
        "del, pop, popitem, clear; set ops: reassign, add, |=, remove, ^= {member, fresh} (ONE event with removed+added), clear; "
        "detached containers: after a List/Dict/Set link has been reassigned the generator keeps the OLD container and "
        "(30% of the ops on such a link) puts a fresh object into it (xa) or takes one out (xr) - the graph is unchanged, "
        "nothing may be reported and the stray object must stay silent; carry-over changes in which objects are on BOTH sides of one container change "
        "(the graph stays a tree): reverse(), sort(), kids[:] = rotation / tail + fresh, o.kids = o.kids[d:] + fresh, "
        "o.kids = list(reversed(o.kids)), o.byname = dict(reversed(items[d:])). 7% of the histories are "
        "handler(new) / handler(name, new) registrations of 'child.value' (the documented mapped case; oracle only) "
        "whose link is reassigned to fresh objects with an equal / a different final value. 30% of the histories ('E') use a node class with value-based __eq__ (unhashable) "
        "and replace items / dict values by equal CLONES, so that any use of == instead of identity shows. "
        "Exhaustive: all histories of length <= 2 (quick) / <= 3 (thorough) over an 8-35 letter "
        "alphabet (every op kind on the two upper objects, probes, rm, rg) on a 3-object tree for 19 fixed names (2 with Set links) "
        "(2 with value-equality nodes, 3 with deferred registrations, 2 with falsy nodes, 2 with `_items` names), registered before and after the tree is built. "
        "20% of the histories use node classes that are alive but FALSY ('F': __len__ = number of kids, falsy until the "
        "node gets kids; 'Z': __bool__ always False) and 20% use link trait NAMES containing `_items` ('N': "
        "sub_items_node / kid_items / line_items); truth values and names are opaque to the statement and the model. "
        "30% of the histories use deferred=True registrations ('D': @on_trait_change-decorated method of the root's "
        "class when the history starts with rg, on_trait_change(root._h, name, deferred=True) for later "
        "re-registrations; 'K': the keyword with a plain function), mostly with a List/Dict first link and with more "
        "rm/rg toggles, so that registrations, removals and re-registrations happen with items present. "
        "A case is non-trivial when some handler was called; distinct = distinct canonical output line")
TRUSTED = ["translation tie (harness/translate/legacysrc.py -> Generated/LegacyProg.lean, language Model/LisL.lean): the "
           "leaves of the translated methods are effects on the runtime whose meaning is fixed by the interpreter: "
           "`object._on_trait_change(h, name, remove=remove, ...)` appends / removes the first equal notifier, "
           "`getattr(object, name)` of an Instance / List / Set / Dict link yields `targets` (None yields nothing), "
           "`trait.handler.default_value_type` of the four link kinds is constant / trait_list_object / trait_dict_object "
           "/ trait_set_object (LisL.dvtOf); the wildcard / metadata / optional branches of register(), handle_dst, "
           "handle_error and handle_list_items_special are pinned as normalised text, not interpreted",
           "the reachability specification `reach`/`specCalls` (Model/Legacy.lean) is what observe is taken to promise; "
           "it is re-computed independently in Python on the real object graph (c16lib.levels) by the oracle",
           "calls of a 0-argument legacy handler carry no object/name; they are attributed to the object and trait "
           "the operation changed",
           "scalar contents are not modelled: a probe is `o.value += 1` (always a real change)"]
ASSUMPTIONS = ["a detached container (replaced on its owner, still held by the caller) is not part of the graph: objects "
               "put into it are allocated and referenced from nowhere (model: Op.stray)",
               "the members of a Set link are kept in insertion order in the model; the implementation side mirrors that "
               "order to pick the i-th member; nothing observable depends on it",
               "tree-shaped graphs: an object added by a container change is fresh or was in that same container "
               "before the change (reorderings, carry-over reassignments); objects removed from the tree stay in the "
               "probe pool but are never re-inserted",
               "group names and the metadata name `+tag`: differential of the two real APIs + reachability oracle; Lean: "
               "C16_group_agree on the member-chain expansion (every member its own copy of the later items; the real "
               "code shares them, unobservable on trees - oracle only); `*` recursion, `-` anytrait, prefix wildcards "
               "and `?` names are not generated",
               "Lean model: no wildcards/metadata/?/* names, ListenerGroup only as member expansion, no 1-/2-argument (DST) "
               "handlers in the model; dispatch other than 'same' is outside the agreement statement (the handler itself then "
               "runs at another time); what IS checked for dispatch='new'/'ui' is that the machinery's own re-registration "
               "handlers stay synchronous for every link kind (extra_checks + C16_reregistration_sync; F105-legacy-dict-dispatch, "
               "repaired in /repo 257ca45) "
               "(1/2 arguments: oracle only, with ':' links or on the two-level 'child.value' shape; "
               "None is not assigned to the link there: handle_dst raises TraitError), dispatch='same', priority=False",
               "ListenerParser: translated (legacysrc -> Generated/LegacyProg.lean `parse_item` / `pprog`, language "
               "Model/ParL.lean) and interpreted at TOKEN level: C16_parser_is_source proves that every name "
               "a0 c0 a1 c1 ... final of the fragment parses to the chain the model assumes (notify = connector is '.', "
               "handler type and deferred only on the first item).  The tokenizer (the properties next / skip_ws / "
               "backspace / name and the two regular expressions) is pinned text, read as: an identifier is one token, "
               "every other significant character one token, EOS a character different from all of them; the "
               "name STRINGS handed to the two real APIs are produced from one AST and the correspondence covers the "
               "tokenization; `*` cycles, metadata and `?` names are interpreted by the parser embedding but not by the "
               "registration model"]
EXHAUSTIVE = {"quick": False, "thorough": True}


def corpus():
    return [
        "4 c. k. v|sc 0 1;sk 1 2;rg;ap 1;pv 3;sl 1 0 1 0;sk 1 0;sc 0 0;rm;pv 1",
        "4 k. v|sk 0 1;rg;ap 0;sk 0 1",
        "0 k. v|sk 0 1;rg;ap 0;sk 0 1;rm;ap 0",
        "0 c. b. v|sc 0 1;sb 1 0 1;rg;ds 1 0;ds 1 2;dd 1 1;dc 1;sb 1 5;rm",
        "4 b: c: x|rg;sb 0 1 2;sc 1 1;sc 2 1;ds 0 1;px 3;px 4;px 5;dd 0 2;rm;rg",
        "3 c: c. v|rg;sc 0 1;sc 1 1;sc 0 1;pv 2;sc 3 1;sc 1 1;rm",
        "4 k. k. v|sk 0 2;sk 1 2;rg;sl 0 0 1 1;in 0 1;dl 0 0;cl 1;cl 0",
        "4 b. v|rg;ds 0 1;ds 0 1;ds 0 2;dd 0 7;sl 0 3 1 1;sc 9 1;dc 0;dc 0",
        # one update() / |= that both replaces existing keys and adds new ones (seeded change C16-m1)
        "4 b: v|rg;ds 0 0;ds 0 1;du 0 0 2 1;ds 0 2;di 0 2 4;sd 0 4;sd 0 5;dp 0 0;dq 0",
        "0 c. b. v|sc 0 1;rg;du 1 1 2;di 1 2 3 1;dq 1;dp 1 1",
        # value-equality nodes, items replaced by equal clones (seeded change C16-m2)
        "E 4 k: v|rg;sk 0 3;si 0 0;sl 0 1 3 2;si 0 2;ap 0;sl 0 0 2 2",
        "E 4 b. k. v|rg;ds 0 0;sk 1 2;si 1 1;ds 0 0;du 0 0 1;ap 2",
        # deferred registrations (decorator / keyword) over container first links, removal with
        # items present (seeded change C16-m4), re-registration with items present (F87, fixed in 0c9dae1)
        "D 4 k: v|rg;sk 0 2;rm;pv 1;ap 0;rg;ap 0;rm",
        "K 4 b. v|rg;ds 0 1;ds 0 2;rm;ds 0 3;rg;ds 0 1;rm",
        "D 0 k. c: v|rg;ap 0;sc 1 1;rm;rg;sk 0 1;sc 4 1;rm",
        # carry-over: objects on both sides of ONE container change (seeded change C16-m6)
        "4 k: v|sk 0 3;rg;rv 0;so 0;ro 0;kp 0 1 1;kc 0 1 1;kr 0;pv 2",
        "4 c. k. c: v|sc 0 1;sk 1 2;sc 2 1;sc 3 1;rg;rv 1;kc 1 1 1;kr 1;rm",
        "0 b. v|sb 0 1 2 3;rg;bd 0 0;bd 0 1;bd 0 5",
        # handler(new) / handler(name, new) on 'child.value': the link is reassigned to a fresh object
        # with an equal / a different final value (seeded change C16-m7)
        "#1 c. v|sc 0 1;rg;sc 0 2;sc 0 1;sc 0 2;pv 4;rm;sc 0 2",
        "#D 2 c. x|rg;sc 0 1;sc 0 2;px 2;sc 0 2",
        # falsy nodes (seeded change C16-m8), link trait names containing `_items` (C16-m9)
        "F 4 c. k: v|rg;sc 0 1;pv 1;sk 1 2;pv 1;ap 2;pv 2;pv 3;sc 0 1;rm",
        "Z 0 k. b: v|sk 0 2;rg;ds 1 0;ap 0;pv 3;pv 4;rm;pv 3",
        "N 4 b: v|rg;ds 0 0;ds 0 1;ds 0 0;du 0 0 2 1;di 0 2 4;pv 5;rm;pv 5",
        "N 4 c. k. b. v|rg;sc 0 1;ap 1;ds 2 0;ds 2 0;rv 1;sk 1 1;rm",
        # Set links: _register_set = _register_list, handle_list(_items) on TraitSetEvent (seeded change C16-m11)
        "4 s. v|ss 0 2;rg;ga 0;gr 0 0;gx 0 0;ss 0 1;xa 0 s;xr 0 s;gc 0;rm",
        "0 c: s: v|sc 0 1;rg;ss 1 2;gr 1 1;gu 1 2;pv 3;rm",
        "K 4 s: v|ss 0 1;rg;ga 0;rm;rg",
        # group names `[a,b]` (ListenerGroup: fan-out, the items share the next ListenerItem) and the metadata name `+tag`
        # (wildcard branch of ListenerItem.register, trait_added hook): both real APIs + oracle
        "#4 ck. v|sc 0 1;sk 0 2;rg;ap 0;sc 0 1;dl 0 0;pv 1;rm",
        "#0 c. kb: x|rg;sc 0 1;ap 1;ds 1 0;px 2;sk 1 1;rm",
        "#3 cs. c: m|rg;sc 0 1;ga 0;sc 1 1;sc 2 1;gr 0 0",
        "#4 k: m|sk 0 1;rg;ap 0;pv 1;px 1;rm",
        "#K 4 kb: v|sk 0 1;sb 0 1;rg;ap 0;ds 0 2;rm;rg",
        # detached containers: the caller keeps the list / dict / set a link held before it was reassigned
        # and mutates it (seeded change C16-m10); with a carry-over reassignment the detached list still
        # holds objects that are reachable through the new one
        "4 k. v|rg;sk 0 2;xa 0 k;xr 0 k;sk 0 1;xa 0 k",
        "4 b: v|rg;sb 0 1 2;sb 0 3;xa 0 b;xr 0 b;pv 4",
        "4 k: v|sk 0 2;rg;kc 0 1 1;xr 0 k;pv 2",
    ]


def generate(rng, tier):
    if tier == "quick":
        yield from G.exhaustive(2)
        n = 1500
    elif tier == "thorough":
        yield from G.exhaustive(3, short_for_variants=True)
        n = 50000
    else:
        yield from G.exhaustive(2)
        n = 15000
    for _ in range(n):
        yield G.random_case(rng)


def run_impl(case):
    return G.run_case(case)


DISPATCH_SIG = "reregistration-dispatch:dict-link-uses-handler-dispatch"


def extra_checks(ctx):
    """White box, deterministic: the listener machinery's OWN re-registration handlers (handle_simple / handle_list(_items) /
    handle_dict(_items)) must run synchronously whatever dispatch the user's handler asked for; otherwise the set of hooked
    objects lags behind the graph.  Regression probe for finding F105-legacy-dict-dispatch (_register_dict passed
    dispatch=self.dispatch; repaired in /repo 257ca45): a hit is a plain violation.  Lean side: C16_reregistration_sync."""
    from traits.trait_notifiers import TraitChangeNotifyWrapper
    Node = G.node_class()
    hits = []
    for disp in ("new", "ui"):
        bad = []
        for a in "ckbs":
            root = Node()
            root.on_trait_change(lambda obj, name, old, new: None, G.ATTR[a] + ":value", dispatch=disp)
            for tn in (G.ATTR[a], G.ATTR[a] + "_items"):
                t = root._trait(tn, 1)
                for n in ((t._notifiers(False) or []) if t is not None else []):
                    if isinstance(n, TraitChangeNotifyWrapper) and (n.name or "").startswith("handle_") \
                            and type(n).__name__ != "ExtendedTraitChangeNotifyWrapper":
                        bad.append("%s:%s=%s" % (tn, n.name, type(n).__name__))
        if bad:
            hits.append({"signature": DISPATCH_SIG, "what": "on_trait_change(h, '<link>:value', dispatch=%r): re-registration "
                         "handlers not installed with the synchronous 'extended' dispatch: %s" % (disp, ", ".join(bad))})
    hits += _late_trait_probe()
    return hits


LATE_SIG = "new-trait-added:container-registered-as-simple"


def _late_trait_probe():
    """Regression probe (finding F107, repaired in /repo a16357d; a hit is a plain violation; Lean side:
    C16_new_trait_added_full): a List trait ADDED to a listened-to object after a metadata / wildcard listener with a following item was
    registered must be handled like one that was there at registration time (observe does)."""
    from traits.api import HasTraits, Int, Instance, List, push_exception_handler, pop_exception_handler

    class N(HasTraits):
        value = Int()
        kids = List(Instance(HasTraits), tag=True)
    push_exception_handler(lambda *a: None, reraise_exceptions=True)
    try:
        out = {}
        for dynamic in (False, True):
            r, legacy, obs, errs = N(), [], [], []
            r.on_trait_change(lambda o, n, old, new: legacy.append(new), "+tag:value")
            r.observe(lambda e: obs.append(e.new), "+tag:items:value")
            name = "kids"
            try:
                if dynamic:
                    name = "more"
                    r.add_trait("more", List(Instance(HasTraits), tag=True))
                a = N()
                setattr(r, name, [a])
                a.value = 7
            except Exception as e:
                errs.append("%s: %s" % (type(e).__name__, str(e)[:80]))
            out[dynamic] = (legacy, obs, errs)
    finally:
        pop_exception_handler()
    hits = []
    if out[False] != ([7], [7], []):
        hits.append({"signature": "metadata-link:static-list-trait", "what": "'+tag:value' on a class-level List trait: %r" % (out[False],)})
    if out[True] != ([7], [7], []):
        hits.append({"signature": LATE_SIG, "what": "root.on_trait_change(h, '+tag:value'); root.add_trait('more', List(Instance, "
                     "tag=True)); root.more = [a]; a.value = 7 -> legacy calls %r, observe calls %r, raised %r (a List trait "
                     "present at registration time: [7], [7], [])" % out[True]})
    return hits


def nontrivial(case, out):
    """Some handler was called (during an operation or by a probe)."""
    return any(g.startswith("ok") and (" L=- O=- " not in g or " P=-/-/-/- " not in g) for g in out.split(" ; "))
