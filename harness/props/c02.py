"""C02 — change handlers fire exactly once per real change, with truthful old/new.

Case line (kind `a2`), fields separated by `|`:

  a2 | K=T|E C=0|1|2 O=0|1 Q=0|1 P=-|o|k<n> V=-|<tab> VK=-|<n> D=<id>|- Z=p|s|t D2=<id> TT=tab|int|str
     | names=<catalogue names> eq=<rows> ne=<rows> veto=<ids>
     | H=<beh,…> RL=0|1 RO=0|1 S=<a|c|f><h>,…
     | op;op;…

  trait   K kind (trait / event) · C comparison mode · O setattr_original_value · Q post_setattr_original_value ·
          P post_setattr (none / recording / raising at its n-th call) · V validator table over the pool ids
          (`=` same object, `T` TraitError, `E` ValueError, `<id>` returns that pool object; `-` no validator) ·
          VK the validator's n-th call fails · D constant default · Z class shape (plain; `s`: declared in a base
          class and overridden *by value* D2 in the subclass the object belongs to; `t`: the same TraitType
          instance is bound to an earlier name first; `i`: everything is declared in a base class and the object is an
          instance of a subclass that inherits it; `m`: ONE CTrait object is bound to two or three names of the class
          — the "reusable trait definition" idiom —, see M; `a`: the class has a second, unrelated trait
          `w = Any(comparison_mode=X)` whose comparison mode X differs from C, assigned by `sib w v`: the per-class
          `_anytrait_changed` wrapper serves both names) · TT real trait type used (table-driven TraitType / Int /
          Str / expr = traits.api.Expression, which stores the assigned string and validates by compiling it: pool id
          `code_k` stands for the fresh code object / cast = `Trait(<int default>)`, a CTrait made by the Trait()
          factory)
          M=<how>:<names>:<statics>:<other> (shape m only) · how the shared CTrait is made (a: `.as_ctrait()` of the
          trait type, or the Trait(...) result itself; t: `Trait(<that CTrait>)`) · the sharing names in class-body
          order (x is the attribute under test, w / y the others) · static handlers of the other names (`wc` =
          `_w_changed`, `yf` = `_y_fired`, dot-separated) · a second class using the same CTrait object for its own x
          with its own `_x_changed` / `_anytrait_changed`, defined before (b) / after (a) the class under test.  Every
          other name also gets an on_trait_change and an observe handler after construction.
  pool    ids are positions in `names`; 0 = Uninitialized, 1 = Undefined, 2 = None.  eq/ne are the REAL
          `bool(a == b)` / `bool(a != b)` outcomes (y / n / r = raises), computed from the objects
  route   R=c constructor (default) · s explicit __setstate__(__getstate__()) of an object built with the keyword ·
          y copy.copy of it (both restore through __setstate__) · l clone_traits(copy="shallow"): the `ctor v`
          op is then the state-restoring assignment
  owner   B=b / B=l: the class of the object (and every other class of the case) defines `__bool__` returning False /
          `__len__` returning 0: the object is alive but FALSY.  Nothing in the statement depends on an object's truth
          value; the switch is a checksum of the rest of the line (about a third of the cases each).  The pool values
          ht_fl / ht_fb are falsy HasTraits instances; TT=inst is a real Instance(HasTraits) trait
  handlers DH=1: NO exception handler is pushed (the library's default ones run; logging silenced) ·
          H behaviour per handler id (o ok, r raises, e<j> raises variant j of a richer exception set — RuntimeError
          family with non-string / empty args, other classes, no args —, k<n> raises at the n-th handler call of the case,
          x / x<n> unregisters itself) · RL/RO re-raising exception handlers on the legacy / observe stacks ·
          S static handlers in class order (a `_anytrait_changed`, c `_x_changed`, f `_x_fired`)
  ops     ird h [c|f] / iro h [c|f] (decorated @on_trait_change / @observe methods, all ird before all iro, first;
          with c / f the method carries the magic name _x_changed / _x_fired) · prd h / pro h (the same decorators
          with post_init=True: attached after the initial state is set; right after `ctor`) · ctor v (constructor keyword;
          next) · set v · del · get · setq v · rd h p / ud h · ra h p / ua h (anytrait) · ro h / uo h ·
          sib <w|y> v (shape m: assign the accepted value v to another name sharing the definition; for the attribute
          under test this is a step in which nothing happens)

Output, per op:  ok|err <Exc> v=<read value> s=<__dict__ slot> i=<instance trait exists> n=<len tnotifiers>,<len
onotifiers> c=[h:old>new,…] p=[post_setattr values]
"""
import itertools

from . import attrlib as A
from .seqlib import exc_name

PROPERTY = "C02"
DRIVER = "TraitsVerif/Driver/Attr.lean"
PROPS_MODULES = ["TraitsVerif.Props.C02"]
TRANSLATORS = ["enums", "cattr", "pywrap"]
RULE = ("exhaustive histories of length <= 3 (quick) / <= 4 (thorough) of {set v, del, read} over 5-value pools "
        "(equal-not-identical pair, NaN, numpy array, rejected value) with a static, an on_trait_change and an observe "
        "handler attached, for comparison_mode none/identity/equality and Event; plus seeded random cases: 1-15 "
        "steps of set/del/read/trait_setq/constructor keyword/(un)registration in all orders (decorators, "
        "on_trait_change by name and anytrait, priority, observe with reference counts), pools of 3-7 values drawn "
        "from a catalogue (equal-not-identical ints/strs/tuples/arrays, NaN, == raising, inconsistent ==/!=, None, "
        "Undefined, vetoing HasTraits value), table validators (reject / coerce to another pool object / raise), "
        "real Int and Str traits, post_setattr, setattr_original_value, handlers that raise or unregister "
        "themselves, re-raising exception handlers, subclass-override and shared-TraitType class shapes, one CTrait "
        "object (as_ctrait() / Trait(...)) bound to two or three names with static handlers per name, an on_trait_change "
        "and an observe handler per name and assignments to the other names (every handler of every dispatch path is "
        "called for its own name only, the anytrait handler once per change); "
        "a case is non-trivial when a handler was called, a value stored or an exception raised; distinct = "
        "distinct canonical output line")
TRUSTED = [
    "Generated/WrapProg.lean: the source text of the notifier wrappers (trait_notifiers.py: _change_accepted, "
    "AbstractStaticChangeNotifyWrapper.__call__, TraitChangeNotifyWrapper.__call__/dispatch/_dispatch_change_event/"
    "_notify_function_listener/_notify_method_listener; observation: ctrait_prevent_event, TraitEventNotifier.__call__) "
    "read by harness/translate/pywrap.py (ast, fails closed); the meaning of the calls they make (Model/PyW.lean callFn: "
    "user handler, == / != tables, _trait(name, 2), exception-handler re-raise flags, tracers None, live weak "
    "references) is trusted",
    "Generated/AttrProg.lean: the source text of setattr_trait / setattr_event / getattr_trait / default_value_for / "
    "call_notifiers / has_traits_getattro / has_traits_setattro and of the has_notifiers macro, read by "
    "harness/translate/cattr.py (tokenizer + recursive descent, fails closed) into MiniC terms; the meaning of the "
    "CPython API calls and of the trait callbacks in Model/MiniC.lean (callPrim, callFPtr, getField: PyDict_* act on "
    "the one slot, allocation never fails, names are str, NULL default_value reads as None, refcounts dropped) is trusted",
    "`==` / `!=` of user values enter the model as tables (eqv, neq) computed from the real objects per case",
    "validators, post_setattr and handler behaviours are parameters of the model (Callback); the driver "
    "instantiates them from the tables on the case line",
    "the oracle's notion of 'accepted assignment' is the validator table of the case (the declared domain), "
    "not the trait's own validate",
    "Generated/Enums.lean: flag and enum constants read from ctraits.c / constants.py by regex + ast",
]
ASSUMPTIONS = [
    "handlers do not assign to the object they are notified about (re-entrant assignment is outside the model); "
    "they may raise or unregister themselves",
    "Uninitialized is never assigned as a value (it is the marker the wrappers filter on)",
    "one thread, dispatch='same'; _trait_change_notify(False)/trait_setq and vetoing values are modelled and "
    "corresponded but excluded from the exactly-once clause, as the property excludes them",
    "push_exception_handler(reraise_exceptions=True) is modelled and corresponded, excluded from the exception clause",
    "C02_exactly_once/C02_same_sequence assume `!=` answers False exactly when `==` answers True (hypothesis "
    "Consistent); the pool contains a class violating it and the run reports the divergences it causes",
]
EXHAUSTIVE = {"quick": True, "thorough": True}
DISTINCT_BY_OUTPUT = True

_POOL_CACHE = {}


def pool_spec(names):
    key = tuple(names)
    if key not in _POOL_CACHE:
        p = A.Pool(names)
        _POOL_CACHE[key] = "names=%s %s" % (",".join(names), p.spec().split(" ", 1)[1])
    return _POOL_CACHE[key]


def mk_case(T, names, H, RL, RO, S, ops):
    tf = " ".join("%s=%s" % (k, T[k]) for k in ("K", "C", "O", "Q", "P", "V", "VK", "D", "Z", "D2", "TT"))
    if T.get("R", "c") != "c":
        tf += " R=" + T["R"]
    if T["Z"] == "m":
        tf += " M=" + T["M"]
    if T["Z"] == "a":
        tf += " X=" + T["X"]
    hf = "H=%s RL=%d RO=%d S=%s" % (",".join(H) or "o", RL, RO, ",".join(S) or "-")
    if T.get("DH"):
        hf += " DH=1"
    if T.get("OW"):
        hf += " OW=1"
    if T.get("AR"):
        hf += " AR=" + T["AR"]
    B = T.get("B")
    if B is None:
        import zlib
        B = ["", "b", "l"][zlib.crc32(("%s|%s|%s|%s" % (tf, ",".join(names), hf, ";".join(ops))).encode()) % 3]
    if B:
        tf += " B=" + B
    return "a2|%s|%s|%s|%s" % (tf, pool_spec(names), hf, ";".join(ops))


def base_T(**kw):
    T = {"K": "T", "C": "2", "O": "0", "Q": "0", "P": "-", "V": "-", "VK": "-", "D": "2", "Z": "p", "D2": "2",
         "TT": "tab"}
    T.update({k: str(v) for k, v in kw.items()})
    return T


def corpus():
    names = ["Uninitialized", "Undefined", "None", "int1", "float1", "nan", "arr_a", "str_c"]
    allh = ["o", "o", "o"]
    out = []
    for c in "012":
        out.append(mk_case(base_T(C=c), names, allh, 0, 0, ["c0"],
                           ["rd 1 0", "ro 2", "set 3", "set 3", "set 4", "set 5", "set 5", "set 6", "set 6", "del",
                            "del", "get", "set 2"]))
    out.append(mk_case(base_T(K="E"), names, allh, 0, 0, ["f0"], ["rd 1 0", "ro 2", "set 3", "set 3", "get", "del"]))
    # the validated value, not the stored one, is compared by identity (setattr_original_value)
    out.append(mk_case(base_T(C="1", O="1", V="=,=,=,4,=,=,=,=", TT="tab"), names, allh, 0, 0, ["c0"],
                       ["ro 2", "set 3", "set 3", "set 4", "set 3"]))
    # regression (F23, fixed by 84d55f9): the comparison mode used to be lost on a second as_ctrait()
    out.append(mk_case(base_T(C="0", Z="s", D2="3"), names, allh, 0, 0, ["c0"], ["ro 2", "set 4", "set 4"]))
    out.append(mk_case(base_T(C="1", Z="t"), names, allh, 0, 0, ["c0"], ["ro 2", "set 3", "set 4", "set 3"]))
    # an @observe / @on_trait_change method with a magic name, inherited by the subclass the object belongs to
    out.append(mk_case(base_T(C="0", Z="i"), names, ["o", "o", "o"], 0, 0, ["a0"],
                       ["ird 1 f", "iro 2 c", "set 3", "set 3", "set 4", "del"]))
    out.append(mk_case(base_T(K="E", Z="i"), names, ["o", "o"], 0, 0, [], ["iro 1 f", "set 3", "set 3"]))
    # Expression: stores the assigned string, validates by compiling (code_k = the fresh code object)
    en = ["Uninitialized", "Undefined", "None", "expr_0", "expr_a", "expr_b", "expr_c", "expr_bad", "int7", "code_k"]
    for c in "012":
        out.append(mk_case(base_T(C=c, O="1", P="o", TT="expr", D="3", V="T,T,T,9,9,9,9,T,T,T"), en, ["o", "o", "o", "o"], 0, 0,
                           ["a0", "c1"], ["rd 2 0", "ro 3", "set 4", "set 5", "set 6", "set 7", "set 8", "del", "get"]))
    # the library's default exception handlers, a handler raising exceptions whose first argument is no string
    for j in (0, 1, 2, 3, 7, 8):
        out.append(mk_case(base_T(C="0", DH=1), names, ["o", "e%d" % j, "o", "o"], 0, 0, ["c0"],
                           ["rd 1 0", "ro 2", "rd 3 0", "set 3", "set 4"]))
    # post_init decorators on every construction route
    for r in "csy":
        out.append(mk_case(base_T(C="0", R=r), names, ["o"] * 5, 0, 0, ["c0"],
                           ["ird 1", "iro 2", "ctor 3", "prd 3", "pro 4", "set 4", "set 4", "del"]))
    # one CTrait object bound to several names, each with its own static handlers (reusable trait definition)
    cn = ["Uninitialized", "Undefined", "None", "int1", "int7", "big_a", "big_b", "str_c"]
    cv = "T,T,T,=,=,=,=,T"
    for how, order, sst, other in (("a", "xw", "wc", "-"), ("a", "wxy", "wc.yf", "-"), ("t", "wx", "wc", "b"),
                                   ("a", "xy", "-", "a"), ("t", "ywx", "wf.yc", "-")):
        for tt, c in (("cast", "2"), ("tab", "0"), ("int", "1")):
            out.append(mk_case(base_T(C=c, Z="m", TT=tt, D="3", V=cv, M="%s:%s:%s:%s" % (how, order, sst, other)),
                               cn, ["o"] * 4, 0, 0, ["a0", "c1"],
                               ["rd 2 0", "ro 3", "set 4", "set 4", "sib %s 4" % order.replace("x", "")[0], "set 5",
                                "sib %s 6" % order.replace("x", "")[-1], "set 7", "set 6", "del"]))
    out.append(mk_case(base_T(K="E", Z="m", M="a:wx:wf:-"), names, ["o"] * 3, 0, 0, ["f0"],
                       ["rd 1 0", "ro 2", "set 3", "sib w 3", "set 3"]))
    out.append(mk_case(base_T(C="0", Z="m", M="a:xw:wc:-"), names, ["o"] * 3, 0, 0, [],
                       ["rd 1 0", "ro 2", "set 3", "sib w 4", "set 3"]))
    # raising handlers, self-removing handlers, re-raise
    out.append(mk_case(base_T(C="0"), names, ["r", "x", "r", "o"], 0, 0, ["c0"],
                       ["rd 1 0", "ro 2", "ra 3 0", "set 3", "set 3", "set 4"]))
    out.append(mk_case(base_T(C="0"), names, ["o", "r", "o"], 1, 0, ["c0"], ["rd 1 0", "ro 2", "set 3", "set 4"]))
    # object-level handlers only (the trait has no notifier of its own), one unregistering itself during dispatch,
    # in the first / middle position: the handlers after it still hear that change (call_notifiers walks a snapshot)
    out.append(mk_case(base_T(C="0"), names, ["x", "o"], 0, 0, [], ["ra 0 0", "ra 1 0", "set 3", "set 4", "set 5"]))
    out.append(mk_case(base_T(C="2"), names, ["o", "x", "o"], 0, 0, [],
                       ["ra 0 0", "ra 1 0", "ra 2 0", "set 3", "set 4", "del"]))
    out.append(mk_case(base_T(K="E"), names, ["x", "x", "o"], 0, 0, [], ["ra 2 0", "ra 1 1", "ra 0 1", "set 3", "set 3"]))
    # equal-but-distinct listener objects registering their same-named method: each is called, each is removed by itself
    out.append(mk_case(base_T(C="0", OW=1), names, ["o", "o", "o"], 0, 0, [],
                       ["rd 0 0", "rd 1 0", "ro 2", "set 3", "ud 0", "set 4", "rd 0 1", "set 5"]))
    out.append(mk_case(base_T(C="2", OW=1), names, ["o", "o"], 0, 0, [], ["ra 0 0", "ra 1 0", "set 3", "ua 1", "set 4"]))
    # `del` when the default (overridden by value in a subclass and mapped by the validator) is a VETOING object: nobody
    # is told, and the exactly-once clause does not apply (seed 13 thorough, was an oracle gap)
    out.append('a2|K=T C=2 O=0 Q=0 P=- V=T,=,5,=,=,T VK=- D=2 Z=s D2=2 TT=tab|names=Uninitialized,Undefined,None,list_a,list_b,veto eq=ynnnnn/nynnnn/nnynnn/nnnyyn/nnnyyn/nnnnny ne=nyyyyy/ynyyyy/yynyyy/yyynny/yyynny/yyyyyn veto=5|H=e9,e11,o,e14 RL=0 RO=0 S=a0,c1,f2 DH=1|ctor 3;del')
    out.append('a2|K=T C=2 O=0 Q=0 P=- V=T,=,5,=,=,T VK=- D=2 Z=s D2=2 TT=tab|names=Uninitialized,Undefined,None,list_a,list_b,veto eq=ynnnnn/nynnnn/nnynnn/nnnyyn/nnnyyn/nnnnny ne=nyyyyy/ynyyyy/yynyyy/yyynny/yyynny/yyyyyn veto=5|H=e9,e11,o,e14 RL=0 RO=0 S=a0,c1,f2 DH=1|ctor 3;pro 3;del')
    # handlers of arity 1..4 as bound methods; the owner of one dies between changes
    out.append(mk_case(base_T(C="0", OW=1, AR="1.2.3.4"), names, ["o"] * 4, 0, 0, [],
                       ["rd 0 0", "rd 1 0", "rd 2 0", "rd 3 0", "set 3", "kd 1", "set 4", "kd 3", "set 4", "del"]))
    out.append(mk_case(base_T(C="2", OW=1, AR="4.4"), names, ["o", "o"], 0, 0, [], ["ra 0 0", "rd 1 0", "set 3", "ka 0", "set 5"]))
    # shape a: an unrelated trait of another comparison mode is notified through _anytrait_changed first
    out.append(mk_case(base_T(C="0", Z="a", X="2"), names, ["o", "o", "o"], 0, 0, ["a0", "c1"],
                       ["ro 2", "sib w 3", "set 3", "set 4", "set 4", "set 5"]))
    out.append(mk_case(base_T(C="2", Z="a", X="0"), names, ["o", "o"], 0, 0, ["a0"],
                       ["rd 1 0", "sib w 3", "sib w 3", "set 3", "set 4", "set 5"]))
    out.append(mk_case(base_T(K="E", Z="a", X="2"), names, ["o", "o"], 0, 0, ["a0", "f1"],
                       ["sib w 3", "set 3", "set 3", "set 4"]))
    # post_setattr raises during the first read: the default stays stored, the next read returns it
    out.append(mk_case(base_T(C="2", P="k0", D="3"), names, ["o", "o"], 0, 0, [], ["rd 0 0", "ro 1", "get", "get", "set 4", "get"]))
    out.append(mk_case(base_T(C="0", P="k1", D="2"), names, ["o"], 0, 0, [], ["ra 0 0", "set 3", "del", "get", "get"]))
    return out


# ---------------------------------------------------------------------------
# generators

EXH_POOLS = [
    (["Uninitialized", "Undefined", "None", "int1", "float1", "nan", "arr_a", "str_c"], "=,=,=,=,=,=,=,T"),
    (["Uninitialized", "Undefined", "None", "tup_a", "tup_b", "eqraises", "big_a", "big_b"], "-"),
]


def exhaustive(maxlen, pools):
    for names, vtab in pools:
        vals = list(range(2, len(names)))
        alphabet = ["set %d" % v for v in vals] + ["del", "get"]
        for K, C in (("T", "0"), ("T", "1"), ("T", "2"), ("E", "2")):
            T = base_T(K=K, C=C, V=vtab)
            S = ["f0"] if K == "E" else ["c0"]
            for n in range(1, maxlen + 1):
                for ops in itertools.product(alphabet, repeat=n):
                    yield mk_case(T, names, ["o", "o", "o"], 0, 0, S, ["rd 1 0", "ro 2"] + list(ops))


PAIRS = [("int1", "float1", "true"), ("big_a", "big_b"), ("str_a", "str_b"), ("nan", "nan2"), ("tup_a", "tup_b"),
         ("arr_a", "arr_b"), ("arr1", "arr1b"), ("list_a", "list_b"), ("plain_a", "plain_b")]
SINGLES = ["int7", "str_c", "eqraises", "incons", "eqtrue_neraises", "veto", "ht_fl", "ht_fb", "ht_fl", "ht_fb"]


def random_names(rng, tt):
    names = ["Uninitialized", "Undefined", "None"]
    extra = []
    if tt == "int":
        extra = ["int1", "int7", "big_a", "big_b"][: rng.randint(2, 4)] + rng.sample(["str_c", "float1", "nan", "arr_a"], 2)
    elif tt == "str":
        extra = ["str_a", "str_b", "str_c"][: rng.randint(2, 3)] + rng.sample(["int1", "nan", "tup_a", "eqraises"], 2)
    elif tt == "inst":
        extra = ["ht_fl", "ht_fb"] + rng.sample(["int1", "str_c", "plain_a", "tup_a"], 2)
        rng.shuffle(extra)
    elif tt == "cast":
        # Trait(<int>): accepts ints as they are; would CONVERT floats / arrays, so those stay out of the pool
        extra = ["int1", "int7", "big_a", "big_b"][: rng.randint(2, 4)] + rng.sample(["str_c", "nan", "tup_a", "eqraises"], 2)
    elif tt == "expr":
        return names + ["expr_0", "expr_a", "expr_b", "expr_c", "expr_bad", rng.choice(["int7", "tup_a", "nan"]), "code_k"]
    else:
        for _ in range(rng.randint(1, 2)):
            grp = rng.choice(PAIRS)
            extra += list(grp[:rng.randint(2, len(grp))])
        for s in rng.sample(SINGLES, rng.randint(0, 2)):
            if not (s == "veto" and rng.random() < 0.6) and not (s == "incons" and rng.random() < 0.5):
                extra.append(s)
    seen = []
    for e in extra:
        if e not in seen:
            seen.append(e)
    return names + seen[:5]


def random_case(rng):
    tt = rng.choice(["tab"] * 8 + ["int", "str", "expr", "cast", "inst"])
    names = random_names(rng, tt)
    n = len(names)
    T = base_T(TT=tt)
    T["K"] = "E" if (tt == "tab" and rng.random() < 0.12) else "T"
    T["C"] = rng.choice("012")
    valid = list(range(2, n))
    if tt in ("int", "cast"):
        tab = ["=" if names[i] in A.INT_NAMES else "T" for i in range(n)]
        T["V"] = ",".join(tab)
    elif tt == "str":
        tab = ["=" if names[i] in A.STR_NAMES else "T" for i in range(n)]
        T["V"] = ",".join(tab)
    elif tt == "inst":
        tab = ["=" if names[i] in A.INST_NAMES else "T" for i in range(n)]
        T["V"] = ",".join(tab)
    elif tt == "expr":
        # Expression: compiles the string (a new code object each time = `code_k`), stores the string itself
        kk = names.index("code_k")
        tab = [str(kk) if names[i] in A.EXPR_OK else "T" for i in range(n)]
        T["V"] = ",".join(tab)
        T["O"], T["P"], T["Q"] = "1", "o", "0"
        valid = [i for i in range(2, n) if names[i] != "code_k"]
    else:
        if rng.random() < 0.3:
            tab = None
        else:
            tab = []
            for i in range(n):
                r = rng.random()
                if i == 0:
                    tab.append("T")
                elif r < 0.70:
                    tab.append("=")
                elif r < 0.85:
                    tab.append("T")
                elif r < 0.90:
                    tab.append("E")
                else:
                    tab.append(str(rng.randint(2, n - 1)))
            T["V"] = ",".join(tab)
        if rng.random() < 0.06:
            T["O"] = "1"
        if rng.random() < 0.15:
            T["P"] = "o" if rng.random() < 0.8 else "k%d" % rng.randint(0, 3)
            T["Q"] = rng.choice("01")
        if tab is not None and rng.random() < 0.05:
            T["VK"] = str(rng.randint(0, 4))
    ok_default = [i for i in range(2, n) if names[i] not in A.NO_DEFAULT
                  and (tab is None or tt == "tab" or tab[i] == "=")]
    if tt == "expr":
        ok_default = [names.index("expr_0")]
    if tt == "inst":
        ok_default = [2]
    T["D"] = str(rng.choice(ok_default)) if ok_default and rng.random() < 0.6 else ("2" if tt == "tab" else
                                                                                   str(ok_default[0]))
    if tt == "tab" and rng.random() < 0.12:
        T["Z"] = rng.choice("st") if T["K"] == "T" else "t"
        T["D2"] = str(rng.choice(ok_default)) if ok_default else "2"
    elif rng.random() < 0.15:
        T["Z"] = "i"
    sibs = []
    if T["Z"] == "p" and rng.random() < 0.14:
        # one CTrait object bound to two or three names
        T["Z"] = "m"
        sibs = rng.sample(["w", "y"], rng.randint(1, 2))
        order = sibs + ["x"]
        rng.shuffle(order)
        sst = []
        for j in sorted(sibs):
            r = rng.random()
            sst += [j + "c"] if r < 0.45 else [j + "f"] if r < 0.65 else [j + "c", j + "f"] if r < 0.8 else []
        other = "-" if rng.random() < 0.7 else rng.choice("ab")
        T["M"] = "%s:%s:%s:%s" % (rng.choice("at"), "".join(order), ".".join(sst) or "-", other)
    # handlers and their roles
    nh = rng.randint(1, 5)
    roles = {}
    S = []
    statics = ["a", "c", "f"] if T["K"] == "T" else ["a", "f"]
    hid = 0
    for k in statics:
        if hid < nh and rng.random() < (0.7 if sibs else 0.45):
            S.append("%s%d" % (k, hid))
            roles[hid] = "static"
            hid += 1
    rest = list(range(hid, nh))
    for h in rest:
        roles[h] = rng.choice(["dyn", "dyn", "obs", "obs", "any", "idyn", "iobs", "pdyn", "pobs"])
    # the library's default exception handlers (nothing pushed) in a share of the cases, with a richer set of
    # exceptions raised by the handlers
    DH = rng.random() < 0.15
    T["DH"] = 1 if DH else 0
    T["OW"] = 1 if rng.random() < 0.25 else 0
    H = []
    for h in range(nh):
        r = rng.random()
        if DH:
            H.append("o" if r < 0.45 else "e%d" % rng.randrange(A.N_RICH) if r < 0.9 else "r")
        else:
            H.append("o" if r < 0.66 else "r" if r < 0.78 else "e%d" % rng.randrange(A.N_RICH) if r < 0.85
                     else "k%d" % rng.randint(0, 6) if r < 0.92 else rng.choice(["x", "x%d" % rng.randint(0, 4)]))
    RL = 1 if (not DH and rng.random() < 0.04) else 0
    RO = 1 if (not DH and rng.random() < 0.04) else 0
    if RL or RO:
        H = ["r" if b[0] == "e" else b for b in H]        # the exception class would show: keep it RuntimeError
    has_post = any(roles[h] in ("pdyn", "pobs") for h in rest)
    if has_post:
        RL = RO = 0
        T["VK"] = "-"
        if T["P"].startswith("k"):
            T["P"] = "o"
    ops = []
    # decorated methods may carry a magic name (_x_changed / _x_fired) when no static handler uses it
    free_magic = [m for m in ("c", "f") if not any(x[0] == m for x in S)]
    if rng.random() < (0.6 if T["Z"] == "i" else 0.15):
        rng.shuffle(free_magic)
    else:
        free_magic = []
    for h in rest:
        if roles[h] == "idyn":
            ops.append("ird %d" % h + (" " + free_magic.pop() if free_magic and rng.random() < 0.4 else ""))
    for h in rest:
        if roles[h] == "iobs":
            ops.append("iro %d" % h + (" " + free_magic.pop() if free_magic and rng.random() < 0.8 else ""))
    accepted = [v for v in valid if tab is None or tab[v] not in ("T", "E")]
    if rng.random() < (0.7 if has_post else 0.2) and (accepted or not has_post):
        cv = rng.choice(accepted if has_post else valid)
        ops.append("ctor %d" % cv)
        # construction route: the keyword assignment may also be the state restored by __setstate__ / clone_traits
        if (cv in accepted and T["K"] == "T" and (tab is None or tt in ("int", "str")) and RL == 0 and RO == 0 and T["P"] == "-"
                and T["O"] == "0" and not any(b[0] == "x" for b in H) and rng.random() < 0.6):
            T["R"] = rng.choice(["s", "y"] + (["l"] if tt in ("int", "str") else []))
    for h in rest:
        if roles[h] == "pdyn":
            ops.append("prd %d" % h)
    for h in rest:
        if roles[h] == "pobs":
            ops.append("pro %d" % h)
    pending = [h for h in rest if roles[h] in ("dyn", "obs", "any")]
    rng.shuffle(pending)
    # most registrations early, in random order
    nsteps = rng.randint(1, 15)
    for _ in range(nsteps):
        r = rng.random()
        if pending and r < 0.5:
            h = pending.pop()
            ops.append(reg_op(rng, roles[h], h))
        elif sibs and accepted and r < 0.62:
            v = rng.choice(accepted)
            if rng.random() < 0.4 and ops and ops[-1].split()[0] in ("set", "sib"):
                v = int(ops[-1].split()[-1])         # the same object as the previous assignment
                if v not in accepted:
                    v = rng.choice(accepted)
            ops.append("sib %s %d" % (rng.choice(sibs), v))
        elif r < 0.80 or not rest:
            v = rng.choice(valid + [1]) if rng.random() < 0.97 else 1
            if rng.random() < 0.35 and ops and ops[-1].startswith("set "):
                v = int(ops[-1].split()[1])          # repeat the same object
            ops.append("set %d" % v)
        elif r < 0.86:
            ops.append("del")
        elif r < 0.92:
            ops.append("get")
        elif r < 0.95:
            ops.append("setq %d" % rng.choice(valid))
        else:
            h = rng.choice(rest)
            role = roles[h]
            if rng.random() < 0.5:
                ops.append(reg_op(rng, role, h))
            else:
                ops.append({"dyn": "ud %d", "idyn": "ud %d", "pdyn": "ud %d", "obs": "uo %d", "iobs": "uo %d",
                            "pobs": "uo %d", "any": "ua %d"}[role] % h)
    return mk_case(T, names, H, RL, RO, S, ops)


def dispatch_case(rng):
    """Notifier lists that change while call_notifiers walks them: 2-4 handlers that are object-level only (the trait
    has NO notifier of its own: tnotifiers NULL / empty) or mixed with by-name and observe handlers, one or two of
    them unregistering themselves when called (at their first or a later call), in every list position and with
    priority registrations; then assignments.  Every handler registered when a change is made hears it exactly
    once, whatever the others do to the lists meanwhile (the dispatch works on a snapshot)."""
    names = ["Uninitialized", "Undefined", "None", "int1", "float1", "int7", "str_c", "big_a"]
    nh = rng.randint(2, 4)
    only_obj = rng.random() < 0.6
    roles = ["any"] * nh if only_obj else [rng.choice(["any", "any", "dyn", "obs"]) for _ in range(nh)]
    H = ["o"] * nh
    for h in rng.sample(range(nh), rng.randint(1, min(2, nh))):
        H[h] = rng.choice(["x", "x", "x%d" % rng.randint(1, 2)])
    if rng.random() < 0.2:
        H[rng.randrange(nh)] = "r"
    T = base_T(C=rng.choice("012"), K="E" if rng.random() < 0.15 else "T")
    T["OW"] = 1 if rng.random() < 0.3 else 0
    order = list(range(nh))
    rng.shuffle(order)
    ops = [reg_op(rng, roles[h], h) for h in order]
    for _ in range(rng.randint(2, 6)):
        r = rng.random()
        if r < 0.8:
            ops.append("set %d" % rng.randint(3, 7))
        elif r < 0.9:
            ops.append("del")
        else:
            h = rng.randrange(nh)
            ops.append(reg_op(rng, roles[h], h))
    return mk_case(T, names, H, 0, 0, [], ops)


def aux_case(rng):
    """Class shape Z=a: besides x the class has an unrelated trait `w = Any(comparison_mode=X)`, X different from the
    mode of x; `_anytrait_changed` (one wrapper per class) is notified about w FIRST, then x is assigned equal-not-
    identical, identical and different values.  The anytrait handler's calls for x are the real changes of x under
    x's own comparison mode, as for the named static, on_trait_change and observe handlers."""
    names = ["Uninitialized", "Undefined", "None", "int1", "float1", "int7", "str_c", "big_a", "big_b"]
    K = "E" if rng.random() < 0.2 else "T"
    C = rng.choice("012")
    X = rng.choice([m for m in "012" if m != C or K == "E"])
    T = base_T(K=K, C=C, Z="a", X=X)
    S = ["a0"] + ([("f1" if K == "E" else "c1")] if rng.random() < 0.6 else [])
    nh = len(S) + rng.randint(0, 2)
    roles = ["static"] * len(S) + [rng.choice(["dyn", "obs"]) for _ in range(nh - len(S))]
    ops = [reg_op(rng, roles[h], h) for h in range(len(S), nh)]
    ops.append("sib w %d" % rng.choice([3, 5, 7]))
    if rng.random() < 0.5:
        ops.append("sib w %d" % rng.choice([3, 4, 7, 8]))
    for _ in range(rng.randint(3, 7)):
        r = rng.random()
        if r < 0.75:
            ops.append("set %d" % rng.choice([3, 4, 3, 4, 5, 7, 8]))
        elif r < 0.9:
            ops.append("sib w %d" % rng.choice([3, 4, 5]))
        else:
            ops.append("del")
    return mk_case(T, names, ["o"] * nh, 0, 0, S, ops)


def owner_case(rng):
    """Bound-method handlers of every arity whose owner dies between changes: 2-4 listener objects (equal but distinct)
    register their method by name (arity 1-4) or object-level; between assignments some of them are deleted; the
    survivors keep hearing every real change exactly once, the dead ones nothing, nothing raises."""
    names = ["Uninitialized", "Undefined", "None", "int1", "float1", "int7", "str_c", "big_a"]
    nh = rng.randint(2, 4)
    roles = [rng.choice(["dyn", "dyn", "any"]) for _ in range(nh)]
    T = base_T(C=rng.choice("012"), K="E" if rng.random() < 0.15 else "T", OW=1)
    T["AR"] = ".".join(str(rng.randint(1, 4)) for _ in range(nh))
    ops = [reg_op(rng, roles[h], h) for h in range(nh)]
    alive = list(range(nh))
    for _ in range(rng.randint(3, 8)):
        r = rng.random()
        if r < 0.65 or not alive:
            ops.append("set %d" % rng.randint(3, 7))
        elif r < 0.75:
            ops.append("del")
        else:
            h = alive.pop(rng.randrange(len(alive)))
            ops.append("%s %d" % ("kd" if roles[h] == "dyn" else "ka", h))
    return mk_case(T, names, ["o"] * nh, 0, 0, [], ops)


def first_read_case(rng):
    """The first read of a never-assigned value during which `post_setattr` raises (at its first or second call):
    the default has been computed and stored by then and stays stored (getattr_trait's error exit only drops its own
    reference), so the next read returns that same object without another default computation; handlers of every
    kind are registered and none is reached by the failing or the later read."""
    names = ["Uninitialized", "Undefined", "None", "int1", "float1", "int7", "str_c", "big_a"]
    T = base_T(C=rng.choice("012"), P="k%d" % rng.randint(0, 1), D=rng.choice(["2", "3", "5"]))
    nh = rng.randint(0, 3)
    roles = [rng.choice(["any", "dyn", "obs"]) for _ in range(nh)]
    ops = [reg_op(rng, roles[h], h) for h in range(nh)]
    if rng.random() < 0.3:
        ops.append("set %d" % rng.randint(3, 7))
        ops.append("del")
    ops += ["get", "get"]
    for _ in range(rng.randint(0, 3)):
        ops.append(rng.choice(["get", "set %d" % rng.randint(3, 7), "del"]))
    return mk_case(T, names, ["o"] * nh, 0, 0, [], ops)


def reg_op(rng, role, h):
    if role in ("dyn", "idyn", "pdyn"):
        return "rd %d %d" % (h, 1 if rng.random() < 0.2 else 0)
    if role == "any":
        return "ra %d %d" % (h, 1 if rng.random() < 0.2 else 0)
    return "ro %d" % h


def generate(rng, tier):
    if tier == "quick":
        yield from exhaustive(3, EXH_POOLS)
        n = 4000
    elif tier == "thorough":
        yield from exhaustive(4, EXH_POOLS[:1])
        yield from exhaustive(3, EXH_POOLS[1:])
        n = 100000
    else:
        yield from exhaustive(3, EXH_POOLS)
        n = 30000
    for i in range(n):
        if i % 8 == 0:
            yield dispatch_case(rng)
        if i % 40 == 0:
            yield first_read_case(rng)
        if i % 20 == 0:
            yield aux_case(rng)
        if i % 20 == 10:
            yield owner_case(rng)
        yield random_case(rng)


# ---------------------------------------------------------------------------
# implementation driver + oracle

def _hit(sig, what, **kw):
    d = {"signature": sig, "what": what}
    d.update(kw)
    return d


def run_impl(case):
    from traits.api import HasTraits, Int, Str, TraitError, on_trait_change, observe
    from traits.constants import ComparisonMode
    f = case.lstrip("#").split("|")
    assert f[0] == "a2", case
    T, P, Hf = A.kv(f[1]), A.kv(f[2]), A.kv(f[3])
    ops = [o.split() for o in f[4].split(";") if o.strip()]
    names = P["names"].split(",")
    pool = A.Pool(names)
    if pool.spec().split(" ", 1)[1] != f[2].split(" ", 1)[1]:
        raise AssertionError("== / != tables on the case line are not those of the real objects")
    H = Hf["H"].split(",")
    RL, RO = Hf["RL"] == "1", Hf["RO"] == "1"
    S = [] if Hf["S"] == "-" else Hf["S"].split(",")
    vtab = None if T["V"] == "-" else T["V"].split(",")
    vk = None if T["VK"] == "-" else int(T["VK"])
    dflt = None if T["D"] == "-" else int(T["D"])
    kind, cmode, orig = T["K"], int(T["C"]), T["O"] == "1"
    state = {"nval": 0, "post": []}
    tags = {"K=" + kind, "C=%d" % cmode, "Z=" + T["Z"], "TT=" + T["TT"]}
    log = []            # (h, old_obj, new_obj)
    removed = []        # handler ids that unregistered themselves during the current op
    roles = {}
    for s in S:
        roles[int(s[1:])] = "static"
    for o in ops:
        if o[0] in ("rd", "ud", "ird"):
            roles.setdefault(int(o[1]), "idyn" if o[0] == "ird" else "dyn")
        elif o[0] in ("prd", "pro"):
            pass
        elif o[0] in ("ra", "ua"):
            roles.setdefault(int(o[1]), "any")
        elif o[0] in ("ro", "uo", "iro"):
            roles.setdefault(int(o[1]), "iobs" if o[0] == "iro" else "obs")
    meth = {}
    for o in ops:       # a decorated handler keeps that role even if `rd`/`ro` names it again
        if o[0] == "ird":
            roles[int(o[1])] = "idyn"
            meth[int(o[1])] = "_dyn_%s" % o[1] if len(o) < 3 else {"c": "_x_changed", "f": "_x_fired"}[o[2]]
        if o[0] == "iro":
            roles[int(o[1])] = "iobs"
            meth[int(o[1])] = "_obs_%s" % o[1] if len(o) < 3 else {"c": "_x_changed", "f": "_x_fired"}[o[2]]
        if o[0] == "prd":
            roles[int(o[1])] = "idyn"        # same mechanism, attached later
            meth[int(o[1])] = "_pdyn_%s" % o[1]
        if o[0] == "pro":
            roles[int(o[1])] = "iobs"
            meth[int(o[1])] = "_pobs_%s" % o[1]
    post_h = {int(o[1]) for o in ops if o[0] in ("prd", "pro")}
    DH = Hf.get("DH") == "1"
    route = T.get("R", "c")
    holder = {}
    BARE = object()     # marker: a decorated observer was called with something that is not a change event
    # shape m: one CTrait object bound to several names
    shared = T["Z"] == "m"
    sib_log = []        # (mechanism label, name reported, old, new): calls of handlers that belong to OTHER names
    if shared:
        how, order, sst, other_cls = T["M"].split(":")
        sst = [] if sst == "-" else sst.split(".")
        sibs = [c for c in order if c != "x"]
        tags.update({"share:" + how, "share:%d-names" % len(order), "share:x-at-%d" % order.index("x"),
                     "share:other-class=" + other_cls})

    def fire(h, old, new):
        n = len(log)
        log.append((h, old, new))
        act = A.beh_action(H[h] if h < len(H) else "o", n)
        if act == "raise":
            spec = H[h] if h < len(H) else "o"
            if spec[0] == "e":
                raise A.rich_exception(int(spec[1:]))
            raise A.HandlerError("handler %d raises" % h)
        if act == "remove" and roles.get(h) != "static":
            removed.append(h)
            unregister(h)

    def unregister(h):
        obj = holder["obj"]
        role = roles[h]
        if role == "dyn":
            obj.on_trait_change(fns[h], "x", remove=True)
        elif role == "idyn":
            obj.on_trait_change(getattr(obj, meth[h]), "x", remove=True)
        elif role == "any":
            obj.on_trait_change(fns[h], remove=True)
        elif role == "obs":
            obj.observe(fns[h], "x", remove=True)
        elif role == "iobs":
            obj.observe(getattr(obj, meth[h]), "x", remove=True)

    def mk_dyn(h):
        def fn(obj, name, old, new):
            if name == "x":
                fire(h, old, new)
        return fn

    def mk_obs(h):
        def fn(event):
            if event.name == "x":
                fire(h, event.old, event.new)
        return fn

    def mk_any_static(h):
        def m(self, name, old, new):
            if name == "x":
                fire(h, old, new)
            else:
                sib_log.append(("anytrait", name, old, new))
        return m

    def mk_sib_static(label):
        def m(self, name, old, new):
            sib_log.append((label, name, old, new))
        return m

    def mk_sib_dyn(label):
        def fn(obj, name, old, new):
            sib_log.append((label, name, old, new))
        return fn

    def mk_sib_obs(label):
        def fn(event):
            sib_log.append((label, event.name, event.old, event.new))
        return fn

    def mk_static(h):
        def m(self, name, old, new):
            fire(h, old, new)
        return m

    def mk_idyn(h):
        def m(self, obj, name, old, new):
            fire(h, old, new)
        m.__name__ = meth[h]
        return m

    def mk_iobs(h):
        from traits.observation.api import TraitChangeEvent

        def m(self, event):
            if isinstance(event, TraitChangeEvent):
                fire(h, event.old, event.new)
            else:
                fire(h, BARE, event)        # called through some other mechanism with a bare value
        m.__name__ = meth[h]
        return m

    # OW=1: the on_trait_change handlers (by name and anytrait) are the same-named bound method `on_change` of DISTINCT
    # listener objects that all compare equal and hash alike (value objects): each listener is a handler of its own
    class _Owner(object):
        def __init__(self, h):
            self.h = h

        def __eq__(self, other):
            return isinstance(other, _Owner)

        def __ne__(self, other):
            return not isinstance(other, _Owner)

        def __hash__(self):
            return 7

        def on_change(self, obj, name, old, new):
            if name == "x":
                fire(self.h, old, new)

        # handlers of smaller arity (by-name registrations only): what is not passed is taken from what the harness
        # knows was readable before the operation; what IS passed is recorded as received
        def on_change3(self, obj, name, new):
            if name == "x":
                fire(self.h, holder["old_now"], new)

        def on_change2(self, name, new):
            if name == "x":
                fire(self.h, holder["old_now"], new)

        def on_change1(self, new):
            fire(self.h, holder["old_now"], new)
    ARITY = [int(a) for a in Hf.get("AR", "").split(".") if a != ""]
    OW = Hf.get("OW") == "1"
    if OW:
        tags.add("handler-owners:equal-but-distinct")
    owners = {}
    fns = {}
    for h, role in roles.items():
        if role in ("dyn", "any"):
            if OW:
                owners[h] = _Owner(h)
                ar = ARITY[h] if (h < len(ARITY) and role == "dyn") else 4
                tags.add("handler-arity:%d" % ar)
                fns[h] = getattr(owners[h], "on_change" if ar == 4 else "on_change%d" % ar)
            else:
                fns[h] = mk_dyn(h)
        elif role == "obs":
            fns[h] = mk_obs(h)
    # ---- the class
    if T["TT"] == "int":
        trait = Int(pool.objs[dflt], comparison_mode=ComparisonMode(cmode))
    elif T["TT"] == "str":
        trait = Str(pool.objs[dflt], comparison_mode=ComparisonMode(cmode))
    elif T["TT"] == "expr":
        from traits.api import Expression

        class Ex(Expression):
            def post_setattr(self, object, name, value):
                if name == "x" or not shared:
                    state["post"].append(value)
                Expression.post_setattr(self, object, name, value)
        trait = Ex(pool.objs[dflt], comparison_mode=ComparisonMode(cmode))
    elif T["TT"] == "inst":
        from traits.api import Instance
        assert dflt == 2
        trait = Instance(HasTraits, comparison_mode=ComparisonMode(cmode))
    elif T["TT"] == "cast":
        from traits.api import Trait
        trait = Trait(pool.objs[dflt], comparison_mode=ComparisonMode(cmode))     # a CTrait
    else:
        trait = A.make_tab_trait(pool, vtab, dflt, kind=kind, cmp=cmode, orig=int(orig), porig=int(T["Q"] == "1"),
                                 post=T["P"], vk=vk, state=state, only="x" if shared else None)
    ns = {}
    for s in S:
        k, h = s[0], int(s[1:])
        if k == "a":
            ns["_anytrait_changed"] = mk_any_static(h)
        else:
            ns["_x_changed" if k == "c" else "_x_fired"] = mk_static(h)
    for o in ops:          # definition order = order of the init-time registrations of each group
        if o[0] == "ird":
            ns[meth[int(o[1])]] = on_trait_change("x")(mk_idyn(int(o[1])))
    for o in ops:
        if o[0] == "iro":
            ns[meth[int(o[1])]] = observe("x")(mk_iobs(int(o[1])))
    for o in ops:
        if o[0] == "prd":
            ns[meth[int(o[1])]] = on_trait_change("x", post_init=True)(mk_idyn(int(o[1])))
    for o in ops:
        if o[0] == "pro":
            ns[meth[int(o[1])]] = observe("x", post_init=True)(mk_iobs(int(o[1])))

    # the state of the object at the moment the initial state has been set and the post_init handlers are about
    # to be attached (constructor, __setstate__ and clone_traits all call these two, in this order)
    def _snap(self):
        if holder.get("building") or "snap" in holder:
            return
        tr = self._trait("x", 0)
        tn = tr._notifiers(False)
        on = self._notifiers(False)
        holder["snap"] = (self.__dict__.get("x", A), 1 if "x" in self._instance_traits() else 0,
                          None if tn is None else len(tn), None if on is None else len(on))

    def _post_init_trait_listeners(self):
        _snap(self)
        HasTraits._post_init_trait_listeners(self)

    def _post_init_trait_observers(self):
        _snap(self)
        HasTraits._post_init_trait_observers(self)
    ns["_post_init_trait_listeners"] = _post_init_trait_listeners
    ns["_post_init_trait_observers"] = _post_init_trait_observers
    falsy = T.get("B", "")
    tags.add("owner:" + {"": "truthy", "b": "falsy-__bool__", "l": "falsy-__len__"}[falsy])
    if falsy == "b":
        ns["__bool__"] = lambda self: False
    elif falsy == "l":
        ns["__len__"] = lambda self: 0
    hits = []
    if T["Z"] == "i":
        ns["x"] = trait
        try:
            Base = type("Base", (HasTraits,), ns)
            cls = type("Sub", (Base,), {"extra": Int(0)})
        except Exception as e:
            return "class-definition-raised " + A.show_exc(e), [_hit(
                "class-definition-raised:inheriting-subclass:" + A.show_exc(e),
                "defining a subclass that inherits the handlers raised %s" % A.show_exc(e))], tags
    elif T["Z"] == "s":
        Base = type("Base", (HasTraits,), {"x": trait})
        ns["x"] = pool.objs[int(T["D2"])]
        cls = type("Sub", (Base,), ns)
    elif T["Z"] == "t":
        ns2 = {"w": trait}
        ns2.update(ns)
        ns2["x"] = trait
        cls = type("Twice", (HasTraits,), ns2)
    elif shared:
        from traits.api import Trait
        ct = trait.as_ctrait()
        if how == "t":
            ct = Trait(ct)

        def other():
            return type("Other", (HasTraits,), {"x": ct, "_x_changed": mk_sib_static("Other._x_changed"),
                                                "_anytrait_changed": mk_sib_static("Other._anytrait_changed")})
        if other_cls == "b":
            holder["other"] = other()
        ns2 = {nm: ct for nm in order}
        ns2.update(ns)
        for ss in sst:
            ns2["_%s_%s" % (ss[0], "changed" if ss[1] == "c" else "fired")] = mk_sib_static("static:" + ss)
        cls = type("Mixer", (HasTraits,), ns2)
        if other_cls == "a":
            holder["other"] = other()
    elif T["Z"] == "a":
        from traits.api import Any as _Any
        ns["x"] = trait
        ns["w"] = _Any(comparison_mode=ComparisonMode(int(T["X"])))
        cls = type("Aux", (HasTraits,), ns)
        tags.add("aux-trait-mode:%s-vs-%s" % (T["X"], T["C"] if kind == "T" else "event"))
    else:
        ns["x"] = trait
        cls = type("Plain", (HasTraits,), ns)
    obj = cls.__new__(cls)
    holder["obj"] = obj
    if bool(obj) != (falsy == ""):
        raise AssertionError("owner truth value is not what the case line says")
    nval_spec = state["nval"]    # validator calls made while the class was built (override by value)
    outs = []
    i0 = 0
    while i0 < len(ops) and ops[i0][0] in ("ird", "iro"):
        i0 += 1
    ctor = ops[i0] if i0 < len(ops) and ops[i0][0] == "ctor" else None
    registered = {}          # spec-level registration count per handler
    for h, role in roles.items():
        registered[h] = 1 if (role in ("static", "idyn", "iobs") and h not in post_h) else 0
    with A.ExcHandlers(RL, RO, default=DH):
        # ------- __init__ (decorated handlers are attached here; the constructor keyword is assigned here)
        before_log = 0
        exc = None
        before_slot = obj.__dict__.get("x", A)
        try:
            if ctor is not None and route != "c":
                # build a source object with that state, then restore it by the requested route
                import copy
                holder["building"] = True
                src = cls(x=pool.objs[int(ctor[1])])
                holder["building"] = False
                del log[:]
                del removed[:]
                tags.add("route:" + route)
                if route == "s":
                    obj.__setstate__(src.__getstate__())
                elif route == "y":
                    obj = copy.copy(src)
                    holder["obj"] = obj
                else:
                    obj = src.clone_traits(copy="shallow")
                    holder["obj"] = obj
            elif ctor is not None:
                obj.__init__(x=pool.objs[int(ctor[1])])
            else:
                obj.__init__()
        except Exception as e:
            exc = e
        if shared:
            # the other names sharing the definition: one handler per dynamic dispatch path each
            for j in sibs:
                obj.on_trait_change(mk_sib_dyn("dynamic:" + j), j)
                obj.observe(mk_sib_obs("observe:" + j), j)
        eff_mode = cmode
        real = obj.trait("x")
        dobj = real.default_value()[1] if kind == "T" else None
        if kind == "T":
            want = pool.objs[int(T["D2"])] if T["Z"] == "s" else (None if dflt is None else pool.objs[dflt])
            if T["Z"] == "s" and vtab is not None and not orig:
                act = vtab[int(T["D2"])]
                if act not in ("=", "T", "E") and not (vk == 0):
                    want = pool.objs[int(act)]
            if dobj is not want:
                raise AssertionError("default object of the generated class is not the pool object")
            if real.comparison_mode != cmode:
                hits.append(_hit("comparison-mode-lost:second-as_ctrait",
                                 "trait declared with comparison_mode=%d has comparison_mode=%d on the class "
                                 "(shape %s)" % (cmode, real.comparison_mode, T["Z"]),
                                 declared=cmode, observed=int(real.comparison_mode)))
                eff_mode = int(real.comparison_mode)
        skip_oracle = RL or RO or T["P"].startswith("k")
        if skip_oracle:
            tags.add("oracle-skipped:reraise-or-raising-post_setattr")

        def observe_state(idx, op, exc, val, log0, post0):
            slot = obj.__dict__.get("x", A)
            it = 1 if "x" in obj._instance_traits() else 0
            tr = obj._trait("x", 0)
            tn = tr._notifiers(False)
            on = obj._notifiers(False)
            if op[0] == "ctor" and "snap" in holder:
                slot, it, ltn, lon = holder["snap"]      # before the post_init handlers were attached
                tn = None if ltn is None else [0] * ltn
                on = None if lon is None else [0] * lon
            calls = ",".join("%d:%s>%s" % (h, pool.show(o), pool.show(n)) for h, o, n in log[log0:])
            posts = ",".join(pool.show(v) for v in state["post"][post0:])
            return "%s v=%s s=%s i=%d n=%s,%s c=[%s] p=[%s]" % (
                "ok" if exc is None else "err " + A.show_exc(exc),
                "-" if val is A else pool.show(val), "-" if slot is A else pool.show(slot), it,
                "-" if tn is None else len(tn), "-" if on is None else len(on), calls, posts)

        # ------- the operations
        for idx, op in enumerate(ops):
            k = op[0]
            tags.add("op:" + k)
            if k in ("prd", "pro"):
                registered[int(op[1])] = 1
            if k in ("ird", "iro", "prd", "pro"):
                # attached inside __init__; the model registers them one by one before anything else:
                # report the state the model has after this registration, which the real object only
                # reaches at the end of __init__ -> compare counts only at the last of them
                outs.append(None)
                continue
            log0, post0 = len(log), len(state["post"])
            sib0 = len(sib_log)
            reg_before = dict(registered)
            val = A
            if k == "ctor":
                slot_before = before_slot
                log0, post0 = 0, 0
                sib0 = 0
                # exc from __init__
            else:
                slot_before = obj.__dict__.get("x", A)
                holder["old_now"] = (pool.objs[A.UNDEF] if kind == "E" else dobj if slot_before is A else slot_before)
                exc = None
                try:
                    if k == "set":
                        obj.x = pool.objs[int(op[1])]
                    elif k == "del":
                        del obj.x
                    elif k == "get":
                        val = obj.x
                    elif k == "setq":
                        obj.trait_setq(x=pool.objs[int(op[1])])
                    elif k == "sib":
                        sib_before = obj.__dict__.get(op[1], A)
                        holder["sib_seen"] = True
                        setattr(obj, op[1], pool.objs[int(op[2])])
                    elif k == "rd":
                        h = int(op[1])
                        if roles[h] == "idyn":
                            obj.on_trait_change(getattr(obj, meth[h]), "x", priority=op[2] == "1")
                        else:
                            obj.on_trait_change(fns[h], "x", priority=op[2] == "1")
                        registered[h] = 1
                    elif k == "ud":
                        unregister(int(op[1]))
                        registered[int(op[1])] = 0
                    elif k == "ra":
                        obj.on_trait_change(fns[int(op[1])], priority=op[2] == "1")
                        registered[int(op[1])] = 1
                    elif k in ("kd", "ka"):
                        # the listener object dies: nothing else refers to it
                        h = int(op[1])
                        del fns[h]
                        del owners[h]
                        import gc
                        gc.collect()
                        registered[h] = 0
                        tags.add("owner-died")
                    elif k == "ua":
                        unregister(int(op[1]))
                        registered[int(op[1])] = 0
                    elif k == "ro":
                        h = int(op[1])
                        if roles[h] == "iobs":
                            obj.observe(getattr(obj, meth[h]), "x")
                        else:
                            obj.observe(fns[h], "x")
                        registered[h] += 1
                    elif k == "uo":
                        try:
                            unregister(int(op[1]))
                        finally:
                            registered[int(op[1])] = max(0, registered[int(op[1])] - 1)
                    else:
                        raise AssertionError(op)
                except Exception as e:
                    exc = e
            for h in removed:
                registered[h] = max(0, registered[h] - 1) if roles[h] in ("obs", "iobs") else 0
            del removed[:]
            outs.append(observe_state(idx, op, exc, val, log0, post0))
            if exc is not None:
                tags.add("err:" + A.show_exc(exc))
            if log[log0:]:
                tags.add("notified")
            # --------------------------------------------------------- ORACLE
            # one definition shared by several names: every handler of every dispatch path belongs to ONE name
            sdelta = sib_log[sib0:]
            if k == "ctor" and route != "c":
                sdelta = []      # restoring a state assigns every name of the state, the other names included
            if shared and k != "sib":
                for label, nm, o, n in sdelta:
                    hits.append(_hit("shared-definition:handler-of-another-name-called:" + label.split(":")[0].split(".")[0],
                                     "`%s` on x called the handler %s (reported name %r, %s -> %s)" % (
                                         " ".join(op), label, nm, pool.show(o), pool.show(n)), step=idx))
            elif shared:
                hits.extend(sibling_oracle(op, idx, exc, sdelta, sib_before, obj, pool, vtab, kind, orig, eff_mode,
                                           dobj, sst, any(x[0] == "a" for x in S), tags))
            if k in ("set", "ctor", "setq"):
                v = int(op[1])
                vobj = pool.objs[v]
                # accepted?  (the declared domain = the validator table of the case)
                if vtab is None or (v == A.UNDEF and kind == "T"):     # setattr_trait skips validation of Undefined
                    act = "="
                else:
                    act = "T" if (vk is not None and nval_spec == vk) else vtab[v]
                    nval_spec += 1
            if skip_oracle:
                continue
            delta = log[log0:]
            slot_after = obj.__dict__.get("x", A)
            sfx = ":setattr-original-value" if orig else ""
            mode_name = {0: "none", 1: "identity", 2: "equality"}[eff_mode] if kind == "T" else "event"
            expected = None          # list of (old, new) every registered handler must have seen
            check_legacy = True
            old_spec = new_spec = A  # what a truthful call must carry
            f22_pattern = False
            if k in ("set", "ctor", "setq"):
                if act in ("T", "E"):
                    tags.add("rejected")
                    want_exc = "TraitError" if act == "T" else "ValueError"
                    if exc is None or A.show_exc(exc) != want_exc:
                        hits.append(_hit("rejected-assignment-accepted:" + k, "value outside the domain was not "
                                         "rejected with %s" % want_exc, got=None if exc is None else A.show_exc(exc)))
                    if slot_after is not slot_before:
                        hits.append(_hit("rejected-assignment-stored:" + k, "rejected assignment changed the value"))
                    if delta:
                        hits.append(_hit("rejected-assignment-notified:" + k, "rejected assignment reached a handler"))
                    continue
                # setattr_original_value concerns what a standard trait stores; an Event passes the validated value
                new = vobj if (act == "=" or (orig and kind == "T")) else pool.objs[int(act)]
                if exc is not None:
                    hits.append(_hit("handler-exception-propagated:" + k + sfx if any(
                        A.beh_action(H[h], i) == "raise" for i, (h, _, _) in enumerate(log) if i >= log0)
                        else "accepted-assignment-raised:" + k,
                        "an accepted assignment raised %s" % A.show_exc(exc)))
                if kind == "T" and slot_after is not new:
                    hits.append(_hit("assignment-not-stored:" + k, "the accepted value is not what is stored afterwards"))
                wobj = vobj if act == "=" else pool.objs[int(act)]      # the validated object
                if k == "setq":
                    expected = []
                elif kind == "E":
                    expected = [(pool.objs[A.UNDEF], new)]
                    old_spec, new_spec = pool.objs[A.UNDEF], new
                else:
                    old = dobj if slot_before is A else slot_before
                    expected, check_legacy = real_change(eff_mode, old, new, tags)
                    old_spec, new_spec = old, new
                    # F22 can only explain a wrong call COUNT, and only when the validated object relates to the
                    # old value differently than the stored one does
                    f22_pattern = orig and ((old is new) != (old is wobj))
                if any(new is pool.objs[i] for i in pool.veto) and k != "setq":
                    tags.add("veto-value")
                    expected = None
            elif k == "del":
                if kind == "E" or slot_before is A:
                    expected = []
                else:
                    expected, check_legacy = real_change(eff_mode, slot_before, dobj, tags)
                    old_spec, new_spec = slot_before, dobj
                    if any(dobj is pool.objs[i] for i in pool.veto):
                        # the value reported as new — the default — is a vetoing HasTraits object (a subclass-overridden
                        # default that the validator maps to it): vetoing values are outside the exactly-once clause,
                        # as for assignments
                        tags.add("veto-value")
                        expected = None
                if exc is not None:
                    hits.append(_hit("delete-raised", "del raised %s" % A.show_exc(exc)))
            elif k == "get":
                expected = []
                if kind == "E":
                    if exc is None or A.show_exc(exc) != "AttributeError":
                        hits.append(_hit("event-readable", "reading an Event did not raise AttributeError"))
                else:
                    want = dobj if slot_before is A else slot_before
                    if exc is not None or val is not want:
                        hits.append(_hit("read-wrong-value:" + ("default" if slot_before is A else "stored"),
                                         "read returned something else than the stored value / declared default"))
                    if slot_before is A:
                        tags.add("default-read")
                        if delta:
                            hits.append(_hit("default-read-notified", "the first read of a default reached a handler",
                                             calls=len(delta)))
            else:
                expected = []
            if expected is None:
                continue
            for h, role in roles.items():
                got = [(o, n) for hh, o, n in delta if hh == h]
                exp = expected if reg_before.get(h, 0) > 0 else []
                legacy = role in ("static", "dyn", "idyn", "any")
                if legacy and not check_legacy:
                    if len(got) != len(exp):
                        tags.add("divergence-observed:eq-ne-inconsistent")
                    continue
                hk = "static" if role == "static" else "dynamic" if legacy else "observe"
                if len(got) == len(exp) and all(g[0] is e[0] and g[1] is e[1] for g, e in zip(got, exp)):
                    continue
                osfx = ":setattr-original-value" if (orig and kind == "T") else ""
                if k == "sib":
                    hits.append(_hit("shared-definition:handler-of-another-name-called:" + hk,
                                     "`%s` called handler %d (%s) of x with %s" % (
                                         " ".join(op), h, role, [(pool.show(o), pool.show(n)) for o, n in got]),
                                     step=idx))
                    continue
                # truthfulness first: every call made must carry (readable before, readable after)
                untruthful = [g for g in got if not (
                    (g[0] is old_spec) and (g[1] is new_spec))] if (old_spec is not A and new_spec is not A) else []
                if untruthful:
                    sig = "untruthful-old-new:%s:%s:%s%s" % (hk, mode_name, k, osfx)
                elif orig and kind == "T" and f22_pattern:
                    # finding F22: the C pre-filter compared the VALIDATED value with the old one
                    sig = "identity-prefilter-compares-validated-value:setattr-original-value"
                elif len(got) < len(exp):
                    sig = "missed-call:%s:%s:%s%s" % (hk, mode_name, k, osfx)
                elif len(got) > len(exp):
                    same = all(o is n for o, n in got[len(exp):])
                    sig = "spurious-call:%s:%s:%s%s%s" % (hk, mode_name, k, ":same-object" if same else "", osfx)
                else:
                    sig = "untruthful-old-new:%s:%s:%s%s" % (hk, mode_name, k, osfx)
                if (T["Z"] == "a" and role == "static" and ("a%d" % h) in S and holder.get("sib_seen")
                        and not sig.startswith(("untruthful", "identity-prefilter"))):
                    # the per-class _anytrait_changed wrapper serves every trait of the class: what counts as a change
                    # of x is decided by x's comparison mode, whatever other trait was notified through it before
                    sig = "anytrait-wrapper-mode-of-other-trait:%s" % mode_name
                hits.append(_hit(sig, "handler %d (%s) saw %s, the property requires %s" % (
                    h, role, [(pool.show(o), pool.show(n)) for o, n in got],
                    [(pool.show(o), pool.show(n)) for o, n in exp]), step=idx, op=" ".join(op)))
    # the decorated registrations: give the model's per-step view (counts grow one by one)
    res = []
    for idx, o in enumerate(outs):
        if o is None:
            res.append(None)
        else:
            res.append(o)
    return " ; ".join(_fill_init(res, ops, S)), hits, tags


def sibling_oracle(op, idx, exc, sdelta, before, obj, pool, vtab, kind, orig, mode, dobj, sst, has_any, tags):
    """`sib j v`: the accepted value v was assigned to the name j that shares its definition (one CTrait object)
    with x.  Exactly the handlers of j see the change, each once, on every dispatch path."""
    hits = []
    j, v = op[1], int(op[2])
    vobj = pool.objs[v]
    act = "=" if vtab is None else vtab[v]
    if act in ("T", "E"):
        raise AssertionError("sib assigns accepted values only")
    tags.add("sib-op")
    wobj = vobj if act == "=" else pool.objs[int(act)]
    new = vobj if (act == "=" or (orig and kind == "T")) else wobj
    if exc is not None:
        hits.append(_hit("accepted-assignment-raised:sib", "assigning an accepted value to %s raised %s" % (
            j, A.show_exc(exc)), step=idx))
        return hits
    if kind == "T" and obj.__dict__.get(j, A) is not new:
        hits.append(_hit("assignment-not-stored:sib", "the accepted value is not what is stored afterwards", step=idx))
    if any(new is pool.objs[i] for i in pool.veto):
        return hits
    check_legacy = True
    if kind == "E":
        exp = [(pool.objs[A.UNDEF], new)]
    else:
        old = dobj if before is A else before
        exp, check_legacy = real_change(mode, old, new, tags)
        if orig and ((old is new) != (old is wobj)):
            return hits                    # finding F22 decides the count here
    mine = {"dynamic:" + j: "dynamic", "observe:" + j: "observe"}
    for ss in sst:
        if ss[0] == j:
            mine["static:" + ss] = "static"
    if has_any:
        mine["anytrait"] = "anytrait"
    for label, mech in mine.items():
        got = [(nm, o, n) for lb, nm, o, n in sdelta if lb == label]
        if mech != "observe" and not check_legacy:
            continue
        if len(got) == len(exp) and all(g[0] == j and g[1] is e[0] and g[2] is e[1] for g, e in zip(got, exp)):
            continue
        if any(g[0] != j or (exp and not (g[1] is exp[0][0] and g[2] is exp[0][1])) for g in got):
            what = "untruthful"
        else:
            what = "missed-call" if len(got) < len(exp) else "spurious-call"
        hits.append(_hit("shared-definition:%s:%s" % (what, mech),
                         "`%s`: the %s handler %s saw %s, the property requires %s" % (
                             " ".join(op), mech, label, [(g[0], pool.show(g[1]), pool.show(g[2])) for g in got],
                             [(j, pool.show(o), pool.show(n)) for o, n in exp]), step=idx))
    for lb, nm, o, n in sdelta:
        if lb not in mine:
            hits.append(_hit("shared-definition:handler-of-another-name-called:" + lb.split(":")[0].split(".")[0],
                             "`%s` called the handler %s (reported name %r, %s -> %s)" % (
                                 " ".join(op), lb, nm, pool.show(o), pool.show(n)), step=idx))
    return hits


def _fill_init(res, ops, S):
    """Output for the leading `ird`/`iro` pseudo-ops (performed inside __init__):
    what the model prints after each of them."""
    out = []
    cnt = len(S)
    slot = "-"
    for o, op in zip(res, ops):
        if o is None:
            # every registration goes through _trait(name, 2): instance trait exists, list = statics + so far
            cnt += 1
            out.append("ok v=- s=%s i=1 n=%d,- c=[] p=[]" % (slot, cnt))
        else:
            out.append(o)
            if op[0] == "ctor":
                slot = o.split(" s=")[1].split(" ")[0]
                ntn = o.split(" n=")[1].split(",")[0]      # a handler may have unregistered itself meanwhile
                cnt = 0 if ntn == "-" else int(ntn)
    return out


def real_change(mode, old, new, tags):
    """The property's own words.  Returns (expected calls, whether the legacy
    wrappers are inside the Consistent hypothesis for this pair)."""
    if mode == 0:
        return [(old, new)], True
    if old is new:
        return [], True
    if mode == 1:
        return [(old, new)], True
    eq = A.tri(lambda: old == new)
    ne = A.tri(lambda: old != new)
    consistent = (ne == "n") == (eq == "y")
    if not consistent:
        tags.add("hyp-violated:eq-ne-inconsistent")
    if eq == "r":
        tags.add("eq-raises")
    if eq == "y":
        tags.add("equal-not-identical")
        return [], consistent
    return [(old, new)], consistent


def nontrivial(case, out):
    return "c=[" in out and ("c=[]" not in out or "err" in out or " s=" in out)
