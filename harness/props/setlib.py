"""Shared pieces of the `set` cluster: line protocol, set operations, generators.

Members are the atoms of maplib (i3 -> 3, s3 -> '3').  Operands carry their
Python type: S[..] set, F[..] frozenset, L[..] list, G[..] generator; only on
'#' lines (implementation + oracle): T = the receiver itself (aliasing),
N = a non-iterable, E[..] = a generator that raises after its last item, and the atoms b1 / f1 / N / U of maplib inside operands.

`po ?` is a pop whose result is not known yet: `resolve` in c07.py runs the
history on the implementation and rewrites it to `po <member popped>` (DESIGN §4:
"pop returns a harness-supplied member"); `po _` = pop on an empty set.
"""
import itertools

from .maplib import parse_atom, show_atom, atom_key, Validator, Recorder, exc_name, EXCS  # noqa: F401


def parse_atoms(s):
    s = s.strip()
    assert s[0] == "[" and s[-1] == "]", s
    inner = s[1:-1].strip()
    return [parse_atom(x) for x in inner.split(",")] if inner else []


def show_set(s):
    return "[" + ",".join(show_atom(x) for x in sorted(s, key=atom_key)) + "]"


class Operand:
    def __init__(self, text):
        self.text = text
        self.kind = text[0]
        self.items = parse_atoms(text[1:]) if self.kind in "SFLGE" else None

    def is_set(self):
        return self.kind in "SFT"

    def make(self, receiver=None):
        """A fresh Python object for the operand."""
        if self.kind == "S":
            return set(self.items)
        if self.kind == "F":
            return frozenset(self.items)
        if self.kind == "L":
            return list(self.items)
        if self.kind == "G":
            return (x for x in self.items)
        if self.kind == "E":               # a generator that raises after its last item
            def gen(items=self.items):
                for x in items:
                    yield x
                raise ValueError("operand raises midway")
            return gen()
        if self.kind == "T":
            return receiver
        if self.kind == "N":
            return 5
        raise AssertionError(self.text)

    def plain(self, snapshot):
        """The same operand for the reference run on a builtin set."""
        if self.kind == "T":
            return set(snapshot)
        return self.make()


def parse_cmd(s):
    w = s.split()
    k = w[0]
    if k in ("ad", "dc", "rm"):
        return (k, parse_atom(w[1]))
    if k == "po":
        return (k, None if w[1] in ("_", "?") else parse_atom(w[1]), w[1])
    if k == "cl":
        return (k,)
    if k in ("ud", "du", "iu"):
        return (k, [Operand(a) for a in w[1:]])
    if k in ("sy", "io", "ia", "is", "ix"):
        return (k, Operand(w[1]))
    if k == "cp":
        return (k, w[1], parse_atom(w[2]))
    if k == "sw":
        return (k, w[1])
    if k == "or":
        return (k,)
    raise ValueError("bad cmd %r" % s)


class Self:
    """Marker: an in-place operator returned the receiver itself."""


def apply_op(s, cmd, snapshot=None):
    """Apply a mutating op to a set-like `s` (TraitSet or builtin set).  With
    `snapshot` given the operands are built for a reference run."""
    import operator
    k = cmd[0]

    def mk(o):
        return o.plain(snapshot) if snapshot is not None else o.make(s)
    if k == "ad":
        s.add(cmd[1])
    elif k == "dc":
        s.discard(cmd[1])
    elif k == "rm":
        s.remove(cmd[1])
    elif k == "po":
        return ("v", s.pop())
    elif k == "cl":
        s.clear()
    elif k == "ud":
        s.update(*[mk(o) for o in cmd[1]])
    elif k == "du":
        s.difference_update(*[mk(o) for o in cmd[1]])
    elif k == "iu":
        s.intersection_update(*[mk(o) for o in cmd[1]])
    elif k == "sy":
        s.symmetric_difference_update(mk(cmd[1]))
    elif k in ("io", "ia", "is", "ix"):
        f = {"io": operator.ior, "ia": operator.iand, "is": operator.isub, "ix": operator.ixor}[k]
        r = f(s, mk(cmd[1]))
        return Self if r is s else ("other", r)
    else:
        raise AssertionError(cmd)
    return None


# ------------------------------------------------------------------ generators

VALIDATORS = ["id", "id", "toint", "toint", "tostr", "intonly", "rejneg", "mod5", "inc"]


def rand_atom(rng, neg=True, strs=True):
    n = rng.choice([0, 1, 1, 2, 2, 3, 3, 4, 5, 6, 7] + ([-1, -2] if neg else []))
    return ("s%d" if strs and rng.random() < 0.3 else "i%d") % n


def rand_operand(rng, cur, neg=True, strs=True, kinds="SSSFLLG"):
    """An operand with a chosen overlap pattern w.r.t. `cur` (atoms likely present)."""
    pat = rng.choice(["subset", "superset", "disjoint", "partial", "equal", "empty", "random", "random"])
    cur = list(cur)
    if pat == "empty":
        items = []
    elif pat == "equal":
        items = cur
    elif pat == "subset":
        items = [x for x in cur if rng.random() < 0.5]
    elif pat == "superset":
        items = cur + [rand_atom(rng, neg, strs) for _ in range(rng.randint(1, 3))]
    elif pat == "disjoint":
        items = [a for a in (rand_atom(rng, neg, strs) for _ in range(rng.randint(1, 4))) if a not in cur]
    elif pat == "partial":
        items = [x for x in cur if rng.random() < 0.5] + [rand_atom(rng, neg, strs) for _ in range(rng.randint(1, 3))]
    else:
        items = [rand_atom(rng, neg, strs) for _ in range(rng.randint(0, 5))]
    rng.shuffle(items)
    k = rng.choice(kinds)
    if k in "SF":
        items = list(dict.fromkeys(items))
    elif items and rng.random() < 0.3:
        items.append(rng.choice(items))          # duplicates in lists / generators
    return "%s[%s]" % (k, ",".join(items))


def random_cmd(rng, cur, neg=True, strs=True, copies=True):
    def member():
        if cur and rng.random() < 0.6:
            return rng.choice(list(cur))
        return rand_atom(rng, neg, strs)
    r = rng.random()
    if r < 0.12:
        return "ad %s" % rand_atom(rng, neg, strs)
    if r < 0.19:
        return "dc %s" % member()
    if r < 0.26:
        return "rm %s" % member()
    if r < 0.33:
        return "po ?"
    if r < 0.36:
        return "cl"
    if r < 0.46:
        return "ud " + " ".join(rand_operand(rng, cur, neg, strs) for _ in range(rng.choice([0, 1, 1, 1, 2, 3])))
    if r < 0.52:
        return "du " + " ".join(rand_operand(rng, cur, neg, strs) for _ in range(rng.choice([0, 1, 1, 2, 3])))
    if r < 0.58:
        return "iu " + " ".join(rand_operand(rng, cur, neg, strs) for _ in range(rng.choice([0, 1, 1, 2, 3])))
    if r < 0.67:
        return "sy " + rand_operand(rng, cur, neg, strs)
    if r < 0.74:
        return "io " + rand_operand(rng, cur, neg, strs)
    if r < 0.80:
        return "ia " + rand_operand(rng, cur, neg, strs)
    if r < 0.86:
        return "is " + rand_operand(rng, cur, neg, strs)
    if r < 0.94 or not copies:
        return "ix " + rand_operand(rng, cur, neg, strs)
    if r < 0.98:
        return "cp %s %s" % (rng.choice("cdp"), rand_atom(rng, True, True))
    return "sw %s" % rng.choice("cdp")


def random_history(rng, kind="ts", maxops=10):
    if kind == "ps":
        v = "id"
    else:
        v = rng.choice(VALIDATORS + ["failk:%d:%s" % (rng.randint(0, 4), rng.choice(EXCS))])
    neg = v != "rejneg" or rng.random() < 0.3
    strs = v != "intonly" or rng.random() < 0.3
    if v.startswith("failk"):
        init = [] if rng.random() < 0.6 else [rand_atom(rng) for _ in range(rng.randint(0, 2))]
    else:
        init = [rand_atom(rng, neg and rng.random() < 0.5, strs) for _ in range(rng.randint(0, 6))]
    # atoms likely to be members (both spellings: coercion changes them)
    cur = set(init) | {("s" if a[0] == "i" else "i") + a[1:] for a in init if rng.random() < 0.5}
    cmds = []
    for _ in range(rng.randint(1, maxops)):
        c = random_cmd(rng, cur, neg, strs, copies=(kind == "ts"))
        cmds.append(c)
        if c.startswith("ad "):
            cur.add(c.split()[1])
    return "%s|%s|[%s]|%s" % (kind, v, ",".join(init), ";".join(cmds))


TRAITS = ["Int", "CInt", "CStr", "Range05", "Any"]
# what a trait accepts unchanged / converts / rejects, among the atoms
TRAIT_ITEMS = {"Int": (["i1", "i7", "i-1"], [], ["s3", "s9"]),
               "CInt": (["i1", "i7"], ["s3", "s9"], []),
               "CStr": (["s3", "s9"], ["i1", "i7"], []),
               "Range05": (["i1", "i4", "i0"], [], ["i7", "i-1", "s3"]),
               "Any": (["i1", "s3", "i7"], [], [])}
OBJ_PREFIXES = ["", "sw d", "or", "sw d;or", "or;sw d", "sw c", "sw p", "sw c;sw d", "sw d;sw d", "sw c;or", "sw p;sw d"]


def trait_value_cases():
    """The value of a Set(<trait>) trait on a HasTraits owner: live, deep-copied, orphaned (owner deleted
    and collected), copied, unpickled (and combinations) x every mutator with valid / convertible /
    invalid items."""
    for t in TRAITS:
        ok, conv, bad = TRAIT_ITEMS[t]
        init = "[%s]" % ",".join(ok[:2])
        probes = ok[-1:] + conv[:1] + bad[:2]
        for pre, kind in [(p, "to") for p in OBJ_PREFIXES] + [(p, "tof") for p in OBJ_PREFIXES[:6]]:
            head = "%s|%s|%s|%s" % (kind, t, init, pre + ";" if pre else "")
            for x in probes:
                yield head + "ad %s" % x
                yield head + "ud L[%s] L[%s]" % (ok[-1], x)
                yield head + "io S[%s,%s]" % (ok[-1], x)
                yield head + "ix S[%s,%s]" % (ok[0], x)
                yield head + "sy L[%s,%s]" % (ok[0], x)
                for k in "cdp":
                    yield head + "cp %s %s" % (k, x)
            yield head + "rm %s;dc %s;du L[%s];iu S[%s];po ?;cl" % (ok[0], ok[1], ok[0], ok[1])
            yield head + "io L[%s];ia L[%s];is S[%s];ia S[%s]" % (ok[0], ok[0], ok[0], ok[1])


def random_trait_history(rng, maxops=10):
    t = rng.choice(TRAITS)
    ok, conv, bad = TRAIT_ITEMS[t]
    init = [rng.choice(ok) for _ in range(rng.randint(0, 4))]
    cur = set(init)
    cmds = []
    for _ in range(rng.randint(1, maxops)):
        r = rng.random()
        if r < 0.12:
            cmds.append("sw %s" % rng.choice("dddcp"))
        elif r < 0.18:
            cmds.append("or")
        elif r < 0.28:
            cmds.append("cp %s %s" % (rng.choice("dddcp"), rng.choice(ok + conv + bad)))
        else:
            cmds.append(random_cmd(rng, cur, neg=True, strs=True, copies=False))
    return "%s|%s|[%s]|%s" % (rng.choice(["to", "to", "tof"]), t, ",".join(init), ";".join(cmds))


def exhaustive_single_ops(tier, kind="ts"):
    """Universe {0..3} (quick) / {0..4} (thorough): every set state x every
    operand subset x every operation (x set/list operand), plus the coercing
    validator on the universe {1,'1',2,'2'}."""
    n = 4 if tier == "quick" else 5
    uni = ["i%d" % i for i in range(n)]
    subsets = [list(c) for r in range(n + 1) for c in itertools.combinations(uni, r)]
    if tier == "quick":
        states = [s for s in subsets if len(s) <= 3]
    else:
        states = subsets
    for st in states:
        head = "%s|id|[%s]|" % (kind, ",".join(st))
        for x in uni[:3]:
            for o in ("ad", "dc", "rm"):
                yield head + "%s %s" % (o, x)
        yield head + "po ?"
        yield head + "cl"
        for sub in subsets:
            txt = ",".join(sub)
            for o in ("ia", "is", "ix", "io"):
                yield head + "%s S[%s]" % (o, txt)
            for o in ("ud", "du", "iu", "sy"):
                yield head + "%s L[%s]" % (o, txt)
        for o in ("ia", "is", "ix", "io"):
            yield head + "%s L[i1]" % o
        for o in ("ud", "du", "iu"):
            yield head + o
            yield head + "%s S[i0,i1] L[i1,i2]" % o
            yield head + "%s G[i3] F[] L[i0,i0]" % o
    if kind != "ts":
        return
    # coercing / rejecting validators on a universe with raw and validated spellings
    uni2 = ["i1", "s1", "i2", "s2"]
    subsets2 = [list(c) for r in range(5) for c in itertools.combinations(uni2, r)]
    for v in ("toint", "tostr", "intonly") + (("mod5", "inc", "failk:1:ValueError") if tier != "quick" else ()):
        for st in ([], ["i1"], ["s1"], ["i1", "i2"], ["i1", "s2"]):
            head = "ts|%s|[%s]|" % (v, ",".join(st))
            for sub in subsets2:
                txt = ",".join(sub)
                for o in ("ix", "io"):
                    yield head + "%s S[%s]" % (o, txt)
                for o in ("sy", "ud"):
                    yield head + "%s L[%s]" % (o, txt)
            for x in uni2:
                yield head + "ad " + x
                yield head + "rm " + x
                for k in "cdp":
                    yield head + "cp %s %s" % (k, x)


def malformed_history(rng):
    """'#' lines: aliasing (the receiver as its own operand), non-iterable
    operands, unhashable / colliding members; implementation + oracle only."""
    def a():
        return rng.choice(["b0", "b1", "f1", "f2", "U", "i0", "i1", "i2", "s1"])

    def operand():
        r = rng.random()
        if r < 0.35:
            return "T"
        if r < 0.45:
            return "N"
        k = rng.choice("SFLGE")
        items = [a() for _ in range(rng.randint(0, 3))]
        if k in "SF":
            items = [x for x in dict.fromkeys(items) if x != "U"]
        return "%s[%s]" % (k, ",".join(items))
    cmds = []
    for _ in range(rng.randint(1, 6)):
        r = rng.random()
        if r < 0.15:
            cmds.append("ad " + a())
        elif r < 0.25:
            cmds.append(rng.choice(["dc ", "rm "]) + a())
        elif r < 0.45:
            cmds.append(rng.choice(["ud", "du", "iu"]) + " " + " ".join(operand() for _ in range(rng.randint(0, 2))))
        elif r < 0.6:
            cmds.append("sy " + operand())
        elif r < 0.9:
            cmds.append(rng.choice(["io", "ia", "is", "ix"]) + " " + operand())
        elif r < 0.95:
            cmds.append("cp %s %s" % (rng.choice("cdpm"), a()))
        else:
            cmds.append("po ?")
    v = rng.choice(["id", "id", "toint", "intonly"])
    init = rng.choice(["[]", "[i1]", "[i1,i2]", "[i0,i1,i2]"])
    return "#ts|%s|%s|%s" % (v, init, ";".join(cmds))
