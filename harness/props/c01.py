"""C01 — assigned values always lie in the trait's declared domain."""
import re
import types

from . import vallib as V

PROPERTY = "C01"
DRIVER = "TraitsVerif/Driver/Val.lean"
PROPS_MODULES = ["TraitsVerif.Props.C01"]
TRANSLATORS = ["validate_tables", "cvalidators"]
RULE = ("routes: attribute assignment, trait_set, constructor keyword on a fresh object, "
        "trait_set(trait_change_notify=False) and trait_setq, each followed by a comparison of the instance dict "
        "(value and mapped shadow) with the model and the reference; "
        "a HasTraits class with three attributes (x: the trait under test, y: Int, z: a Map) is built per case; "
        "every trait term of the option grid (C03's grid plus int Range, String, PrefixList/PrefixMap, Type, Union, "
        "Array(dtype, shape, casting) with arrays of 5 dtypes / 6 shapes) meets every value of the lattice through attribute assignment, "
        "trait_set and a constructor keyword (chunks of 8 values per history, interleaved with assignments to "
        "y and z); seeded random nestings of Either / Tuple / Union / TraitCompound with values chosen for their "
        "members; after every step the instance __dict__ is compared with the model's state and an independent "
        "Python reference (domain predicate + documented conversion per trait type, not the handler's validate) "
        "judges what was stored; non-trivial = the step stored a value or raised; distinct = distinct history output; "
        "implementation + oracle only streams: mapped members (Map / PrefixMap / TraitMap) in compounds next to members that "
        "accept unhashable values (List, Dict, Set, Array, Instance(list/dict/object), Trait(list), Tuple()) assigned "
        "unhashable / hashable-non-key / key values through every route (any non-TraitError exception must leave the "
        "object unchanged, an accepted value has shadow = mapped value or itself); Range(low='lo', high='hi') and "
        "Enum(values='vals') whose governing attribute is replaced (Enum collections also mutated in place) between "
        "assignments and reads: every value READ lies in the domain the governing attributes declare at that moment, "
        "explicit and implicit defaults included; adaptable objects and adapters come in truthy / __bool__ False / "
        "__len__ 0 flavours; PYTHON-VALIDATOR ROUTE: x = Property(T) (validated by T's Python-level validate, setter gets "
        "the validated value) for every trait term of the grid x the lattice and for random nestings, judged by the same "
        "reference predicates; forward-referenced Instance('Name') nested 1-3 levels deep in List / Set / Dict / Tuple / "
        "Either: histories with valid and invalid assignments and container mutations (append, extend, __setitem__, add) "
        "on two objects of the class before and after the class is resolved: accepted <=> in the declared nested domain")
TRUSTED = ["the reference predicates ref_domain / conv_ok of harness/props/c01.py (written from the documentation)",
           "calling a type object on a value, re.match, numpy.asarray of a list/tuple and numpy.can_cast are parameters "
           "of the model; their outcome is computed with the plain builtins / re / numpy and sent on the case line",
           "Py.Val (validated by C03's kinds p, q)"]
ASSUMPTIONS = ["default values are not judged (C10): only assigned attributes are compared and checked (exception: the "
               "readable default of a dynamic Range / Enum must lie in the current domain)",
               "a dynamic Range / Enum whose current domain is empty (low > high, empty collection) has no readable value "
               "to judge; exceptions raised by the == of the assigned value itself are not foreign exceptions",
               "no trait-change handlers are attached (C02); post_setattr is modelled for Map / PrefixMap only",
               "special methods do not raise TraitError themselves",
               "a compound (Either / TraitCompound) with a Map member or an Instance(adapt='default') member is outside "
               "the model (findings F46, F49); Map / PrefixMap / TraitMap and adapt='default' are covered stand-alone"]
EXHAUSTIVE = {"quick": True, "thorough": True}
DISTINCT_BY_OUTPUT = False

Y_TRAIT = "Int"
Z_TRAIT = "(Map ((s yes) (i 1)) ((s no) (i 0)))"
SIDE_OPS = ["set y (i 7)", "set z (s no)", "tset y (s a)", "set z (i 5)", "tset z (s yes)", "set y (ni 8 3)",
            "qset z (s no)", "setq z (s yes)", "setq z (i 5)", "qset y (i 9)"]
# assignment routes: set = attribute assignment, tset = trait_set(name=v), new = constructor keyword on a fresh
# object, qset = trait_set(trait_change_notify=False, name=v), setq = trait_setq(name=v)
KINDS = ["set", "set", "tset", "new", "qset", "setq"]


def corpus():
    return [
        # Python route + tuple subclass (F11: Tuple.validate rebuilds a plain tuple) over a coerce member (F42): the
        # responsible member must still be found below the compound (acceptor / rebuilt_tuple)
        '#a|(self 5)|x:(Prop (Either 0 (CompoundH (Tuple (CoerceH str) (CoerceH complex) (RangeF 0 8 0 0)) (Either 1 (String 1 3 N) (EnumH (i 1) (s a))) (Tuple (Base Int) (Enum (f 4) (t (i 1) (i 2))) Float CFloat) (Tuple Complex Int CBool)) (Tuple (CompoundH (CoerceH complex) (InstanceH (u 2) 1))) (Either 0 (Tuple (Type object 1) (This 0) Str) Float) (Either 0 (Either 1 (CastH int) (FunctionH 2)) (Either 0 (Callable 1) (FunctionH 2) Any (Type (u 2) 0)) (Base Float))));y:Int;z:(Map ((s yes) (i 1)) ((s no) (i 0)))|set x (ts (f 4))',
        # F125 (fixed baa32de): the slow member of a nested compound resolves a forward reference and re-installs the
        # trait's validator while validate_trait_complex walks it (was a use after free / segmentation fault)
        "#n:forward-ref-in-nested-compound|-|(Either 0 (Either 0 (Either 0 Str (InstanceF 1)) Int) Int)|"
        "set 0 (t);set 0 (t);set 1 (inst 6 (6) () 12);set 1 (s k);tset 0 N;new 1 (i 3);set 1 (t);set 0 (i 5);"
        "set 0 (inst 2 (2) () 3);set 0 (t);set 0 (inst 2 (2) () 3)",
        make_case("(RangeF 0 4 0 0)", [("set", "(f nan)"), ("set", "(f 2)"), ("tset", "(nf 32 nan)")]),
        make_case("(Map ((s yes) (i 1)) ((s no) (i 0)))", [("set", "(s yes)"), ("set", "(s y)"), ("new", "(s no)")]),
        make_case("(PrefixMap (yes (i 1)) (no (i 0)))", [("set", "(s y)"), ("tset", "(ss no)"), ("set", "(s x)")]),
        make_case("(CoerceH float)", [("set", "(i 3)")]),
        make_case("(Base (Enum (i 1) (i 2)))", [("set", "(nd 2 (2))"), ("set", "(badeq 0)")]),
        make_case("(Tuple Int Int)", [("set", "(ts (i 1) (i 2))"), ("set", "(ts (b 1) (i 2))")]),
        # quiet routes on a fresh object, and over a previous value: the shadow must follow
        make_case("(Map ((s yes) (i 1)) ((s no) (i 0)))", [("setq", "(s no)"), ("qset", "(s yes)"), ("setq", "(s x)"), ("set", "(s no)")]),
        make_case("(Map ((s yes) (i 1)) ((s no) (i 0)))", [("set", "(s no)"), ("qset", "(s yes)"), ("new", "(s no)"), ("setq", "(s yes)")]),
        make_case("(PrefixMap (yes (i 1)) (no (i 0)))", [("qset", "(s n)"), ("setq", "(s ye)"), ("tset", "(s no)"), ("setq", "(s yes)")]),
        make_case("(MapH ((s yes) (i 1)) ((s no) (i 0)))", [("setq", "(s no)"), ("set", "(s yes)"), ("qset", "(s no)")]),
        "#" + make_case("(Either 0 Float (Map ((s yes) (i 1)) ((s no) (i 0))))", [("setq", "(s yes)"), ("qset", "(f 12)"), ("setq", "(s no)")]),
        # a compound with a Map member is mapped: outside the model (run on the implementation + oracle only)
        "#" + make_case("(Either 0 Float (Map ((s yes) (i 1)) ((s no) (i 0))))", [("set", "(f 12)"), ("set", "(s yes)"), ("set", "(f 4)")]),
        "#" + make_case("(Either 0 Float (MapH ((s yes) (i 1)) ((s no) (i 0))))", [("set", "(f 12)"), ("set", "(s yes)")]),
        "#r|-|dyn dyn 1 0|lo (i 0);hi (i 2);set (f 2);set (f 6);set (i 0);set (i 1)",
        "#r|-|dyn dyn 0 1|lo (i -4);hi (i -1);set (f -6);set (i -2);hi (f 0);set (f -2)",
        "#r|-|dyn (f 8) 1 1|lo (f 0);set (f 0);set (f 8);set (i 1);lo (f 4);set (f 2)",
        # the governing trait changes between an assignment and a read
        "#r|-|dyn dyn 0 0|lo (i 0);hi (i 5);get;set (i 4);get;hi (i 2);get;lo (i 3);get;hi (i 9);get",
        "#e|-|list (l (s a) (s b) (s c)) -|get;set (s c);get;vals (l (s a) (s b));get;set (s b);rem0;get;pop;get;app (s b);get",
        "#e|-|any (t (i 1) (i 2) (i 3)) (i 2)|get;new (i 3);vals (t (i 1));get;vals (st (i 3) (i 4));get",
        "#e|-|any (l (i 1) (i 2)) (i 5)|get;set (i 2);get;clr;get",
        # mapped member next to a member taking unhashable values
        "#" + make_case("(Either 0 (Map ((s yes) (i 1)) ((s no) (i 0))) (List Int))",
                        [("set", "(s yes)"), ("set", "(l (i 1) (i 2))"), ("tset", "(s no)"), ("new", "(l)"), ("setq", "(t (i 1))")]),
    ]


def make_case(tt, ops, side=None):
    decls = "x:%s;y:%s;z:%s" % (tt, Y_TRAIT, Z_TRAIT)
    out = []
    vals = []
    for i, (k, v) in enumerate(ops):
        out.append("%s x %s" % (k, v))
        vals.append(V.parse_sexp(v))
        if side and i < len(side) and side[i]:
            out.append(side[i])
            vals.append(V.parse_sexp(side[i].split(" ", 2)[2]))
    with V.falsy(V.falsy_mode(decls + "|" + ";".join(out))):
        env = V.env_for([V.parse_sexp(tt), V.parse_sexp(Y_TRAIT), V.parse_sexp(Z_TRAIT)], vals, 5)
    return "a|%s|%s|%s" % (env, decls, ";".join(out))


def usable(tt):
    return tt not in ("NoneT",)


def generate(rng, tier):
    L = V.lattice() + ["(inst 5 (5 0) () 7)"]
    singles = [t for t in V.single_traits() if usable(t)]
    if tier == "quick":
        ncomp, depth = 1500, 3
    elif tier == "thorough":
        ncomp, depth = 20000, 4
    else:
        ncomp, depth = 15000, 4
    kinds = KINDS
    for tt in singles:
        order = list(L)
        rng.shuffle(order)
        for i in range(0, len(order), 8):
            chunk = order[i:i + 8]
            ops = [(rng.choice(kinds), v) for v in chunk]
            side = [rng.choice(SIDE_OPS) if rng.random() < 0.3 else None for _ in chunk]
            yield make_case(tt, ops, side)
    # compounds with a mapped member: shadow attribute + post_setattr chain are outside the Lean model;
    # run on the implementation + oracle only (shadow = map[value] for keys, identity otherwise)
    mapped_members = ["(Map ((s yes) (i 1)) ((s no) (i 0)))", "(MapH ((s yes) (i 1)))", "(PrefixMap (yes (i 1)) (no (i 0)))"]
    for _ in range(ncomp // 10):
        other = [V.random_trait(rng, 0, mapped=False) for _ in range(rng.randint(1, 2))]
        other = [o for o in other if o != "Any" and "Instance (u 2) 1 2" not in o] or ["Int"]
        alts = other + [rng.choice(mapped_members)]
        rng.shuffle(alts)
        tt = "(Either 0 %s)" % " ".join(alts) if rng.random() < 0.7 else "(CompoundH %s)" % " ".join(alts)
        vals = [rng.choice(["(s yes)", "(s no)", "(s y)", "(ss yes)", rng.choice(L), rng.choice(L)]) for _ in range(rng.randint(2, 5))]
        yield "#" + make_case(tt, [(rng.choice(kinds), v) for v in vals])
    # mapped members next to members that accept UNHASHABLE values (lists, dicts, sets, arrays, tuples holding a list):
    # unhashable and hashable-non-key values through every route; any exception other than TraitError must leave the
    # object as it was, an accepted value has its shadow
    for _ in range(ncomp // 6):
        yield "#" + mapped_unhashable_case(rng, mapped_members, kinds)
    # Range with trait-named bounds: property-backed, outside the Lean model (implementation + oracle only)
    for _ in range(ncomp // 3):
        yield dynamic_case(rng)
    # Enum with a trait-named collection: the collection is replaced / mutated in place between assignments and reads
    for _ in range(ncomp // 4):
        yield dynamic_enum_case(rng)
    # PYTHON-VALIDATOR ROUTE: x = Property(T) for every trait term of the grid and for random nestings: the assignment
    # is validated by T's Python-level validate (the twin of the compiled validator the plain attribute uses), the
    # setter receives the validated value; same reference oracle as for the plain attribute (implementation + oracle only)
    for tt in singles:
        order = list(L)
        rng.shuffle(order)
        for i in range(0, len(order), 12):
            yield "#" + make_case("(Prop %s)" % tt, [(rng.choice(kinds), v) for v in order[i:i + 12]])
    for _ in range(ncomp // 2):
        tt = V.random_trait(rng, rng.randint(1, depth), mapped=rng.random() < 0.2)
        ops = [(rng.choice(kinds), V.random_value_for(rng, tt, L)) for _ in range(rng.randint(2, 6))]
        yield "#" + make_case("(Prop %s)" % tt, ops)
    # forward-referenced Instance("Name") nested several levels deep in containers: resolution changes no verdict
    for _ in range(ncomp // 3):
        yield nested_fwd_case(rng)
    for _ in range(ncomp):
        tt = V.random_trait(rng, rng.randint(1, depth), mapped=False)
        ops = [(rng.choice(kinds), V.random_value_for(rng, tt, L)) for _ in range(rng.randint(2, 6))]
        side = [rng.choice(SIDE_OPS) if rng.random() < 0.3 else None for _ in ops]
        yield make_case(tt, ops, side)


UNHASHABLE_MEMBERS = ["(List Int)", "(List Any)", "(Dict)", "(Set)", "(Instance list 0 0 N)", "(Instance object 0 0 N)",
                      "(Instance dict 1 0 N)", "(Array N N 0)", "(Array 4 N 0)", "(CoerceH list)", "(CastH list)", "(CoerceH dict)",
                      "TupleAny", "(FunctionH 0)", "(InstanceH list 0)"]
UNHASHABLE_VALUES = ["(l (i 1) (i 2))", "(l)", "(l (i 4))", "(l (s a))", "(dict 0)", "(dict 1)", "(st (i 1) (i 2))", "(st)", "(nd 2 (2))",
                     "(nd 4 (3))", "(arr 0)", "(t (l (i 1)) (i 2))", "(badeq 0)", "(l (l (i 1)))"]
HASHABLE_NON_KEYS = ["(t (i 1) (i 2))", "(t)", "(i 3)", "(f 6)", "N", "(s maybe)", "(s)", "(inst 2 (2) () 3)", "(b 1)", "(y a)"]
MAP_KEYS = ["(s yes)", "(s no)", "(ss yes)", "(s y)", "(s n)"]


def mapped_unhashable_case(rng, mapped_members, kinds):
    others = [rng.choice(UNHASHABLE_MEMBERS) for _ in range(rng.randint(1, 2))]
    if rng.random() < 0.3:
        others.append(V.random_trait(rng, 0, mapped=False))
    others = [o for o in others if o != "Any" and "Instance (u 2) 1 2" not in o]
    alts = others + [rng.choice(mapped_members)]
    if rng.random() < 0.15:
        alts.append(rng.choice(mapped_members))
    rng.shuffle(alts)
    r = rng.random()
    if r < 0.6:
        tt = "(Either %d %s)" % (1 if rng.random() < 0.2 else 0, " ".join(alts))
    elif r < 0.85:
        tt = "(CompoundH %s)" % " ".join(alts)
    else:       # the mapped member one level down
        tt = "(Either 0 %s (Either 0 %s))" % (alts[0], " ".join(alts[1:]))
    vals = []
    for _ in range(rng.randint(3, 7)):
        r = rng.random()
        vals.append(rng.choice(MAP_KEYS) if r < 0.35 else rng.choice(UNHASHABLE_VALUES) if r < 0.75 else rng.choice(HASHABLE_NON_KEYS))
    return make_case(tt, [(rng.choice(kinds), v) for v in vals])


def flat_members(t):
    if isinstance(t, list) and t[0] in ("Either", "CompoundH"):
        return [x for m in (t[2:] if t[0] == "Either" else t[1:]) for x in flat_members(m)]
    return [t]


def compound_shape(t, value, ctx, obj):
    """`Either(Map+List)`: head of the compound, the kinds of its mapped members, the kind of the member that alone
    accepts the value."""
    ms = flat_members(t)
    mapped = sorted(set(m[0] for m in ms if isinstance(m, list) and m[0] in ("Map", "MapH", "PrefixMap")))
    acc = "none"
    for m in ms:
        if m == "NoneT" or (isinstance(m, list) and m[0] in ("Map", "MapH", "PrefixMap")):
            continue
        ct = V.as_ctrait(V.build_trait(m, ctx))
        out, _, _ = V.show_outcome(lambda: ct.validate(obj, "x", value), ctx)
        if out.startswith("ok "):
            acc = m if isinstance(m, str) else m[0]
            break
    return "%s(%s+%s)" % (t[0], "/".join(mapped), acc)


def _hit(sig, what, **kw):
    d = {"signature": sig, "what": what}
    d.update(kw)
    return d


# ------------------------------------------------------------------ reference (from the documentation)

def safe_eq(a, b):
    if a is b:
        return True
    try:
        import warnings
        with warnings.catch_warnings():
            warnings.simplefilter("ignore")
            return bool(a == b)
    except Exception:
        return False


def hashable(x):
    try:
        hash(x)
        return True
    except TypeError:
        return False


def in_range(lo, hi, exlo, exhi, w):
    if w != w:
        return False
    if lo is not None and not (lo < w if exlo else lo <= w):
        return False
    if hi is not None and not (w < hi if exhi else w <= hi):
        return False
    return True


BUILTIN_T = {"CInt": int, "CFloat": float, "CComplex": complex, "CStr": str, "CBytes": bytes, "CBool": bool}


def ref_domain(t, w, ctx):
    """Does w satisfy the declared criteria of trait term t."""
    np = ctx.w.np
    if isinstance(t, str):
        if t == "Any":
            return True
        if t == "Int":
            return type(w) is int
        if t == "Float":
            return type(w) is float
        if t == "Complex":
            return type(w) is complex
        if t == "Str":
            return isinstance(w, str)
        if t == "Bytes":
            return isinstance(w, bytes)
        if t == "Bool":
            return type(w) is bool
        if t in BUILTIN_T:
            return type(w) is BUILTIN_T[t]
        if t == "Module":
            return isinstance(w, types.ModuleType)
        if t == "TupleAny":
            return isinstance(w, tuple)
        if t == "NoneT":
            return w is None
        raise AssertionError(t)
    h = t[0]
    if h == "Base":
        return ref_domain(t[1], w, ctx)
    if h == "RangeF":
        return type(w) is float and in_range(V.opt_f(t[1]), V.opt_f(t[2]), t[3] == "1", t[4] == "1", w)
    if h == "RangeI":
        lo = None if t[1] == "N" else int(t[1])
        hi = None if t[2] == "N" else int(t[2])
        return type(w) is int and in_range(lo, hi, t[3] == "1", t[4] == "1", w)
    if h in ("Enum", "EnumH"):
        return any(safe_eq(V.build_value(m, ctx), w) for m in t[1:])
    if h in ("Map", "MapH"):
        return hashable(w) and any(safe_eq(V.build_value(k, ctx), w) for k, _ in t[1:])
    if h in ("Tuple", "BaseTuple"):
        return isinstance(w, tuple) and len(w) == len(t) - 1 and all(ref_domain(a, x, ctx) for a, x in zip(t[1:], w))
    if h == "ValidatedTuple":
        if not (type(w) is tuple and len(w) == len(t) - 2 and all(ref_domain(a, x, ctx) for a, x in zip(t[2:], w))):
            return False
        return t[1] == "N" or bool(V.PREDS[int(t[1])](w))
    if h == "Instance":
        c = V.build_type(t[1], ctx)
        mode = int(t[3])
        return ((t[2] == "1" and w is None) or (w is not None and isinstance(w, c))
                or (mode >= 1 and c is ctx.classes[2] and isinstance(w, ctx.classes[9]))
                or (mode == 2 and w is None))
    if h == "InstanceH":
        return (t[2] == "1" and w is None) or (w is not None and isinstance(w, V.build_type(t[1], ctx)))
    if h == "Type":
        return (t[2] == "1" and w is None) or (isinstance(w, type) and issubclass(w, V.build_type(t[1], ctx)))
    if h == "This":
        return (t[1] == "1" and w is None) or isinstance(w, ctx.classes[5])
    if h == "Callable":
        return (t[1] == "1" and w is None) or callable(w)
    if h in ("TraitK", "EitherK"):
        # a value is legal iff it is one of the LISTED constants or a member accepts it; the definition's
        # default is a legal value only for constants alone (Trait(default, c1, c2))
        consts, members = (t[2], t[3:]) if h == "TraitK" else (t[1], t[2:])
        vals = [V.build_value(c, ctx) for c in consts]
        if h == "TraitK" and not members:
            vals.append(V.build_value(t[1], ctx))
        return any(safe_eq(c, w) for c in vals) or any(ref_domain(a, w, ctx) for a in members)
    if h == "Either":
        return any(ref_domain(a, w, ctx) for a in t[2:]) or (t[1] == "1" and w is None)
    if h in ("Union", "CompoundH"):
        return any(ref_domain(a, w, ctx) for a in t[1:])
    if h == "String":
        mx = None if t[2] == "N" else int(t[2])
        return (type(w) is str and int(t[1]) <= len(w) and (mx is None or len(w) <= mx)
                and (t[3] == "N" or re.match(V.REGEXES[int(t[3])], w) is not None))
    if h == "Array":
        if not isinstance(w, np.ndarray):
            return False
        if t[1] != "N" and str(w.dtype) != V.DTYPES[int(t[1])]:
            return False
        spec = V.shape_spec(t[2])
        if spec is None:
            return True
        if len(spec) != w.ndim:
            return False
        for sp, d in zip(spec, w.shape):
            if sp is None:
                continue
            if isinstance(sp, int):
                if d != sp:
                    return False
            elif d < sp[0] or (sp[1] is not None and d > sp[1]):
                return False
        return True
    if h == "PrefixList":
        return isinstance(w, str) and str(w) in [V.dec(x) for x in t[1:]]
    if h == "PrefixMap":
        return isinstance(w, str) and str(w) in [V.dec(k) for k, _ in t[1:]]
    if h == "CoerceH":
        return isinstance(w, V.build_type(t[1], ctx))
    if h == "CastH":
        return type(w) is V.build_type(t[1], ctx)
    if h == "FunctionH":
        return True
    if h == "List":
        return isinstance(w, list) and all(ref_domain(t[1], x, ctx) for x in w)
    if h == "Dict":
        return isinstance(w, dict)
    if h == "Set":
        return isinstance(w, set)
    if h == "SetOf":
        return isinstance(w, set) and all(ref_domain(t[1], x, ctx) for x in w)
    if h == "DictOf":
        return isinstance(w, dict) and all(ref_domain(t[1], k, ctx) and ref_domain(t[2], x, ctx) for k, x in w.items())
    if h == "InstanceF":
        return (t[1] == "1" and w is None) or isinstance(w, V.FwdP)
    raise AssertionError(t)


def same(a, b, ctx):
    """Same exact type and payload (identity for opaque objects)."""
    if a is b:
        return True
    try:
        return V.show_value(a, ctx) == V.show_value(b, ctx) and "unk" not in V.show_value(a, ctx)
    except Exception:
        return False


def attempt(f):
    import warnings
    try:
        with warnings.catch_warnings():
            warnings.simplefilter("ignore")
            return [f()]
    except Exception:
        return []


def conv_ok(t, v, w, ctx):
    """Is w the documented conversion of the assigned value v for trait term t."""
    import operator
    np = ctx.w.np
    strlike = isinstance(v, (str, bytes))

    def one_of(cands):
        return any(same(c, w, ctx) for c in cands)
    if isinstance(t, str):
        if t in ("Any", "Str", "Bytes", "Module", "NoneT"):
            return w is v
        if t == "Int":
            return one_of(attempt(lambda: int(operator.index(v))))
        if t == "Float":
            return w is v if type(v) is float else (not strlike and one_of(attempt(lambda: float(v))))
        if t == "Complex":
            return w is v if type(v) is complex else (not strlike and one_of(attempt(lambda: complex(v))))
        if t == "Bool":
            return isinstance(v, (bool, np.bool_)) and one_of([bool(v)])
        if t in BUILTIN_T:
            T = BUILTIN_T[t]
            return w is v if type(v) is T else one_of(attempt(lambda: T(v)))
        if t == "TupleAny":
            return w is v or (isinstance(v, list) and one_of([tuple(v)]))
        raise AssertionError(t)
    h = t[0]
    if h == "Base":
        return conv_ok(t[1], v, w, ctx)
    if h == "RangeF":
        return conv_ok("Float", v, w, ctx)
    if h == "RangeI":
        return conv_ok("Int", v, w, ctx)
    if h in ("Enum", "EnumH", "Map", "MapH", "Type", "This", "Callable", "InstanceH"):
        return w is v
    if h == "ValidatedTuple":
        # element-wise documented conversion, in a real tuple (exact element types are checked by the members)
        if isinstance(v, list):
            v = tuple(v)
        return (isinstance(v, tuple) and type(w) is tuple and len(v) == len(w) == len(t) - 2
                and all(conv_ok(a, x, y, ctx) for a, x, y in zip(t[2:], v, w)))
    if h in ("Tuple", "BaseTuple"):
        if h == "BaseTuple" and isinstance(v, list):
            v = tuple(v)
        return (isinstance(v, tuple) and isinstance(w, tuple) and len(v) == len(w) == len(t) - 1
                and all(conv_ok(a, x, y, ctx) for a, x, y in zip(t[1:], v, w))
                and (w is v or type(w) is tuple))
    if h == "Instance":
        from traits.adaptation.api import adapt
        mode = int(t[3])
        if w is v:
            return True
        if mode >= 1:
            a = attempt(lambda: adapt(v, V.build_type(t[1], ctx), None))
            if a and a[0] is not None and type(a[0]) is type(w) and getattr(w, "adaptee", None) is v:
                return True
        return mode == 2 and w is None
    if h in ("TraitK", "EitherK"):
        members = t[3:] if h == "TraitK" else t[2:]
        return w is v or any(conv_ok(a, v, w, ctx) and ref_domain(a, w, ctx) for a in members)
    if h == "Either":
        return any(conv_ok(a, v, w, ctx) and ref_domain(a, w, ctx) for a in t[2:]) or (t[1] == "1" and v is None and w is None)
    if h in ("Union", "CompoundH"):
        return any(conv_ok(a, v, w, ctx) and ref_domain(a, w, ctx) for a in t[1:])
    if h == "String":
        return isinstance(v, (str, int, float, complex)) and one_of(attempt(lambda: str(v)))
    if h == "Array":
        if w is v:
            return True
        if not isinstance(w, np.ndarray):
            return False
        if isinstance(v, np.ndarray):
            return (t[1] != "N" and w.shape == v.shape and str(w.dtype) == V.DTYPES[int(t[1])]
                    and bool(np.can_cast(v.dtype, w.dtype, casting=V.CASTINGS[int(t[3])])))
        if isinstance(v, (list, tuple)):
            a = attempt(lambda: np.asarray(v) if t[1] == "N" else np.asarray(v, V.DTYPES[int(t[1])]))
            return bool(a) and a[0].shape == w.shape and a[0].dtype == w.dtype
        return False
    if h in ("PrefixList", "PrefixMap"):
        keys = [V.dec(x) for x in t[1:]] if h == "PrefixList" else [V.dec(k) for k, _ in t[1:]]
        if not isinstance(v, str):
            return False
        if str(v) in keys:
            return w is v
        m = [k for k in keys if k.startswith(v)]
        return len(m) == 1 and same(m[0], w, ctx)
    if h == "CoerceH":
        T = V.build_type(t[1], ctx)
        if isinstance(v, T):
            return w is v
        return one_of(attempt(lambda: T(v)))
    if h == "CastH":
        T = V.build_type(t[1], ctx)
        return w is v if type(v) is T else one_of(attempt(lambda: T(v)))
    if h == "FunctionH":
        return one_of(attempt(lambda: V.FUNCS[int(t[1])](None, "x", v)))
    if h == "List":
        return isinstance(v, list) and isinstance(w, list) and len(v) == len(w) and all(conv_ok(t[1], x, y, ctx) for x, y in zip(v, w))
    if h == "Dict":
        return isinstance(v, dict) and isinstance(w, dict) and dict(w) == v
    if h == "Set":
        return isinstance(v, set) and isinstance(w, set) and set(w) == v
    raise AssertionError(t)


def protocol_exceptions(vterm, acc):
    """Exception classes the value's own conversion protocol may raise."""
    if isinstance(vterm, str):
        return acc
    h = vterm[0]
    if h in ("idx", "flt", "cpx", "idxflt"):
        for r in vterm[1:]:
            if r[0] == "exc":
                acc.add(r[1])
            elif h in ("idx", "idxflt") and r[0] == "ret" and abs(int(r[1])) >= 2 ** 1000:
                acc.add("OverflowError")
    elif h in ("i", "is") and abs(int(vterm[1])) >= 2 ** 1000:
        acc.add("OverflowError")
    elif h in ("f", "fs", "nf", "flt", "c", "cs", "nc") and ("inf" in show_flat(vterm) or "-inf" in show_flat(vterm)):
        acc.add("OverflowError")          # int(float('inf')): an overflowing numeric conversion
    elif h in ("t", "ts", "l"):
        for x in vterm[1:]:
            protocol_exceptions(x, acc)
    return acc


def show_flat(vterm):
    return V.show_sexp(vterm).replace("(", " ").replace(")", " ").split()


def raiser(t, value, ctx, obj, en):
    """The innermost member of a compound / tuple whose own validator raises `en`."""
    if isinstance(t, list) and t[0] in ("Either", "Union", "CompoundH", "Tuple", "BaseTuple"):
        members = t[2:] if t[0] == "Either" else t[1:]
        pairs = [(m, value) for m in members]
        if t[0] in ("Tuple", "BaseTuple"):
            pairs = list(zip(members, value)) if isinstance(value, (tuple, list)) and len(value) == len(members) else []
        for m, x in pairs:
            if m == "NoneT":
                continue
            o = V.build_trait(m, ctx)
            ct = V.as_ctrait(o)
            out, _, _ = V.show_outcome(lambda: ct.validate(obj, "x", x), ctx)
            if out == "exc " + en:
                return raiser(m, x, ctx, obj, en)
        return V.trait_head(t)
    return V.trait_head(t)


def rebuilt_tuple(r, stored, ctx):
    """The member probed alone (compiled validator) hands a tuple-SUBCLASS instance back as it is, while the
    Python validator of Tuple (the one a Python route such as Property(T) runs) stores a new plain tuple of the
    same items (finding F11): the member is still the one responsible for `stored`."""
    return (isinstance(r, tuple) and type(r) is not tuple and type(stored) is tuple and len(r) == len(stored)
            and all(same(a, b, ctx) for a, b in zip(r, stored)))


def acceptor(t, value, stored, ctx, obj):
    """The innermost member responsible for `stored`: the alternative that alone
    yields it / the tuple element the reference objects to.  (term, value, stored)"""
    if isinstance(t, list) and t[0] in ("Either", "Union", "CompoundH"):
        for m in (t[2:] if t[0] == "Either" else t[1:]):
            if m == "NoneT":
                continue
            ct = V.as_ctrait(V.build_trait(m, ctx))
            out, r, _ = V.show_outcome(lambda: ct.validate(obj, "x", value), ctx)
            if out.startswith("ok ") and (same(r, stored, ctx) or rebuilt_tuple(r, stored, ctx)):
                return acceptor(m, value, stored, ctx, obj)
    elif isinstance(t, list) and t[0] in ("Tuple", "BaseTuple", "ValidatedTuple") and isinstance(value, (tuple, list)) \
            and isinstance(stored, (tuple, list)) \
            and len(value) == len(stored) == len(t) - (2 if t[0] == "ValidatedTuple" else 1):
        for m, x, y in zip(t[2:] if t[0] == "ValidatedTuple" else t[1:], value, stored):
            if not ref_domain(m, y, ctx) or not conv_ok(m, x, y, ctx):
                return acceptor(m, x, y, ctx, obj)
    return t, value, stored


def judge_stored(t, value, stored, ctx, obj, where):
    """Oracle: what is stored lies in the declared domain and is the documented conversion."""
    in_dom = ref_domain(t, stored, ctx)
    if in_dom and conv_ok(t, value, stored, ctx):
        return []
    lt, lv, ls = acceptor(t, value, stored, ctx, obj)
    hd = V.trait_head(lt)
    vc = V.value_class(V.canon(lv, ctx))
    shown = V.show_value(stored, ctx)
    if isinstance(lt, list) and lt[0] == "RangeF" and isinstance(ls, float) and ls != ls:
        return [_hit("float-range-accepts-nan", where + ": stored %s" % shown)]
    if isinstance(lt, list) and lt[0] == "CoerceH" and ls is lv:
        return [_hit("coerce-fast-skips-conversion", where + ": stored %s unchanged; the documentation promises a "
                     "value of the trait's type (coercible values converted)" % shown)]
    if not ref_domain(lt, ls, ctx):
        return [_hit("stored-out-of-domain:%s:%s" % (hd, vc), where + ": stored %s, outside the declared domain" % shown)]
    return [_hit("unexpected-conversion:%s:%s" % (hd, vc), where + ": stored %s, not the documented conversion" % shown)]


def mapped_ref(t, w, ctx):
    if isinstance(t, list) and t[0] == "Base":
        return mapped_ref(t[1], w, ctx)
    if isinstance(t, list) and t[0] in ("Either", "CompoundH") and has_mapped_member(t):
        # a compound with a mapped member is mapped: the first mapped member that knows the value
        # maps it, a nested mapped compound decides for itself, otherwise the identity mapping
        for m in (t[2:] if t[0] == "Either" else t[1:]):
            if isinstance(m, list) and m[0] in ("Either", "CompoundH") and has_mapped_member(m):
                return mapped_ref(m, w, ctx)
            if isinstance(m, list) and m[0] in ("Map", "MapH", "PrefixMap") and hashable(w):
                ok, mv = mapped_ref(m, w, ctx)
                if ok:
                    return True, mv
        return True, w
    if isinstance(t, list) and t[0] in ("Map", "MapH"):
        for k, v in t[1:]:
            if safe_eq(V.build_value(k, ctx), w):
                return True, V.build_value(v, ctx)
    if isinstance(t, list) and t[0] == "PrefixMap":
        for k, v in t[1:]:
            if isinstance(w, str) and V.dec(k) == str(w):
                return True, V.build_value(v, ctx)
    return False, None


# ------------------------------------------------------------------ the real object

def build_class(decls, ctx):
    import traits.api as T
    ns = {"__repr__": lambda self: "<A>"}
    for name, term in decls:
        if isinstance(term, list) and term[0] == "Prop":
            # PYTHON-VALIDATOR ROUTE: x = Property(T) validates an assignment with T's Python-level validate and hands
            # the VALIDATED value to the setter; setter / getter keep it in the instance dict under the same name
            o = V.build_trait(term[1], ctx)
            ns[name] = T.Property(o if isinstance(o, (T.TraitType, T.CTrait)) else T.Trait(o))
            ns["_get_" + name] = (lambda n: lambda self: self.__dict__.get(n))(name)
            ns["_set_" + name] = (lambda n: lambda self, v: self.__dict__.__setitem__(n, v))(name)
            continue
        o = V.build_trait(term, ctx)
        if isinstance(o, (T.TraitType, T.CTrait)):
            ns[name] = o
        elif isinstance(term, list) and term[0] == "MapH":
            # Trait(default, TraitMap(...)): a mapped trait needs a default that is a key
            ns[name] = T.Trait(V.build_value(term[1][0], ctx), o)
        else:
            ns[name] = T.Trait(o)
    A = type("A", (ctx.classes[0],), ns)
    ctx.classes[5] = A
    return A


def state_of(obj, names, ctx):
    d = obj.__dict__
    return " ".join("%s=%s" % (n, V.show_value(d[n], ctx)) for n in sorted(names) if n in d)


def has_mapped_member(t):
    if isinstance(t, str):
        return False
    if t[0] in ("Map", "MapH", "PrefixMap"):
        return True
    return t[0] in ("Either", "CompoundH", "Base") and any(has_mapped_member(x) for x in t[1:])


# ------------------------------------------------------------------ Range with trait-named (dynamic) bounds

DYN_NUMS = ["(i -1)", "(i 0)", "(i 2)", "(f -4)", "(f 0)", "(f 8)", "N"]
DYN_VALUES = ["(f 2)", "(f -6)", "(f 6)", "(f 10)", "(f -2)", "(f 0)", "(f -4)", "(f 8)", "(f 4)", "(i 0)", "(i -1)", "(i 1)", "(i 2)",
              "(i 3)", "(b 1)", "(nf 32 2)", "(nf 64 -6)", "(ni 8 3)", "(ni 64 2)", "(f nan)", "(f inf)", "(s a)", "N",
              "(idx (ret 1))", "(flt (ret 6))", "(is 0)", "(fs 2)"]


def dynamic_case(rng):
    """`#r|-|low high exlo exhi|ops`: low / high are `dyn` (a trait name), a number term or N; ops set the bound
    attributes (`lo v`, `hi v`) and assign the range through the routes."""
    low = rng.choice(["dyn", "dyn", "dyn", "(i 0)", "(f 0)", "N"])
    high = rng.choice(["dyn", "dyn", "(i 2)", "(f 8)", "N"]) if low != "N" else "dyn"
    if low != "dyn" and high != "dyn":
        low = "dyn"
    ops = []
    if low == "dyn":
        ops.append("lo " + rng.choice(DYN_NUMS[:6]))
    if high == "dyn":
        ops.append("hi " + rng.choice(DYN_NUMS[:6]))
    if rng.random() < 0.2:
        ops.append("get")                                    # the default, before anything was assigned
    for _ in range(rng.randint(3, 9)):
        r = rng.random()
        if r < 0.15 and low == "dyn":
            ops.append("lo " + rng.choice(DYN_NUMS))
            if rng.random() < 0.7:
                ops.append("get")                            # the governing trait changed: read
        elif r < 0.3 and high == "dyn":
            ops.append("hi " + rng.choice(DYN_NUMS))
            if rng.random() < 0.7:
                ops.append("get")
        elif r < 0.4:
            ops.append("get")
        else:
            ops.append("%s %s" % (rng.choice(["set", "set", "tset", "setq", "qset"]), rng.choice(DYN_VALUES)))
    return "#r|-|%s %s %d %d|%s" % (low, high, rng.randint(0, 1), rng.randint(0, 1), ";".join(ops))


def run_r(cfg, opstr):
    """Range(low='lo', high='hi', …): after every accepted assignment the cached and the readable value must be of
    the bounds' type, the conversion of the assigned value, and inside the CURRENT bounds with their exclusivity."""
    import traits.api as T
    ctx = V.Ctx()
    toks = V.parse_sexps(cfg)
    low_t, high_t, exlo, exhi = toks[0], toks[1], toks[2] == "1", toks[3] == "1"

    def bound(t, name):
        return name if t == "dyn" else V.build_value(t, ctx)
    ns = {"lo": T.Any(0), "hi": T.Any(2), "__repr__": lambda self: "<D>"}
    try:
        ns["r"] = T.Range(low=bound(low_t, "lo"), high=bound(high_t, "hi"), exclude_low=exlo, exclude_high=exhi)
    except Exception as e:
        return "ctor " + V.exc_name(e), [], ["dynrange:ctor-error"]
    D = type("D", (T.HasTraits,), ns)
    obj = D()
    hits, outs, tags = [], [], {"dynrange"}
    where0 = "Range(low=%s, high=%s, exclude_low=%s, exclude_high=%s)" % (
        V.show_sexp(low_t), V.show_sexp(high_t), exlo, exhi)
    assigned = False

    def range_type(lo, hi):
        T_ = type(lo) if lo is not None else type(hi)
        if low_t != "dyn" and low_t != "N" and high_t == "dyn":
            T_ = type(V.build_value(low_t, ctx))       # a static bound fixes the type
        if high_t != "dyn" and high_t != "N" and low_t == "dyn":
            T_ = type(V.build_value(high_t, ctx))
        return T_
    for op in [o for o in opstr.split(";") if o.strip()]:
        if op.strip() == "get":
            # ---- oracle: every readable value lies in the CURRENT declared range (bounds read from the governing
            # attributes, not from the handler), whatever was assigned before the bounds moved
            lo = obj.lo if low_t == "dyn" else V.build_value(low_t, ctx)
            hi = obj.hi if high_t == "dyn" else V.build_value(high_t, ctx)
            where = "%s with lo=%r hi=%r, read r%s" % (where0, lo, hi, " (after an assignment)" if assigned else " (nothing assigned)")
            tags.add("dynrange:read-" + ("assigned" if assigned else "default"))
            try:
                readable = obj.r
            except Exception as e:
                en = V.exc_name(e)
                outs.append("read raises " + en)
                cached = obj.__dict__.get("_traits_cache_r", "unset")
                if en == "TypeError" and cached is None and not assigned:
                    # the default is the value of the low (else high) bound; a bound attribute holding None makes it
                    # None, which _get caches and then compares with the other bound
                    hits.append(_hit("dynamic-range-default-from-none-bound-unreadable", where + ": raises TypeError (the cached "
                                     "default is None, taken from a bound attribute that held None at the first read)"))
                elif isinstance(cached, float) and ((en == "OverflowError" and cached in (float("inf"), float("-inf")))
                                                    or (en == "ValueError" and cached != cached)):
                    tags.add("dynrange:read-overflowing-conversion")   # int(inf) / int(nan) after the bounds' type changed
                else:
                    hits.append(_hit("readable-raises:RangeDyn:%s" % en, where))
                continue
            outs.append("read " + V.show_value(readable, ctx))
            if lo is None and hi is None:
                continue
            if lo is not None and hi is not None and (lo > hi or (lo == hi and (exlo or exhi))):
                tags.add("dynrange:read-empty-domain")     # no value can satisfy the statement
                continue
            if type(readable) is range_type(lo, hi) and in_range(lo, hi, exlo, exhi, readable):
                continue
            if (exlo and lo is not None and readable == lo) or (exhi and hi is not None and readable == hi):
                hits.append(_hit("dynamic-range-read-gives-excluded-bound", where + ": reads %s, the EXCLUDED bound" % V.show_value(readable, ctx)))
            elif isinstance(readable, float) and readable != readable:
                hits.append(_hit("dynamic-range-nan-survives-new-bounds", where + ": reads nan (stored while both bounds were None)"))
            else:
                hits.append(_hit("dynamic-range-stale-read" if assigned else "dynamic-range-default-out-of-domain",
                                 where + ": reads %s, outside the current range" % V.show_value(readable, ctx)))
            continue
        k, vs = op.strip().split(" ", 1)
        value = V.build_value(V.parse_sexp(vs), ctx)
        if k in ("lo", "hi"):
            setattr(obj, k, value)
            outs.append("%s=%s" % (k, vs))
            continue
        lo = obj.lo if low_t == "dyn" else V.build_value(low_t, ctx)
        hi = obj.hi if high_t == "dyn" else V.build_value(high_t, ctx)
        before = obj.__dict__.get("_traits_cache_r", None)
        exc = None
        try:
            import warnings
            with warnings.catch_warnings():
                warnings.simplefilter("ignore")
                if k == "set":
                    obj.r = value
                elif k == "tset":
                    obj.trait_set(r=value)
                elif k == "qset":
                    obj.trait_set(trait_change_notify=False, r=value)
                else:
                    obj.trait_setq(r=value)
        except BaseException as e:  # noqa: B902
            exc = e
        where = "%s with lo=%r hi=%r, %s r:=%s" % (where0, lo, hi, k, vs)
        if exc is not None:
            en = V.exc_name(exc)
            outs.append(en)
            if obj.__dict__.get("_traits_cache_r", None) is not before:
                hits.append(_hit("failed-assignment-had-effect:RangeDyn:%s" % en, where))
            if en == "TypeError" and ("N" in (low_t, high_t) or lo is None or hi is None):
                # (known finding: dynamic-range-none-bound-typeerror) a None bound: _vtype NoneType for a static None (NoneType(value) raises on every assignment),
                # and for a bound attribute holding None the error path (full_info) calls vtype(None)
                hits.append(_hit("dynamic-range-none-bound-typeerror", where + ": raised TypeError"))
            elif en != "TraitError" and en not in protocol_exceptions(V.parse_sexp(vs), set()):
                hits.append(_hit("foreign-exception:RangeDyn:%s" % en, where))
            continue
        tags.add("dynrange:accepted")
        assigned = True
        stored = obj.__dict__.get("_traits_cache_r", None)
        try:
            readable = obj.r
        except Exception as e:
            en = V.exc_name(e)
            outs.append("ok, read raises " + en)
            if en == "TypeError" and ("N" in (low_t, high_t) or lo is None or hi is None):
                hits.append(_hit("dynamic-range-none-bound-typeerror", where + ": accepted, reading r raises TypeError"))
            else:
                hits.append(_hit("readable-raises:RangeDyn:%s" % en, where))
            continue
        outs.append("ok " + V.show_value(stored, ctx))
        if lo is None and hi is None:
            continue                                   # unbounded: any int or float as it is
        T_ = range_type(lo, hi)
        for label, w in (("stored", stored), ("readable", readable)):
            ok_type = type(w) is T_
            ok_conv = ok_type and same(w, attempt(lambda: T_(value))[0] if attempt(lambda: T_(value)) else None, ctx)
            ok_range = ok_type and in_range(lo, hi, exlo, exhi, w)
            if not ok_range:
                hits.append(_hit("stored-out-of-domain:RangeDyn", where + ": %s %s lies outside the declared range" % (
                    label, V.show_value(w, ctx))))
                break
            if not ok_conv:
                hits.append(_hit("unexpected-conversion:RangeDyn", where + ": %s %s" % (label, V.show_value(w, ctx))))
                break
    return " ; ".join(outs), hits, tags


# ------------------------------------------------------------------ Enum with a trait-named (dynamic) collection

ENUM_MEMBERS = ["(i 1)", "(i 2)", "(i 3)", "(i 4)", "(s a)", "(s b)", "(s c)", "N", "(f 4)", "(f 6)", "(t (i 1) (i 2))", "(b 1)", "(s)", "(i 0)"]
ENUM_VALUES = ENUM_MEMBERS + ["(ss a)", "(is 2)", "(f 8)", "(l (i 1))", "(nd 2 (2))", "(badeq 0)", "(obj 0)", "(t (i 1) (f 8))", "(y a)"]


def enum_collection(rng, kind=None):
    kind = kind or rng.choice(["l", "l", "l", "t", "t", "st"])
    ms = rng.sample(ENUM_MEMBERS, rng.randint(0 if rng.random() < 0.1 else 1, 4))
    return "(%s)" % " ".join([kind] + ms), ms


def dynamic_enum_case(rng):
    """`#e|-|governor-kind initial-collection default|ops`: the governor `vals` is an Any or a List trait holding the
    collection; ops replace it (`vals C`), mutate it in place (`app v`, `ins v`, `rem0`, `pop`, `clr`), assign the
    enumeration through the routes and read it (`get`)."""
    gov = rng.choice(["any", "any", "list"])
    init, ms = enum_collection(rng, "l" if gov == "list" else None)
    r = rng.random()
    default = "-" if r < 0.5 else (rng.choice(ms) if ms and r < 0.75 else rng.choice(ENUM_VALUES[:16]))
    ops = []
    cur = list(ms)
    if rng.random() < 0.3:
        ops.append("get")
    for _ in range(rng.randint(3, 9)):
        r = rng.random()
        if r < 0.4:
            v = rng.choice(cur) if cur and rng.random() < 0.75 else rng.choice(ENUM_VALUES)
            ops.append("%s %s" % (rng.choice(["set", "set", "tset", "setq", "qset", "new"]), v))
            if ops[-1].startswith("new"):
                cur = list(ms)
            if rng.random() < 0.3:
                ops.append("get")
        elif r < 0.55:
            c, cur = enum_collection(rng, "l" if gov == "list" else None)
            ops.append("vals " + c)
            if rng.random() < 0.8:
                ops.append("get")
        elif r < 0.75:
            m = rng.choice(["app " + rng.choice(ENUM_MEMBERS), "ins " + rng.choice(ENUM_MEMBERS), "rem0", "pop", "clr"])
            ops.append(m)
            if rng.random() < 0.8:
                ops.append("get")
        else:
            ops.append("get")
    return "#e|-|%s %s %s|%s" % (gov, init, default, ";".join(ops))


def run_e(cfg, opstr):
    """Enum(values='vals'): every accepted value is a member of the collection `vals` holds at that moment, and every
    value READ is a member of the collection `vals` holds NOW - also after the collection was replaced or mutated in
    place since the last assignment, and for the default (explicit or not) before any assignment."""
    import traits.api as T
    import warnings
    ctx = V.Ctx()
    toks = V.parse_sexps(cfg)
    gov, init_t, default_t = toks[0], toks[1], toks[2]
    init = V.build_value(init_t, ctx)
    ns = {"vals": T.List(T.Any, init) if gov == "list" else T.Any(init), "__repr__": lambda self: "<E>"}
    try:
        ns["e"] = T.Enum(values="vals") if default_t == "-" else T.Enum(V.build_value(default_t, ctx), values="vals")
    except Exception as e:
        return "ctor " + V.exc_name(e), [], ["dynenum:ctor-error"]
    E = type("E", (T.HasTraits,), ns)
    obj = E()
    hits, outs = [], []
    tags = {"dynenum", "dynenum:governor-" + gov, "dynenum:default-" + ("implicit" if default_t == "-" else "explicit")}
    assigned = None                     # [value] once an assignment was accepted
    since = "nothing assigned"
    where0 = "Enum(%svalues='vals'), vals a%s" % ("" if default_t == "-" else V.show_sexp(default_t) + ", ",
                                                 " List trait" if gov == "list" else "n Any trait")

    def members():
        return list(obj.vals)

    def is_member(x, ms):
        return any(safe_eq(m, x) for m in ms)

    def show_ms(ms):
        return "[%s]" % " ".join(V.show_value(m, ctx) for m in ms)
    for op in [o for o in opstr.split(";") if o.strip()]:
        k, _, vs = op.strip().partition(" ")
        if k == "get":
            ms = members()
            where = "%s = %s (%s), read e" % (where0, show_ms(ms), since)
            try:
                with warnings.catch_warnings():
                    warnings.simplefilter("ignore")
                    readable = obj.e
            except Exception as e:
                outs.append("read raises " + V.exc_name(e))
                hits.append(_hit("readable-raises:EnumDyn:%s" % V.exc_name(e), where))
                continue
            outs.append("read " + V.show_value(readable, ctx))
            tags.add("dynenum:read-" + since.split(" ")[0].rstrip(","))
            if not ms:
                tags.add("dynenum:read-empty-domain")       # no value can satisfy the statement
                continue
            if not is_member(readable, ms):
                sig = "dynamic-enum-default-not-member" if assigned is None else "dynamic-enum-stale-read"
                hits.append(_hit(sig, where + ": reads %s, which is not a member of the current collection" % V.show_value(readable, ctx)))
            elif assigned is not None and is_member(assigned[0], ms) and not safe_eq(readable, assigned[0]):
                hits.append(_hit("dynamic-enum-read-is-not-assigned-value", where + ": reads %s although the assigned value %s "
                                 "is a member" % (V.show_value(readable, ctx), V.show_value(assigned[0], ctx))))
            continue
        if k in ("vals", "app", "ins", "rem0", "pop", "clr"):
            try:
                if k == "vals":
                    obj.vals = V.build_value(V.parse_sexp(vs), ctx)
                else:
                    c = obj.vals
                    if not isinstance(c, list):
                        outs.append(k + " skipped")
                        continue
                    if k == "app":
                        c.append(V.build_value(V.parse_sexp(vs), ctx))
                    elif k == "ins":
                        c.insert(0, V.build_value(V.parse_sexp(vs), ctx))
                    elif k == "rem0":
                        del c[:1]
                    elif k == "pop":
                        del c[-1:]
                    else:
                        del c[:]
            except Exception as e:
                outs.append("%s raises %s" % (k, V.exc_name(e)))
                continue
            outs.append(op.strip())
            tags.add("dynenum:governor-" + ("replaced" if k == "vals" else "mutated"))
            if assigned is not None:
                since = "assigned, then the collection was " + ("replaced" if k == "vals" else "mutated in place")
            continue
        value = V.build_value(V.parse_sexp(vs), ctx)
        target = obj
        ms = members() if k != "new" else list(init)     # (reading `vals` may write its default into the dict: do it first)
        before = dict(obj.__dict__)
        where = "%s = %s, %s e:=%s" % (where0, show_ms(ms), k, vs)
        exc = None
        try:
            with warnings.catch_warnings():
                warnings.simplefilter("ignore")
                if k == "set":
                    obj.e = value
                elif k == "tset":
                    obj.trait_set(e=value)
                elif k == "qset":
                    obj.trait_set(trait_change_notify=False, e=value)
                elif k == "setq":
                    obj.trait_setq(e=value)
                else:
                    target = E(e=value)
        except BaseException as e:  # noqa: B902
            exc = e
        if exc is not None:
            en = V.exc_name(exc)
            outs.append(en)
            after = obj.__dict__
            if set(after) != set(before) or any(after[x] is not before[x] for x in before):
                hits.append(_hit("failed-assignment-had-effect:EnumDyn:%s" % en, where))
            if en == "ValueError" and ms and ("badeq" in vs or "(nd " in vs):
                tags.add("dynenum:value-eq-raises")        # the value's own == raised it (safe_contains catches TypeError only)
            elif en != "TraitError":
                hits.append(_hit("foreign-exception:EnumDyn:%s" % en, where))
            elif is_member(value, ms) and hashable(value):
                hits.append(_hit("dynamic-enum-rejects-member", where))
            continue
        obj = target
        outs.append("ok")
        tags.add("dynenum:accepted")
        assigned = [value]
        since = "assigned"
        if not is_member(value, ms):
            hits.append(_hit("dynamic-enum-accepts-non-member", where))
    return " ; ".join(outs), hits, tags


# ------------------------------------------------------------------ forward references nested in containers

FWD_OBJS = ["(inst 6 (6) () 11)", "(inst 6 (6) () 12)", "(inst 7 (7 6) () 13)"]


def fwd_term(rng, depth, hashable_only=False):
    """A nesting of List / SetOf / DictOf / Tuple / Either around a forward-referenced Instance, `depth` levels deep."""
    if depth <= 0:
        return "(InstanceF %d)" % (1 if rng.random() < 0.25 else 0)
    r = rng.random()
    if hashable_only or r < 0.3:
        sub = fwd_term(rng, depth - 1, True)
        return rng.choice(["(Tuple %s Int)", "(Tuple Int %s)", "(Tuple %s Int)", "(Tuple Str %s Int)"]) % sub
    if r < 0.6:
        return "(List %s)" % fwd_term(rng, depth - 1)
    if r < 0.72:
        return "(SetOf %s)" % fwd_term(rng, depth - 1, True)
    if r < 0.87:
        return "(DictOf Str %s)" % fwd_term(rng, depth - 1)
    return rng.choice(["(Either 0 Str %s)", "(Either 0 %s Int)"]) % fwd_term(rng, depth - 1)


def fwd_valid(rng, t, with_obj=False):
    """A value term in the declared domain of t (with_obj: holding at least one non-None instance where possible)."""
    if isinstance(t, str):
        return {"Int": "(i %d)" % rng.randint(0, 5), "Str": rng.choice(["(s a)", "(s b)", "(s k)"])}[t]
    h = t[0]
    if h == "InstanceF":
        return "N" if (t[1] == "1" and not with_obj and rng.random() < 0.3) else rng.choice(FWD_OBJS)
    if h == "Tuple":
        return "(t %s)" % " ".join(fwd_valid(rng, m, with_obj) for m in t[1:])
    if h == "Either":
        ms = [m for m in t[2:] if not isinstance(m, str)] if with_obj else t[2:]
        return fwd_valid(rng, rng.choice(ms), with_obj)
    n = rng.randint(1, 3) if (with_obj or rng.random() < 0.85) else 0
    if h == "List":
        return "(l %s)" % " ".join(fwd_valid(rng, t[1], with_obj) for _ in range(n)) if n else "(l)"
    if h == "SetOf":
        return "(st %s)" % " ".join(sorted(set(fwd_valid(rng, t[1], with_obj) for _ in range(n)))) if n else "(st)"
    if h == "DictOf":
        return "(dd %s)" % " ".join("(%s %s)" % (k, fwd_valid(rng, t[2], with_obj)) for k in ["(s a)", "(s b)", "(s c)"][:n]) if n else "(dd)"
    raise AssertionError(t)


def fwd_invalid(rng, t):
    """A value term OUTSIDE the declared domain of t: valid except at one place, where the shape is wrong (a bare
    instance / a number where a container is required, a wrong length, a wrong leaf)."""
    if isinstance(t, str):
        return {"Int": rng.choice(["(s x)", "(f 6)", "N"]), "Str": rng.choice(["(i 3)", "N"])}[t]
    h = t[0]
    if h == "InstanceF":
        return rng.choice(["(i 3)", "(inst 2 (2) () 3)", "(s a)", "(t)", "(l)"] + ([] if t[1] == "1" else ["N"]))
    if h == "Either":
        return rng.choice(["(f 6)", "(t)", "(inst 2 (2) () 3)"])
    here = rng.random() < 0.4
    if h == "Tuple":
        if here:
            items = [fwd_valid(rng, m) for m in t[1:]]
            return rng.choice([rng.choice(FWD_OBJS), "(i 3)", "(t %s)" % " ".join(items[:-1]) if len(items) > 1 else "(t)",
                               "(t %s (i 1))" % " ".join(items), "(l %s)" % " ".join(items)])
        j = rng.randrange(1, len(t))
        return "(t %s)" % " ".join(fwd_invalid(rng, m) if i == j else fwd_valid(rng, m) for i, m in enumerate(t[1:], 1))
    if here:
        return rng.choice([rng.choice(FWD_OBJS), "(i 3)", "(t %s)" % rng.choice(FWD_OBJS), "(s ab)"])
    n = rng.randint(1, 3)
    j = rng.randrange(n)
    if h == "List":
        return "(l %s)" % " ".join(fwd_invalid(rng, t[1]) if i == j else fwd_valid(rng, t[1]) for i in range(n))
    if h == "SetOf":
        bad = fwd_invalid(rng, t[1])
        if "(l" in bad or "(dd" in bad or "(st" in bad:
            bad = rng.choice(FWD_OBJS) if t[1][0] != "InstanceF" else "(i 3)"
        return "(st %s)" % " ".join(sorted(set([bad] + [fwd_valid(rng, t[1]) for _ in range(n - 1)])))
    if h == "DictOf":
        return "(dd %s)" % " ".join("(%s %s)" % (k, fwd_invalid(rng, t[2]) if i == j else fwd_valid(rng, t[2]))
                                    for i, k in enumerate(["(s a)", "(s b)", "(s c)"][:n]))
    raise AssertionError(t)


def item_term(t):
    """The declared item / value trait of a container term (None for the others)."""
    if isinstance(t, list) and t[0] in ("List", "SetOf"):
        return t[1]
    if isinstance(t, list) and t[0] == "DictOf":
        return t[2]
    return None


def nested_fwd_case(rng):
    """`#n|-|trait term|ops`: ops are `<kind> <object index> <value term>`: set / tset / new (constructor keyword on a fresh
    object that replaces object i) assign the attribute, app / ext / sit / add / dset mutate the stored container,
    iapp / isit mutate its first inner container."""
    tt = fwd_term(rng, rng.choice([1, 2, 2, 2, 3, 3]))
    t = V.parse_sexp(tt)
    ops = []

    def assign(valid, with_obj=False):
        v = fwd_valid(rng, t, with_obj) if valid else fwd_invalid(rng, t)
        ops.append("%s %d %s" % (rng.choice(["set", "set", "tset", "new"]), 0 if rng.random() < 0.6 else 1, v))

    def mutate(valid):
        it = item_term(t)
        if it is None:
            return assign(valid)
        inner = item_term(it)
        if inner is not None and rng.random() < 0.4:
            v = fwd_valid(rng, inner) if valid else fwd_invalid(rng, inner)
            ops.append("%s %d %s" % (rng.choice(["iapp", "isit"]), 0 if rng.random() < 0.6 else 1, v))
            return
        v = fwd_valid(rng, it) if valid else fwd_invalid(rng, it)
        k = {"List": rng.choice(["app", "ext", "sit", "app"]), "SetOf": "add", "DictOf": "dset"}[t[0]]
        ops.append("%s %d %s" % (k, 0 if rng.random() < 0.6 else 1, "(l %s)" % v if k == "ext" else v))
    for _ in range(rng.randint(0, 2)):              # before the class is resolved
        assign(rng.random() < 0.3)
    assign(True, with_obj=True)                     # a valid value holding an instance: resolves the forward reference
    for _ in range(rng.randint(3, 8)):
        r = rng.random()
        if r < 0.4:
            assign(False)
        elif r < 0.55:
            assign(True, with_obj=rng.random() < 0.5)
        elif r < 0.85:
            mutate(False)
        else:
            mutate(True)
    return "#n:%s|-|%s|%s" % (crash_class(V.parse_sexp(tt)), tt, ";".join(ops))


def crash_class(t):
    """Second half of the kind field of an `#n` case: it ends up in the signature the engine gives a CRASH of the
    case (`crash:n:forward-ref-in-nested-compound`), so that a crash is filed under the shape that produced it."""
    compounds = ("Either", "CompoundH", "Union")
    if isinstance(t, str):
        return "forward-ref-in-" + t
    if t[0] in compounds:
        nested = any((not isinstance(m, str)) and m[0] in compounds for m in t[1:])
        return "forward-ref-in-" + ("nested-compound" if nested else "compound")
    return "forward-ref-in-" + t[0]


def shape_of(t, depth=2):
    """`List(Tuple)`: the outer container and the kinds of its members (two levels)."""
    if isinstance(t, str):
        return t
    if t[0] == "InstanceF":
        return "InstanceF"
    if depth <= 1:
        return t[0]
    return "%s(%s)" % (t[0], ",".join(shape_of(m, depth - 1) for m in (t[2:] if t[0] == "Either" else t[1:])))


def freeze(x):
    """Structure of a stored value with the leaves by identity (to tell whether anything changed)."""
    if isinstance(x, (list, tuple)):
        return (type(x).__name__, tuple(freeze(y) for y in x))
    if isinstance(x, (set, frozenset)):
        return ("set", frozenset(freeze(y) for y in x))
    if isinstance(x, dict):
        return ("dict", tuple(sorted(((repr(k), freeze(v)) for k, v in x.items()))))
    return x if isinstance(x, (int, float, str, type(None))) else ("obj", id(x))


def run_n(tt, opstr):
    """Every value / item the attribute accepts lies in the DECLARED nested domain and every value of the declared
    domain is accepted - before and after the forward reference is resolved, for the object that triggered the
    resolution and for every other object of the class; a rejected operation changes nothing."""
    import traits.api as T
    import warnings
    ctx = V.Ctx()
    t = V.parse_sexp(tt)
    o = V.build_trait(t, ctx)
    A = type("N", (T.HasTraits,), {"x": o, "count": T.Int(3), "__repr__": lambda self: "<N>"})
    objs = {0: A(), 1: A()}
    hits, outs, tags = [], [], {"nested-forward", "nested-forward:depth-%d" % tt.count("(")}
    resolved = False
    shape = shape_of(t)

    def sig():
        # the class is looked up by this very step when its value holds an instance
        resolving = resolved or "(inst 6" in vs or "(inst 7" in vs
        return ("forward-ref-resolution-changes-validation:" if resolving else "nested-container-validation:") + shape
    for i, op in enumerate([x for x in opstr.split(";") if x.strip()]):
        k, oi, vs = op.strip().split(" ", 2)
        oi = int(oi)
        vterm = V.parse_sexp(vs)
        value = V.build_value(vterm, ctx)
        obj = objs[oi]
        before = dict((j, freeze(ob.x)) for j, ob in objs.items())
        target, dom_t, judged = None, t, value
        try:
            with warnings.catch_warnings():
                warnings.simplefilter("ignore")
                cur = obj.x
                if k in ("iapp", "isit"):
                    inner = [c for c in (cur.values() if isinstance(cur, dict) else cur if isinstance(cur, (list, set)) else [])
                             if isinstance(c, (list, dict))] if cur is not None else []
                    if not inner or not isinstance(inner[0], list) or (k == "isit" and not inner[0]):
                        outs.append("skip")
                        continue
                    dom_t = item_term(item_term(t))
                    if k == "iapp":
                        inner[0].append(value)
                    else:
                        inner[0][0] = value
                elif k in ("app", "ext", "sit", "add", "dset"):
                    dom_t = item_term(t)
                    if k == "ext":
                        judged = value[0]
                    if (k in ("app", "ext", "sit") and not isinstance(cur, list)) or (k == "sit" and not cur) \
                            or (k == "add" and not isinstance(cur, set)) or (k == "dset" and not isinstance(cur, dict)):
                        outs.append("skip")
                        continue
                    if k == "app":
                        cur.append(value)
                    elif k == "ext":
                        cur.extend(value)
                    elif k == "sit":
                        cur[0] = value
                    elif k == "add":
                        cur.add(value)
                    else:
                        cur["k"] = value
                elif k == "set":
                    obj.x = value
                elif k == "tset":
                    obj.trait_set(x=value)
                else:
                    target = A(x=value)
            exc = None
        except BaseException as e:  # noqa: B902
            exc = e
        tags.add("nested-forward:op-" + k)
        where = "%s, step %d `%s` (%s; object %d%s); history %s" % (
            tt, i, op.strip(), "forward reference resolved by an earlier step" if resolved else "forward reference not resolved yet",
            oi, "" if oi == 0 else ", not the object that was assigned first", opstr)
        in_dom = ref_domain(dom_t, judged, ctx)
        if exc is not None:
            en = V.exc_name(exc)
            outs.append(en)
            tags.add("nested-forward:rejected-" + ("resolved" if resolved else "unresolved"))
            if before != dict((j, freeze(ob.x)) for j, ob in objs.items()):
                hits.append(_hit("failed-assignment-had-effect:nested:%s" % shape, where + ": raised %s but a stored value changed" % en))
            if en != "TraitError":
                hits.append(_hit("foreign-exception:nested:%s:%s" % (en, shape), where))
            elif in_dom:
                hits.append(_hit(sig(), where + ": a value of the declared domain is REJECTED"))
            continue
        if target is not None:
            objs[oi] = obj = target
        outs.append("ok")
        tags.add("nested-forward:accepted-" + ("resolved" if resolved else "unresolved"))
        if not ref_domain(t, obj.x, ctx):
            hits.append(_hit(sig(), where + ": ACCEPTED, and the attribute now holds %r, which is outside the declared domain" % (obj.x,)))
        elif not in_dom and not ref_domain(dom_t, judged, ctx):
            pass            # converted on the way in (True for an Int item): the stored value was judged above
        for j, ob in objs.items():
            if j != oi and before[j] != freeze(ob.x):
                hits.append(_hit("other-object-changed:nested:%s" % shape, where))
        if "(inst 6" in vs or "(inst 7" in vs:
            resolved = True         # an accepted value holding an instance: Instance("Name").validate has looked the class up
    return " ; ".join(outs), hits, tags


def has_any_member(t):
    if isinstance(t, str):
        return False
    if t[0] in ("Either", "CompoundH"):
        return any(x == "Any" or has_any_member(x) for x in (t[2:] if t[0] == "Either" else t[1:]))
    return t[0] in ("Tuple", "Union", "Base") and any(has_any_member(x) for x in t[1:])


def run_impl(case):
    kind, env, a, b = case.lstrip("#").split("|")
    kind = kind.split(":")[0]                      # `n:<crash class>`, see crash_class
    if kind == "r":
        return run_r(a, b)
    if kind == "e":
        return run_e(a, b)
    if kind == "n":
        return run_n(a, b)
    assert kind == "a"
    mode = V.falsy_mode(a + "|" + b)
    with V.falsy(mode):
        out, hits, tags = run_a(env, a, b)
    return out, hits, list(tags) + ["owner:" + ("truthy", "bool-false", "len-zero")[mode]]


def run_a(env, a, b):
    ctx = V.Ctx()
    decls = []
    for f in a.split(";"):
        n, t = f.split(":", 1)
        decls.append((n.strip(), V.parse_sexp(t)))
    terms = dict(decls)
    A = build_class(decls, ctx)
    names = set(terms) | set(n + "_" for n in terms)
    obj = A()
    outs, hits, tags = [], [], set()
    shadow_spoilt = False
    for op in [o for o in b.split(";") if o.strip()]:
        k, name, vs = op.strip().split(" ", 2)
        vterm = V.parse_sexp(vs)
        value = V.build_value(vterm, ctx)
        t = terms[name]
        route = None
        if isinstance(t, list) and t[0] == "Prop":
            route, t = "property", t[1]
            tags.add("route:property")
        nhits = len(hits)
        hd = V.trait_head(t)
        tags.add("value:" + V.value_class(vterm).split(":")[0])
        tags.add("op:" + k)
        tags.add("trait:" + (t if isinstance(t, str) else t[0]))
        target = obj
        before = dict(obj.__dict__)
        exc = None
        try:
            import warnings
            with warnings.catch_warnings():
                warnings.simplefilter("ignore")
                if k == "set":
                    setattr(obj, name, value)
                elif k == "tset":
                    obj.trait_set(**{name: value})
                elif k == "qset":
                    obj.trait_set(trait_change_notify=False, **{name: value})
                elif k == "setq":
                    obj.trait_setq(**{name: value})
                else:
                    target = A(**{name: value})
        except BaseException as e:  # noqa: B902
            exc = e
        where = "%s %s:=%s on %s" % (k, name, vs, V.show_sexp(t))
        if exc is not None:
            en = V.exc_name(exc)
            tags.add("res:" + en)
            # ---- oracle: a failed assignment has no effect at all
            after = obj.__dict__
            changed = set(after) != set(before) or any(after[x] is not before[x] for x in before)
            if route != "property" and isinstance(t, list) and t[0] in ("Either", "CompoundH") and has_mapped_member(t) and en != "TraitError" \
                    and en not in protocol_exceptions(vterm, set()) and (changed or en == "KeyError"):
                # an exception other than TraitError out of the post_setattr chain of a mapped compound: the dict entry
                # (or the default) is already written and the shadow is stale, so the rest of this history is not
                # judged for shadows.  KeyError: (F46) the unguarded self.map[value] of Map/PrefixMap.post_setattr
                tags.add("mapped-compound:foreign-exception")
                if en == "KeyError":
                    hits.append(_hit("mapped-compound-post-setattr-raises", where + ": raised %s after the value (or the default) "
                                     "was stored: Map.post_setattr looks the value up without guarding" % en))
                else:
                    hits.append(_hit("foreign-exception-after-store:%s:%s" % (en, compound_shape(t, value, ctx, obj)),
                                     where + ": raised %s (not a TraitError) AFTER the object changed: %s; the shadow %s_ is %s" % (
                                         en, ", ".join("%s %s -> %s" % (x, V.show_value(before[x], ctx) if x in before else "unset",
                                                                        V.show_value(after[x], ctx))
                                                       for x in sorted(after) if x not in before or after[x] is not before[x]),
                                         name, V.show_value(after[name + "_"], ctx) if (name + "_") in after else "unset")))
                outs.append("exc " + en)
                shadow_spoilt = True
                continue
            if changed:
                hits.append(_hit("failed-assignment-had-effect:%s:%s" % (hd, en), where + ": raised %s but the object changed" % en))
            if en == "TraitError":
                if ("'%s'" % name) not in str(exc):
                    hits.append(_hit("traiterror-does-not-name-attribute:%s" % hd, where + ": " + str(exc)[:120]))
                outs.append("TraitError")
            else:
                allowed = protocol_exceptions(vterm, set())
                if en not in allowed and en == "TypeError" and has_any_member(t) and not (route == "property" and has_module_member(t)):
                    hits.append(_hit("compound-any-member-not-callable", where + ": raised TypeError ('NoneType' object is not "
                                     "callable): TraitCompound calls the validate attribute of its Any member, which is None"))
                elif en not in allowed and route == "property" and en == "ValueError" and "(FunctionH 2)" in V.show_sexp(t):
                    # (F43c) TraitFunction.validate re-raises what the validator function raises
                    hits.append(_hit("validator-function-raises", where + ": the validator function raises ValueError, "
                                     "TraitFunction.validate lets it out (the compiled path turns it into a TraitError)"))
                elif en not in allowed and route == "property" and en == "ValueError" and eq_raises(vterm):
                    # (F43b) the Python validators of the enumerations test `value in self.values` unguarded
                    hits.append(_hit("value-eq-raises-in-enumeration-member", where + ": the == of the value raises ValueError, "
                                     "which TraitEnum / BaseEnum.validate (a member of this definition) lets out"))
                elif en not in allowed and route == "property" and en == "TypeError" and has_module_member(t):
                    # (F44) Module defines no validate method: TraitCompound.validate calls None
                    hits.append(_hit("compound-member-has-no-python-validate:Module", where + ": raised TypeError: the Module member of "
                                     "the definition has a fast validator but no Python-level validate, TraitCompound.validate calls None"))
                elif en not in allowed:
                    hits.append(_hit("foreign-exception:%s:%s" % (raiser(t, value, ctx, obj, en), en),
                                     where + ": raised %s, which is neither TraitError nor raised by the value's own "
                                     "__index__/__float__/__complex__ or an overflowing conversion" % en))
                outs.append("exc " + en)
            route_sigs(hits, nhits, route)
            continue
        if k == "new":
            obj = target
            before = {}
        tags.add("res:ok")
        if isinstance(t, list) and t[0] in ("Either", "CompoundH") and has_mapped_member(t):
            tags.add("mapped-compound:stored-" + ("hashable" if hashable(value) else "unhashable"))
        d = obj.__dict__
        stored = d.get(name, None) if name in d else None
        if name not in d:
            hits.append(_hit("accepted-but-not-stored:%s" % hd, where))
        else:
            # ---- oracle: what is stored lies in the declared domain and is the documented conversion
            if route == "property" and t != "Any" and getattr(V.as_ctrait(V.build_trait(t, ctx)).handler, "validate", None) is None:
                # (F44) the trait type defines no Python-level validate at all: Property(T) validates nothing
                if not ref_domain(t, stored, ctx):
                    hits.append(_hit("trait-has-no-python-validate:%s" % hd, where + ": stored %s" % V.show_value(stored, ctx)))
            else:
                hits += judge_stored(t, value, stored, ctx, obj, where)
            if getattr(obj, name) is not stored:
                hits.append(_hit("readable-is-not-stored:%s" % hd, where))
            ok, mv = mapped_ref(t, stored, ctx) if route != "property" else (False, None)   # a Property has no shadow
            if ok and not shadow_spoilt and not ((name + "_") in d and same(d[name + "_"], mv, ctx)):
                hits.append(_hit("shadow-is-not-map-of-value:%s" % hd, where + ": shadow %s" % (
                    V.show_value(d.get(name + "_"), ctx) if (name + "_") in d else "missing")))
        # ---- oracle: no other attribute changed
        for x in set(before) | set(d):
            if x in (name, name + "_"):
                continue
            if x not in before or x not in d or d[x] is not before[x]:
                hits.append(_hit("other-attribute-changed:%s" % hd, where + ": attribute %s changed" % x))
        route_sigs(hits, nhits, route)
        outs.append("ok " + state_of(obj, names, ctx))
    return " ; ".join(outs), hits, tags


# root causes that are the same on every route (known findings F42, compound-any, F2): reported under their own name
ROUTE_INDEPENDENT = ("coerce-fast-skips-conversion", "compound-any-member-not-callable", "float-range-accepts-nan")


def has_module_member(t):
    return "Module" in V.show_sexp(t).replace("(", " ").replace(")", " ").split()


def eq_raises(vterm):
    """Does the value term hold an object whose == raises / has no truth value (ndarray, BadEq)."""
    return any(isinstance(x, list) and x and x[0] in ("nd", "arr", "badeq", "ni", "nf", "nc", "nb") for x in V.sub_values(vterm, []))


def route_sigs(hits, start, route):
    """Hits of a step that went through a Python-validator route carry the route in their signature."""
    if route is not None:
        for h in hits[start:]:
            if h["signature"] not in ROUTE_INDEPENDENT:
                h["signature"] = "python-route:%s:%s" % (route, h["signature"])


def nontrivial(case, out):
    return "ok " in out or "exc " in out or "TraitError" in out
