"""C15 - the observe mini-language means what its grammar and tables say."""
from . import dsllib as D

PROPERTY = "C15"
DRIVER = "TraitsVerif/Driver/Dsl.lean"
PROPS_MODULES = ["TraitsVerif.Props.C15"]
TRANSLATORS = ["grammar", "dslprog", "parsertables", "eqrows"]
RULE = ("exhaustive: every string of <= 4 (quick) / <= 6 (thorough) symbols over the 11-symbol alphabet "
        "{a b items +m * . : , [ ] space}; seeded random derivations of the grammar up to depth 6 with "
        "redundant brackets and random blanks (space, tab, newline, CR, FF), a share of them with non-ASCII "
        "identifiers; mutation-fuzzed near-misses of those (deletions, insertions, swaps, odd characters); "
        "'+name' / '*' expressions (alone, below a trait link, below an items link) against REAL leaf objects "
        "whose traits carry the metadata with each of the values True 1 'x' False 0 '' None absent, as class traits "
        "and as traits added after registration: the traits that fire are compared with the model and with the "
        "documented meaning (metadata is not None); "
        "the LIST form observe(handler, [item, ...]) / @observe([...]) / Property(observe=[...]) with 0-5 items drawn "
        "from the valid texts (with and without '*'), near-misses, halves of a bracketed text split at a comma and "
        "ObserverExpression items, against 'rejected iff some item is rejected, else the union of the items'; "
        "LONG expressions (chains of 60-300 elements of '.', ':', ',' and mixtures, parallel groups of series, brackets "
        "nested 60-200 deep: redundant, right-nested, left-nested, 60-200 branches below a series; lengths drawn from "
        "the rng, half of them powers of two and their neighbours) rendered from derivation trees; "
        "for every exhaustive short string, a third of the derivations and every long text also the Tree built by the "
        "REAL generated parser against the tree shape the grammar file prescribes (case t); for every pair also the lru "
        "caches (each text keeps its own pattern after the other went through the cache; pairs equal modulo blanks); "
        "pairs of spellings (blanks / redundant brackets / re-association / swapped branches / perturbed) for "
        "expression and graph equality; a case is non-trivial when it compiled or compared, distinct = "
        "distinct canonical output line")
TRUSTED = ["the LALR tables of _generated_parser.py are not modelled: the model's recursive-descent parser is tied "
           "to them by the exhaustive short-string correspondence and the derivation / near-miss streams",
           "Python's \\w on non-ASCII characters is a parameter of the model's lexer (any table); the harness sends "
           "the table entries for the characters of each case",
           "Lark common.WS = [ \\t\\f\\r\\n] is not in the .lark file (imported); modelled from the generated "
           "parser's terminal table and compared",
           "hash/eq consistency of observers and graphs (Python set semantics) is modelled as 'equal elements are "
           "one element'"]
ASSUMPTIONS = ["expressions small enough for CPython's recursion limit: a series or parallel chain of about 500 or "
               "more operands makes _handle_tree raise RecursionError instead of compiling (resource bound, "
               "outside the model)"]
EXHAUSTIVE = {"quick": True, "thorough": True}

MAX_PATHS = 200

SIG_F8 = "grammar-string-rejected:duplicate-parallel-branches"
SIG_STAR = "documented-string-rejected:star-inside-terminal-brackets"


def corpus():
    texts = [
        # F8
        "x.[a,a]", "x.[a.b,a.b]", "x.[items, items]", "x.[a,[a]]", "x.[a.[b,c],a.[c,b]]", "x:[a,b].[c,c]",
        # accepted duplicates (top level)
        "a,a", "[a,a].b", "[items,items]",
        # documented as permitted, rejected by the grammar file
        "[a.*, b.c]", "[a:*,b]", "[*]", "a.[b,*]",
        # user manual examples
        "*", "foo.+updated", "foo,bar", "foo:[bar,baz]", "container.items.value", "container:items:value",
        "container:items:*", "name.*",
        # test_parsing
        "a:*,b", "*.*", "*:*", "*.name", "*.items", "*:name", "*.a,b", "[a.*,b].c", "a:", "**", ".", "",
        "[[a:b].c]:d", "[a:[b.[c:d]]]", "items:attr",
        # lexer corners
        "itemsx", "items1", "+items", "+ items", "+\titems.items", "a\x0c.b", "a\x0b.b", "a\xa0.b", "é", "a٣",
        "a²", "1a", "_", "a .b", "a. b", "a b", "+ m", "+", "a+b", "a\x1f", "ａ",
    ]
    out = [D.case_c(t) for t in texts]
    out += [D.case_eq("x.[a,b]", "x.[b,a]", "swap"), D.case_eq("[a.b].c", "a.[b.c]", "assoc"),
            D.case_eq("a,b", "b,a", "swap"), D.case_eq("a.b", " a\t. [ b ]\n", "brackets"),
            D.case_eq("a,a", "a", "neg"), D.case_eq("x.[a.[b,c]]", "x.[a.[c,b]]", "swap"),
            D.case_eq("a:b", "a.b", "neg"), D.case_eq("[a,b],c", "a,[b,c]", "assoc"),
            # cache keys: texts that are equal once blanks are removed but are different texts
            D.case_eq("ab", "a b", "cache"), D.case_eq("items", "it ems", "cache"), D.case_eq("a.b", "a .b", "cache"),
            D.case_eq("x", "x\n", "cache"), D.case_eq("a,b", "a ,\tb", "cache"), D.case_eq("+m", "+ m", "cache"),
            D.case_eq("a.items", "a.item s", "cache"), D.case_eq("a1", "a 1", "cache")]
    return out


def _derivations(rng, n, uni_share=0.1):
    for _ in range(n):
        uni = rng.random() < uni_share
        t = D.gen_tree(rng, rng.randint(0, 6), True, "par", uni)
        while D.count_paths(t) > MAX_PATHS:      # `items` multiplies by 4: keep the path sets printable
            t = D.gen_tree(rng, rng.randint(0, 5), True, "par", uni)
        t = D.add_brackets(rng, t, 0.15)
        yield t


def generate(rng, tier):
    if tier == "quick":
        nex, nd, nf, ne, nm = 4, 3000, 1500, 900, 400
    elif tier == "thorough":
        nex, nd, nf, ne, nm = 6, 100000, 30000, 20000, 5000
    else:   # intense
        nex, nd, nf, ne, nm = 5, 30000, 20000, 5000, 3000
    yield from _m_cases(rng, nm)
    yield from _long_cases(rng, {"quick": 48, "thorough": 600}.get(tier, 200))
    nl = {4: 1500, 6: 30000}.get(nex, 10000)
    for s in D.exhaustive(nex):
        yield D.case_c(s)
        yield D.case_t(s)
    texts = []
    for t in _derivations(rng, nd):
        s = D.decorate(rng, D.tree_tokens(t), rng.choice([0.0, 0.1, 0.4]))
        texts.append(s)
        yield D.case_c(s)
        if len(texts) % 3 == 0:
            yield D.case_t(s)
    yield from _l_cases(rng, nl, texts)
    for _ in range(nf):
        yield D.case_c(D.mutate(rng, rng.choice(texts)))
    for t in _derivations(rng, 3 * ne, 0.05):
        if t[0] not in ("ser", "par") and rng.random() < 0.9:
            continue
        s = "".join(D.tree_tokens(t))
        rel = rng.choice(["ws", "brackets", "assoc", "assoc", "swap", "swap", "neg"])
        if rel == "ws":
            u = D.tree_tokens(t)
        elif rel == "brackets":
            u = D.tree_tokens(D.add_brackets(rng, t, 0.4))
        elif rel == "assoc":
            u = D.tree_tokens(D.reassociate(rng, t))
        elif rel == "swap":
            u = D.tree_tokens(D.swap_parallel(rng, t))
        else:
            u = D.tree_tokens(D.perturb(rng, t))
        u_text = D.decorate(rng, u, 0.3) if rel == "ws" or rng.random() < 0.3 else "".join(u)
        yield D.case_eq(s, u_text, rel)
        if rng.random() < 0.15 and len(s) > 1:      # a blank dropped into the text: equal modulo blanks, another text
            i = rng.randint(1, len(s) - 1)
            yield D.case_eq(s, s[:i] + rng.choice(" \t\n") + s[i:], "cache")


LONG_LENGTHS = [63, 64, 65, 127, 128, 129, 255, 256, 257]


def _long_len(rng, lo, hi):
    """A length in [lo, hi]: half of the time a power of two or its neighbour."""
    c = [n for n in LONG_LENGTHS if lo <= n <= hi]
    return rng.choice(c) if c and rng.random() < 0.5 else rng.randint(lo, hi)


def _long_cases(rng, n):
    """LONG expressions rendered from derivation trees: chains of 60-300 elements of each
    connector ('.', ':', mixed, ','), parallel groups of series, brackets nested 60-200 deep
    (redundant, right-nested series, left-nested groups).  The acceptance / parser theorems
    are unbounded in length and depth; CPython's recursion limit is reached at ~480 elements
    (ASSUMPTIONS), so the stream stays at or below 300."""
    names = ["a", "b", "c", "x1", "_y", "name"]
    for i in range(n):
        kind = ["ser.", "ser:", "ser-mixed", "par", "par-of-ser", "brackets-redundant", "brackets-right",
                "brackets-left", "group-below-series"][i % 9]
        el = lambda: rng.choice(names) if rng.random() < 0.9 else rng.choice(["+m", "+sync"])  # noqa: E731
        toks = []
        if kind.startswith("ser"):
            k = _long_len(rng, 60, 300)
            conn = {"ser.": ".", "ser:": ":"}.get(kind)
            for j in range(k):
                if j:
                    toks.append(conn or rng.choice(".:"))
                toks.append(el())
            if rng.random() < 0.3:
                toks[-1] = "*"
        elif kind == "par":
            k = _long_len(rng, 60, 300)
            for j in range(k):
                if j:
                    toks.append(",")
                toks.append(el() if rng.random() < 0.95 else "*")
        elif kind == "par-of-ser":
            k = _long_len(rng, 60, 150)
            for j in range(k):
                if j:
                    toks.append(",")
                toks += [el(), rng.choice(".:"), el()]
        elif kind == "brackets-redundant":
            d = _long_len(rng, 60, 200)
            toks = ["["] * d + [el(), rng.choice(".:,"), el()] + ["]"] * d
        elif kind == "brackets-right":          # a.[b:[c.[ ... ]]]
            d = _long_len(rng, 60, 200)
            for j in range(d):
                toks += [el(), rng.choice(".:"), "["]
            toks += [el()] + ["]"] * d
        elif kind == "brackets-left":           # [[[a,b].c,d]:e ...]
            d = _long_len(rng, 60, 200)
            toks = ["["] * d + [el()]
            for j in range(d):
                toks += [rng.choice(".:,"), el(), "]"]
        else:                                   # x.[a1, a2, ...]: many (partly equal) branches below a series
            k = _long_len(rng, 60, 200)
            toks = [el(), rng.choice(".:"), "["]
            for j in range(k):
                if j:
                    toks.append(",")
                toks.append(rng.choice(names) + (str(j % 97) if rng.random() < 0.8 else ""))
            toks.append("]")
        flat = []
        for t in toks:      # "+m" is two tokens
            flat += ["+", t[1:]] if t.startswith("+") else [t]
        text = D.decorate(rng, flat, rng.choice([0.0, 0.0, 0.1])) if flat else ""
        yield D.case_c(text)
        yield D.case_t(text)


M_PREFIXES = ["", "child:", "child.", "children:items:", "children.items.", " child : ", "[child]:"]
M_LASTS = ["+sync", "+m", "*", "[+sync,+m]", "[+sync, t0]", "[t1,+m]", "+ sync", "[[+sync]]", "t2", "[+m,*]"]


def _m_cases(rng, n):
    """`+name` / `*` (alone, below a trait link, below an items link) against leaf
    objects whose traits carry the metadata with every kind of value, as class
    traits and as traits added after the registration."""
    vals = ["T", "1", "x", "F", "0", "E", "N", "A"]
    out = []
    # every single value, every position, class trait and added trait
    for v in vals:
        for kind in "ca":
            for pre in M_PREFIXES[:5]:
                out.append(D.case_m(pre + "+sync", "t0:%s:%s:A,t1:c:A:%s" % (kind, v, v)))
                out.append(D.case_m(pre + "+m", "t0:%s:%s:A,t1:c:A:%s" % (kind, v, v)))
    for _ in range(n):
        k = rng.randint(3, 6)       # t0..t2 are class traits: the named last elements refer to them
        spec = ",".join("t%d:%s:%s:%s" % (i, "c" if i < 3 else rng.choice("cca"), rng.choice(vals), rng.choice(vals))
                        for i in range(k))
        pre, last = rng.choice(M_PREFIXES), rng.choice(M_LASTS)
        if "*" in last and pre.startswith("["):
            pre = "child:"
        out.append(D.case_m(pre + last, spec))
    return out


def _l_cases(rng, n, texts):
    """The LIST form: items from the valid texts (with and without `*`), near-misses,
    halves of a bracketed text split at a comma, ObserverExpression items."""
    out = [D.case_l(x) for x in (
        [], [("=", "a")], [("=", "age"), ("=", "child.value")], [("=", "child.value"), ("=", "*")],
        [("=", "child:*"), ("=", "age")], [("=", "*"), ("=", "*")], [("=", "[age"), ("=", "name]")],
        [("=", "[a"), ("=", "b"), ("=", "c]")], [("~", "a:b"), ("=", "*")], [("~", "a.*"), ("~", "b")],
        [("=", "a"), ("=", "")], [("=", "a."), ("=", "b")], [("=", "x.[a"), ("=", "a]")],
        [("=", "a,*"), ("=", "b:*")], [("~", "a"), ("=", "[b"), ("=", "c]")])]
    valid = [t for t in texts if len(t) <= 40]
    for _ in range(n):
        k = rng.choice([1, 2, 2, 2, 3, 3, 4])
        items = []
        budget = MAX_PATHS
        while len(items) < k:
            r = rng.random()
            t = rng.choice(valid)
            try:
                np_ = len(D.denote(t)[0])
            except D.NotInLanguage:
                np_ = 1
            if np_ > budget // 2:
                t = rng.choice(["a", "*", "b:*", "items", "+m"])
                np_ = 4
            budget -= np_
            if r < 0.12:
                items.append(("~", t) if "*" not in t or rng.random() < 0.5 else ("=", t))
            elif r < 0.24:
                items.append(("=", D.mutate(rng, t)))
            elif r < 0.36 and "," in t:
                i = rng.choice([j for j, ch in enumerate(t) if ch == ","])
                items.append(("=", "[" + t[:i]))
                items.append(("=", t[i + 1:] + "]"))
            elif r < 0.5:
                items.append(("=", rng.choice(["*", "a:*", "b.*", "*,a", "[a,b]:*"])))
            else:
                items.append(("=", t))
        out.append(D.case_l(items))
    return out


def _hit(sig, what, **kw):
    d = {"signature": sig, "what": what}
    d.update(kw)
    return d


_PROBE = None


def _probe_object():
    """An object on which compiled graphs can be walked (so that code which mutates
    cached graphs while hooking up observers would show)."""
    global _PROBE
    if _PROBE is None:
        from traits.api import Dict, HasTraits, Instance, Int, List, Set, Str

        class Node(HasTraits):
            a = Instance(HasTraits)
            b = List(Instance(HasTraits))
            c = Dict(Str, Instance(HasTraits))
            x1 = Set(Int)
            name = Str(m=True)
            items = List(Int)
            _y = Int(updated=True)

        n = Node()
        n.a = Node(a=Node(), b=[Node()], c={"k": Node()})
        n.b = [Node(), Node(a=Node())]
        n.c = {"k": Node(b=[Node()])}
        _PROBE = n
    return _PROBE


_DYN = {}


def _dyn_class(names, metas):
    """A HasTraits class with an `Any` trait for every name of the expression (and
    `items`), each carrying every metadata name of the expression."""
    key = (names, metas)
    if key not in _DYN:
        from traits.api import Any, HasTraits
        try:
            md = {m: True for m in metas}
            _DYN[key] = type("Dyn", (HasTraits,), {n: Any(**md) for n in names})
        except Exception:      # noqa: BLE001  (a metadata name that TraitType reserves)
            _DYN[key] = None
    return _DYN[key]


def _hooks(objs):
    """Number of notifiers of the observe machinery (TraitEventNotifier,
    ObserverChangeNotifier, ...) attached anywhere on the objects."""
    def mine(ns):
        return sum(1 for x in (ns or ()) if type(x).__module__.startswith("traits.observation"))
    n = 0
    for o in objs:
        n += mine(o._notifiers(False))
        for t in o._instance_traits().values():
            n += mine(t._notifiers(False))
    return n


def _removal_check(text, dup, tags):
    """The property's last clause on REAL objects: observe(h, text) followed by
    observe(h, <equivalent spelling>, remove=True) leaves nothing attached."""
    try:
        toks = D.tokenize(text)
    except D.NotInLanguage:
        return []
    names, metas, prev = {"items"}, set(), None
    for t in toks:
        if isinstance(t, tuple):
            (metas if prev == "+" else names).add(t[1])
        prev = t
    if len(names) > 8:
        return []
    cls = _dyn_class(tuple(sorted(names)), tuple(sorted(metas)))
    if cls is None:
        tags.add("removal:class-not-buildable")
        return []
    depth = sum(1 for t in toks if t in (".", ":")) + 1
    objs = [cls() for _ in range(depth + 1)]
    for i in range(depth):
        for n in names:
            setattr(objs[i], n, objs[i + 1])
    calls = []
    handler = calls.append
    other = ("[ " + text + " ]") if "*" not in text else (" " + text + "\t")
    before = _hooks(objs)
    try:
        objs[0].observe(handler, text)
    except Exception as e:      # noqa: BLE001
        tags.add("removal:observe-raised:" + type(e).__name__)
        return []
    hooked = _hooks(objs) - before
    kind = "dup" if dup else "nodup"
    tags.add("removal-checked:" + kind)
    try:
        objs[0].observe(handler, other, remove=True)
    except Exception as e:      # noqa: BLE001
        return [_hit("removal-by-text-raises:" + kind, "observe(h, %r) then observe(h, %r, remove=True) raised %s"
                     % (text, other, type(e).__name__), text=text)]
    left = _hooks(objs) - before
    del calls[:]
    for o in objs:
        for n in names:
            setattr(o, n, cls())
    if left != 0 or calls:
        return [_hit("removal-by-text-leaves-hooks:" + kind,
                     "after observe(h, %r) (+%d notifiers) and observe(h, %r, remove=True) %d notifier(s) stay attached "
                     "and the handler was called %d time(s) by later changes" % (text, hooked, other, left, len(calls)),
                     text=text)]
    return []


def _classify_rejected(text, info, exc=None):
    if exc is not None and info["dup"] and "unique" not in str(exc):
        info = dict(info, dup=False)        # rejected by the parser, not by the uniqueness check
    if info["star_in_brackets"]:
        return SIG_STAR, ("'*' inside brackets in a terminal position is documented as permitted "
                          "(manual: \"[a.*, b.c]\") but rejected")
    if info["dup"]:
        return SIG_F8, ("a string generated by the grammar is rejected with ValueError 'Not all children are "
                        "unique' because two parallel branches below a series compile to equal graphs")
    return "grammar-string-rejected:unexplained", "a string of the documented language is rejected"


def _run_c(text):
    from traits.observation import expression as E
    from traits.observation import parsing as P
    tags = set()
    hits = []
    graphs = None
    try:
        graphs = P.compile_str(text)
        out = "ok " + D.show_graphs(graphs)
    except Exception as e:     # noqa: BLE001
        out = "err " + D.exc_name(e)
        real_exc = e
    # ---------------- oracle: the property statement on the real code
    try:
        expected, info = D.denote(text)
    except D.NotInLanguage:
        expected, info = None, None
    if expected is None:
        tags.add("outside-language")
        if graphs is not None:
            hits.append(_hit("non-grammar-string-accepted", "a string outside the documented language compiles",
                             text=text, observed=out))
        elif out != "err ValueError":
            hits.append(_hit("rejection-not-valueerror", "rejected with %s, not ValueError" % type(real_exc).__name__,
                             text=text))
        else:
            tags.add("err:ValueError")
        return out, hits, tags
    tags.add("in-language")
    tags.add("paths:%s" % (len(expected) if len(expected) < 8 else "8+"))
    for mark, tag in (("*", "anytrait"), ("items", "items"), ("+", "metadata"), ("[", "brackets"),
                      (":", "quiet"), (".", "notify"), (",", "parallel")):
        if mark in text:
            tags.add("has:" + tag)
    if any(ord(ch) >= 128 for ch in text):
        tags.add("has:non-ascii-name")
    nconn = sum(text.count(ch) for ch in ".:,")
    if nconn >= 59 or text.count("[") >= 60:
        tags.add("long:elements-%s" % ("60-127" if nconn < 127 else "128-255" if nconn < 255 else "256+")
                 if nconn >= 59 else "long:brackets-only")
        if text.count("[") >= 60:
            tags.add("long:bracket-depth-60+")
    if graphs is None:
        sig, what = _classify_rejected(text, info, real_exc)
        tags.add("rejected:" + sig.split(":")[-1])
        if out != "err ValueError":
            sig, what = "rejection-not-valueerror", "raised %s" % type(real_exc).__name__
        hits.append(_hit(sig, what, text=text, expected="ok " + "|".join(expected), observed=out))
        return out, hits, tags
    observed = out[3:].split("|") if out[3:] else []
    if set(observed) != set(expected) or (not info["dup"] and observed != expected):
        kind = "paths"
        strip = lambda ps: sorted(set(">".join(st.split(":")[0] + ":" + (st.split(":")[1] if st[0] in "TM" else "")  # noqa: E731
                                                for st in p.split(">")) for p in ps))
        if strip(observed) == strip(expected):
            kind = "flags"
        hits.append(_hit("meaning-differs:" + kind, "compiled graphs do not denote the documented paths",
                         text=text, expected=expected, observed=observed))
    # notify law, directly on the real graphs: a step notifies iff it is last or followed by '.'
    # (checked through `expected`, which carries the flag computed from the following connector)
    # ---- same text twice / cache
    try:
        again = P.compile_str(text)
        p1, p2 = P.parse(text), P.parse(text)
        fresh = P.parse.__wrapped__(text)
        fresh_graphs = fresh._as_graphs()
        if not (again == graphs and p1 == p2 and hash(p1) == hash(p2) and fresh == p1 and hash(fresh) == hash(p1)
                and fresh_graphs == graphs and [hash(g) for g in fresh_graphs] == [hash(g) for g in graphs]
                and D.show_graphs(fresh_graphs) == out[3:]):
            hits.append(_hit("reparse-differs", "parsing the same text twice gives different patterns", text=text))
        # ---- cached objects are not mutated by use
        # (long chains: acceptance and meaning only - walking a 100+ level pattern over real objects takes minutes)
        if len(expected) <= 64 and not any(t.startswith("long:") for t in tags):
            obj = _probe_object()
            handler = _noop
            for remove in (False, True):
                try:
                    obj.observe(handler, text, remove=remove)
                except Exception:      # noqa: BLE001  (missing traits etc.; the walk is what matters)
                    pass
            if D.show_graphs(graphs) != out[3:] or P.compile_str(text) != fresh_graphs \
                    or P.parse(text) != fresh or E.compile_expr(fresh) != fresh_graphs:
                hits.append(_hit("cached-graphs-mutated", "cached compile result changed after use", text=text))
            tags.add("cache-checked")
            if not any(ord(ch) >= 128 for ch in text):
                hits.extend(_removal_check(text, info["dup"], tags))
    except Exception as e:      # noqa: BLE001
        hits.append(_hit("reparse-raises", "second parse raised %s" % type(e).__name__, text=text))
    return out, hits, tags


def _noop(event):
    pass


def _cache_hits(t1, t2, tags):
    """The lru caches of parse / compile_str are keyed by the text itself: after the OTHER text of
    the pair went through the cache, each text still gets its own pattern (or its own rejection) -
    the one an uncached parse gives and the one the documented semantics give - never the other's."""
    from traits.observation import parsing as P

    def outcome(f, text):
        try:
            return D.show_graphs(f(text))
        except Exception as e:      # noqa: BLE001
            return "err " + D.exc_name(e)
    hits = []
    for a, b in ((t1, t2), (t2, t1)):
        outcome(P.compile_str, b)
        got = outcome(P.compile_str, a)
        fresh = outcome(lambda t: P.parse.__wrapped__(t)._as_graphs(), a)
        via_parse = outcome(lambda t: P.parse(t)._as_graphs(), a)
        try:
            exp, info = D.denote(a)
            documented = None if info["star_in_brackets"] else set(exp)
        except D.NotInLanguage:
            documented = "err"
        wrong = got != fresh or via_parse != fresh
        if not wrong and documented is not None:
            wrong = (got.startswith("err") != (documented == "err")) or \
                (documented != "err" and set(got.split("|") if got else []) != documented)
        if wrong:
            hits.append(_hit("cache-returns-other-pattern", "compile_str(%r) after compile_str(%r) gives %s; uncached: %s"
                             % (a, b, got[:80], fresh[:80]), text=[a, b]))
    tags.add("cache-pair-checked:" + ("same-modulo-blanks" if "".join(t1.split()) == "".join(t2.split())
                                      else "different"))
    return hits


def _run_eq(t1, t2, rel):
    from collections import Counter
    from traits.observation import expression as E
    from traits.observation import parsing as P
    tags = {"eq:" + rel}
    hits = _cache_hits(t1, t2, tags)
    try:
        p1, p2 = P.parse(t1), P.parse(t2)
    except Exception as e:      # noqa: BLE001
        out = "err " + D.exc_name(e)
        ok_lang = True
        try:
            _, i1 = D.denote(t1)
            _, i2 = D.denote(t2)
        except D.NotInLanguage:
            ok_lang = False
        if ok_lang:
            info = i1 if i1["star_in_brackets"] or i1["dup"] else i2
            sig, what = _classify_rejected(t1, info)
            hits.append(_hit(sig, what, text=[t1, t2], observed=out))
        return out, hits, tags
    b0 = p1 == p2
    try:
        g1, g2 = E.compile_expr(p1), E.compile_expr(p2)
    except Exception as e:      # noqa: BLE001
        out = "eq %s err" % D.b01(b0)
        try:
            _, i1 = D.denote(t1)
            _, i2 = D.denote(t2)
            info = i1 if i1["dup"] else i2
            sig, what = _classify_rejected(t1, info, e)
            if D.exc_name(e) != "ValueError":
                sig, what = "rejection-not-valueerror", type(e).__name__
            hits.append(_hit(sig, what, text=[t1, t2], observed=out))
        except D.NotInLanguage:
            hits.append(_hit("non-grammar-string-accepted", "parsed a string outside the language", text=[t1, t2]))
        return out, hits, tags
    b1 = g1 == g2
    b2 = set(g1) == set(g2)
    out = "eq %s %s %s" % (D.b01(b0), D.b01(b1), D.b01(b2))
    multiset = Counter(g1) == Counter(g2)
    # ---------------- oracle: equivalent spellings yield equal patterns, so that
    # removal by text matches registration by text (graphs are matched one by one)
    if rel in ("ws", "brackets") and not (b0 and b1 and hash(p1) == hash(p2)):
        hits.append(_hit("equivalent-spelling-differs:" + rel, "blanks / redundant brackets changed the pattern",
                         text=[t1, t2], observed=out))
    if rel == "assoc" and not b1:
        hits.append(_hit("equivalent-spelling-differs:assoc", "re-bracketing a series / parallel changed the graphs",
                         text=[t1, t2], observed=out))
    if rel == "swap" and not multiset:
        hits.append(_hit("equivalent-spelling-differs:swap", "swapping parallel branches changed the graphs "
                         "(graph equality must ignore the order of children)", text=[t1, t2], observed=out))
    if rel in ("ws", "brackets", "assoc", "swap") and multiset and \
            Counter(hash(g) for g in g1) != Counter(hash(g) for g in g2):
        hits.append(_hit("equal-graphs-different-hash", "equal graphs hash differently", text=[t1, t2]))
    return out, hits, tags


def _run_m(text, spec):
    """Which traits of a REAL leaf object a compiled expression fires for."""
    from traits.api import HasTraits, Instance, Int, List
    from traits.observation import parsing as P
    tags = {"match"}
    hits = []
    traits = []
    for item in spec.split(","):
        name, kind, vs, vm = item.split(":")
        md = {}
        if vs != "A":
            md["sync"] = D.META_VALUES[vs]
        if vm != "A":
            md["m"] = D.META_VALUES[vm]
        traits.append((name, kind, md, vs, vm))
        tags.add("meta-value:" + vs)
        tags.add("meta-value:" + vm)
        tags.add("trait-kind:" + ("class" if kind == "c" else "added"))
    try:
        P.compile_str(text)
    except Exception as e:      # noqa: BLE001
        return "err " + D.exc_name(e), [], tags
    Child = type("Child", (HasTraits,), {n: Int(**md) for n, k, md, _, _ in traits if k == "c"})
    Parent = type("Parent", (Child,), {"child": Instance(HasTraits), "children": List(Instance(HasTraits))})
    leaf_direct = not ("child" in text)
    events = []
    if leaf_direct:
        root = leaf = Child()
        tags.add("position:top")
    else:
        leaf = Child()
        root = Parent(child=leaf, children=[Child(), leaf])
        tags.add("position:below-items" if "items" in text else "position:below-trait")
    root.observe(events.append, text)
    for n, k, md, _, _ in traits:
        if k == "a":
            leaf.add_trait(n, Int(**md))
    for n, _, _, _, _ in traits:
        setattr(leaf, n, getattr(leaf, n) + 1)
    own = {n for n, _, _, _, _ in traits}       # (`*` also reports the `trait_added` event of add_trait itself)
    fired = sorted({e.name for e in events if e.object is leaf and e.name in own})
    out = "fired " + (",".join(fired) if fired else "-")
    # ---------------- oracle: the documented meaning, independent of traits and of the model:
    # "+metadata_name  matches any trait on the object that has metadata metadata_name"
    # (expression.metadata: "traits whose 'age' attribute has a non-None value"); "*" any trait.
    try:
        t = D.tree_of(text)
        ws = D.words(t, True, None, False, {})
    except D.NotInLanguage:
        ws = []
    expected = set()
    for w in ws:
        atom = w[-1][0]
        for n, _, md, _, _ in traits:
            if atom[0] == "A":
                expected.add(n)
            elif atom[0] == "M" and md.get(atom[1]) is not None:
                expected.add(n)
            elif atom[0] == "T" and atom[1] == n:
                expected.add(n)
    if set(fired) != expected:
        wrong = sorted(set(fired) ^ expected)
        cls = set()
        for n, _, md, vs, vm in traits:
            if n in wrong:
                for v in (vs, vm):
                    cls.add("falsy" if v in "F0E" else "none" if v in "NA" else "truthy")
        sig = "metadata-filter-meaning:" + ("falsy-value" if "falsy" in cls else "-".join(sorted(cls)) or "other")
        hits.append(_hit(sig, "a compiled '+name' / '*' step fires for %s on a real object, the documented meaning "
                         "(metadata is not None) gives %s" % (fired, sorted(expected)), text=text, traits=spec))
    # removal by (another spelling of the) text detaches it again
    del events[:]
    try:
        root.observe(events.append, " " + text + " ", remove=True)
        for n, _, _, _, _ in traits:
            setattr(leaf, n, getattr(leaf, n) + 1)
        if events:
            hits.append(_hit("removal-by-text-leaves-hooks:filter", "handler still called after removal", text=text))
    except Exception as e:      # noqa: BLE001
        hits.append(_hit("removal-by-text-raises:filter", "removal raised %s" % type(e).__name__, text=text))
    return out, hits, tags


def _run_l(items):
    """observe(handler, [item, ...]) / @observe([...]) / Property(observe=[...])."""
    from traits.api import HasTraits, Property, observe
    from traits.observation import parsing as P
    tags = {"list-form", "list-len:%d" % len(items)}
    hits = []
    arg = []
    for k, t in items:
        if k == "~":
            try:
                arg.append(P.parse(t))
            except Exception:      # noqa: BLE001
                return "bad-case", [], tags
            tags.add("item:expression")
        else:
            arg.append(t)
    # the three entry points
    graphs = None
    try:
        deco = observe(list(arg))(_method)
        graphs = deco._observe_inputs[-1]["graphs"]
        del deco._observe_inputs[-1]
        out = "ok " + D.show_graphs(graphs)
    except Exception as e:      # noqa: BLE001
        out = "err " + D.exc_name(e)
    results = {"@observe": out.split()[0] + (" " + out.split()[1] if out.startswith("err") else "")}
    try:
        # compiled by the metaclass when the class is created (_create_property_observe_state)
        type("WithProperty", (HasTraits,), {"p": Property(observe=list(arg))})
        results["Property(observe=)"] = "ok"
    except Exception as e:      # noqa: BLE001
        results["Property(observe=)"] = "err " + D.exc_name(e)
    obj = HasTraits()
    try:
        obj.observe(_noop, list(arg))
        results["HasTraits.observe"] = "ok"
    except Exception as e:      # noqa: BLE001
        # a valid pattern fails here only because the probe object lacks the traits
        # (ValueError from the observer, raised while hooking up, after compilation)
        results["HasTraits.observe"] = "ok" if graphs is not None and D.exc_name(e) == "ValueError" \
            else "err " + D.exc_name(e)
    # ---------------- oracle: "If this is a list, each item must be a string or an
    # ObserverExpression": the list stands for its items taken one by one - rejected iff
    # some item is rejected (ValueError), otherwise the union of the items' denotations
    expected, bad, f17 = [], [], False
    for k, t in items:
        try:
            ps, info = D.denote(t)
            if info["star_in_brackets"]:
                f17 = True
            expected += ps
        except D.NotInLanguage:
            bad.append(t)
    if f17 and not bad:
        tags.add("list:f17-item")
        if graphs is None:
            sig, what = _classify_rejected("", {"star_in_brackets": True, "dup": False})
            hits.append(_hit(sig, what, items=items))
        return out, hits, tags
    if bad:
        tags.add("list:has-invalid-item")
        if graphs is not None:
            hits.append(_hit("list-form-differs:accepted-invalid-item",
                             "a list with an item that is not an expression on its own (%r) is accepted" % bad[0],
                             items=items, observed=out[:200]))
        elif out != "err ValueError":
            hits.append(_hit("rejection-not-valueerror", "list rejected with %s" % out, items=items))
    else:
        tags.add("list:all-valid")
        if any("*" in t for _, t in items):
            tags.add("list:star-item")
        if graphs is None:
            hits.append(_hit("list-form-differs:rejected-valid-list",
                             "a list of valid items is rejected (%s) although every item compiles on its own" % out,
                             items=items))
        elif set(out[3:].split("|") if out[3:] else []) != set(expected):
            hits.append(_hit("list-form-differs:meaning", "the list does not denote the union of its items",
                             items=items, expected=sorted(expected), observed=out[:300]))
        else:
            # the same graphs as the items one by one
            one_by_one = []
            for a in arg:
                one_by_one += P.compile_str(a) if isinstance(a, str) else list(a._as_graphs())
            if list(graphs) != one_by_one:
                hits.append(_hit("list-form-differs:graphs", "graphs differ from the items compiled one by one",
                                 items=items))
    want = "err ValueError" if graphs is None else "ok"
    for api, r in results.items():
        if r != ("ok" if graphs is not None else out):
            hits.append(_hit("list-form-differs:entry-points", "%s gives %s where @observe gives %s" % (api, r, want),
                             items=items))
    # registration / removal by the same list on real objects
    if graphs is not None and not bad and len(expected) <= 64 and all(k == "=" and all(ord(c) < 128 for c in t)
                                                                        for k, t in items) and items:
        hits.extend(_removal_check_list([t for _, t in items], tags))
    return out, hits, tags


def _method(self, event):
    pass


def _removal_check_list(texts, tags):
    names, metas, depth = {"items"}, set(), 1
    for text in texts:
        toks = D.tokenize(text)
        prev = None
        for t in toks:
            if isinstance(t, tuple):
                (metas if prev == "+" else names).add(t[1])
            prev = t
        depth = max(depth, sum(1 for t in toks if t in (".", ":")) + 1)
    if len(names) > 10:
        return []
    cls = _dyn_class(tuple(sorted(names)), tuple(sorted(metas)))
    if cls is None:
        return []
    objs = [cls() for _ in range(depth + 1)]
    for i in range(depth):
        for n in names:
            setattr(objs[i], n, objs[i + 1])
    calls = []
    before = _hooks(objs)
    try:
        objs[0].observe(calls.append, list(texts))
    except Exception as e:      # noqa: BLE001
        tags.add("removal:observe-raised:" + type(e).__name__)
        return []
    tags.add("removal-checked:list")
    try:
        objs[0].observe(calls.append, list(texts), remove=True)
    except Exception as e:      # noqa: BLE001
        return [_hit("removal-by-text-raises:list", "removal by the same list raised %s" % type(e).__name__, items=texts)]
    left = _hooks(objs) - before
    del calls[:]
    for o in objs:
        for n in names:
            setattr(o, n, cls())
    if left or calls:
        return [_hit("removal-by-text-leaves-hooks:list", "%d notifier(s) left, %d call(s) after removal by the same "
                     "list" % (left, len(calls)), items=texts)]
    return []


def _show_lark(x, bad):
    if hasattr(x, "children"):
        return "%s(%s)" % (x.data, ",".join(_show_lark(c, bad) for c in x.children))
    if getattr(x, "type", None) != "NAME":
        bad.append(getattr(x, "type", type(x).__name__))
    return D.esc(str(x.value if hasattr(x, "value") else x))


def _run_t(text):
    """The `Tree` that the real generated parser builds, against the shape the grammar file
    prescribes (rule names incl. the _terminal variants, children, brackets inlined, which
    tokens are kept): this is what `_handle_tree` is fed."""
    from traits.observation import parsing as P
    from traits.observation import _generated_parser as G
    tags, hits, bad = {"tree-shape"}, [], []
    try:
        out = "tree " + _show_lark(P._LARK_PARSER.parse(text), bad)
    except G.LarkError:
        out = "err"
    except RecursionError:
        return "err RecursionError", [], tags | {"outside:recursion-limit"}
    except Exception as e:      # noqa: BLE001
        out = "err " + D.exc_name(e)
    try:
        _, info = D.denote(text)
        expected = "err" if info["star_in_brackets"] else "tree " + D.lark_shape(D.tree_of(text))
    except D.NotInLanguage:
        expected = "err"
    tags.add("tree:" + ("rejected" if out == "err" else "built"))
    if bad:
        hits.append(_hit("lark-tree-shape-differs:token-kept", "tokens other than NAME are kept in the tree: %s" % bad,
                         text=text, observed=out))
    if out != expected:
        hits.append(_hit("lark-tree-shape-differs", "the parser's Tree is not the one the grammar file prescribes",
                         text=text, expected=expected, observed=out))
    return out, hits, tags


def run_impl(case):
    kind, t1, t2, rel = D.parse_case(case)
    if kind == "t":
        return _run_t(t1)
    if kind == "l":
        return _run_l(t1)
    if kind == "c":
        return _run_c(t1)
    if kind == "m":
        return _run_m(t1, t2)
    return _run_eq(t1, t2, rel)


def nontrivial(case, out):
    return out.startswith("ok") or out.startswith("eq") or out.startswith("fired") or out.startswith("tree")


def shrink(case, fails):
    """Delete characters while the same signature persists."""
    kind, t1, t2, rel = D.parse_case(case)
    if kind == "l":
        items = list(t1)
        changed = True
        while changed:
            changed = False
            for i in range(len(items)):
                cands = [items[:i] + items[i + 1:]] if len(items) > 1 else []
                k, t = items[i]
                cands += [items[:i] + [(k, t[:j] + t[j + 1:])] + items[i + 1:] for j in range(len(t) - 1, -1, -1)]
                for cand in cands:
                    if fails(D.case_l(cand)):
                        items, changed = cand, True
                        break
                if changed:
                    break
        return D.case_l(items)
    if kind == "m":
        items = t2.split(",")
        changed = True
        while changed and len(items) > 1:
            changed = False
            for i in range(len(items)):
                cand = items[:i] + items[i + 1:]
                if fails(D.case_m(t1, ",".join(cand))):
                    items, changed = cand, True
                    break
        return D.case_m(t1, ",".join(items))
    if kind != "c":
        return case
    s = t1
    changed = True
    while changed and len(s) > 1:
        changed = False
        for i in range(len(s) - 1, -1, -1):
            cand = s[:i] + s[i + 1:]
            if fails(D.case_c(cand)):
                s = cand
                changed = True
                break
    return D.case_c(s)
