"""Shared pieces of the `adapt` cluster (C17): line protocol, real-class hierarchies,
instrumented factories, brute-force oracle, generators.

Never imports traits at module level (the engine activates the scratch build first).

Case line (kind A), fields separated by '|':
  A | <pyspec> | <P> | <M> | <offers> | <ftab> | <queries>
  pyspec   T=<type>;<type>;...[/R=a<c;a<c...]    type = <kind><nameid>:<bases ,-separated>
           kinds: c plain class, a abc.ABC, h HasTraits, i Interface, b ABCHasTraits, o builtin object, n NoneType;
           awkward VALUES (the search only sees the type; the value matters to everything around it, e.g. the
           error message): T S B D L = builtin tuple / str / bytes / dict / list, t = tuple subclass, k / j =
           namedtuple with 2 / 0 fields, s = str subclass, r / q = class whose __repr__ raises / returns a non-str,
           I = builtin int (0 / 7), z = plain class with __bool__ False, y = HasTraits subclass with __len__ 0
           a source token `3~2` = instance flavour 2 of type 3 (length / content, see Hier.instance)
           a<c  = types[a].register(types[c])   (ABC registration / what @provides does)
  P        issubclass matrix over universe + hidden MRO classes, rows ','-separated bit strings
  M        inspect.getmro(t)[1:] per type as indices, ';'-separated, '-' = empty
  offers   id:from:to:key:kind ; ...  (registration order; the same id twice = the same offer object registered twice)
           kind n register_offer, f register_factory, p identity factory, l lazily named protocols;
           z / e / g = like n but the factory's adapters are alive and FALSY (__bool__ False / __len__ 0 / an empty
           dict subclass): a falsy adapter is a successful adaptation, only None declines
  ftab     oid@prov=n|r ; #k=n|r ; ...   ('-' = empty)
  queries  a s t | d s t | s s t | m t p | t <I|S|A> <mode> <allowNone> s t
"""
import itertools

MODULE = "c17types"


# --------------------------------------------------------------------------
# hierarchies
# --------------------------------------------------------------------------

class Hier:
    """The real classes of one case."""

    def __init__(self, spec):
        import abc
        import types as _types
        from traits.api import ABCHasTraits, HasTraits, Interface
        self.spec = spec
        tpart, _, rpart = spec.partition("/")
        assert tpart.startswith("T=")
        roots = {"c": object, "a": abc.ABC, "h": HasTraits, "i": Interface, "b": ABCHasTraits,
                 "t": tuple, "s": str, "r": object, "q": object, "z": object, "y": HasTraits}
        self.types = []
        self.kinds = []
        self.names = []
        self.notes = set()
        for i, ts in enumerate(tpart[2:].split(";")):
            ts = ts.strip()
            kind = ts[0]
            self.kinds.append(kind)
            if kind == "o":
                self.types.append(object)
                self.names.append("builtins.object")
                continue
            if kind == "n":
                self.types.append(type(None))
                self.names.append("builtins.NoneType")
                continue
            if kind in BUILTIN_KINDS:
                self.types.append(BUILTIN_KINDS[kind])
                self.names.append("builtins." + BUILTIN_KINDS[kind].__name__)
                self.notes.add("awkward-value-type")
                continue
            if kind in "kj":
                import collections
                nm = ts[1:].partition(":")[0]
                cls = collections.namedtuple("T%s" % nm, "x y" if kind == "k" else "")
                cls.__module__ = MODULE
                self.types.append(cls)
                self.names.append("%s.T%s" % (MODULE, nm))
                self.notes.add("awkward-value-type")
                continue
            nm, _, bs = ts[1:].partition(":")
            name = "T%s" % nm
            bases = [self.types[int(b)] for b in bs.split(",") if b.strip()]
            bases = [b for b in bases if b not in (object, type(None)) and b not in BUILTIN_KINDS.values()]
            root = roots[kind]
            if kind in "tsrq":
                self.notes.add("awkward-value-type")
            if kind in "zy":
                self.notes.add("falsy-adaptee-type")
            cls = None
            while cls is None:
                bb = list(bases)
                if root is not object and not any(issubclass(b, root) for b in bb):
                    bb.append(root)
                try:
                    body = {"__module__": MODULE}
                    if kind == "r":
                        body["__repr__"] = _raising_repr
                    elif kind == "q":
                        body["__repr__"] = _nonstr_repr
                    elif kind == "z":
                        body["__bool__"] = _false_bool
                    elif kind == "y":
                        body["__len__"] = _zero_len
                    cls = _types.new_class(name, tuple(bb), {}, lambda ns, body=body: ns.update(body))
                except TypeError:
                    # MRO / metaclass / layout conflict: drop the last base and retry (deterministic)
                    self.notes.add("base-conflict")
                    if not bases:
                        raise
                    bases = bases[:-1]
            if len(bases) > 1:
                self.notes.add("multiple-inheritance")
            self.types.append(cls)
            self.names.append("%s.%s" % (MODULE, name))
        self.regs = []
        if rpart:
            assert rpart.startswith("R=")
            for r in rpart[2:].split(";"):
                if not r.strip():
                    continue
                a, c = r.split("<")
                a, c = int(a), int(c)
                A, C = self.types[a], self.types[c]
                if not hasattr(A, "register") or A in (object, type(None)):
                    continue
                try:
                    # traits' own decorator for Interfaces / ABCHasTraits (= type(A).register(A, C)); plain ABCs register
                    if self.kinds[a] in "ib":
                        from traits.api import provides
                        provides(A)(C)
                    else:
                        A.register(C)
                    self.regs.append((a, c))
                    self.notes.add("abc-register")
                except RuntimeError:
                    self.notes.add("register-cycle-refused")
        # hidden classes: everything in some MRO that is not in the universe
        self.n = len(self.types)
        self.all = list(self.types)
        for t in self.types:
            for s in t.__mro__:
                if not any(s is u for u in self.all):
                    self.all.append(s)
        self.index = {}
        for i, t in enumerate(self.all):
            self.index.setdefault(id(t), i)

    def late_register(self, a, c):
        """types[a].register(types[c]) NOW (after adapt() calls may already have looked at the pair)."""
        A, C = self.types[a], self.types[c]
        if not hasattr(A, "register") or A in (object, type(None)):
            return False
        try:
            if self.kinds[a] in "ib":
                from traits.api import provides
                provides(A)(C)
            else:
                A.register(C)
            return True
        except RuntimeError:
            return False

    def P(self):
        # columns: universe protocols only.  The hidden classes (object, abc.ABC, HasTraits, Interface, ...)
        # occur only as MRO entries, never as a protocol; their columns would moreover depend on
        # classes of earlier cases that are still alive (ABCMeta walks __subclasses__()).
        return ",".join("".join("1" if issubclass(t, p) else "0" for p in self.types) for t in self.all)

    def M(self):
        rows = []
        for t in self.all:
            sup = [str(self.index[id(s)]) for s in t.__mro__[1:]]
            rows.append(",".join(sup) if sup else "-")
        return ";".join(rows)

    def key_of(self, t):
        """Index standing for the string from_protocol_name of type t."""
        return self.names.index(self.names[t])

    def install_module(self):
        """Make `import_symbol('c17types.Tk')` work (lazy offers)."""
        import sys
        import types as _types
        mod = _types.ModuleType(MODULE)
        for t in self.types:
            if t not in (object, type(None)):
                setattr(mod, t.__name__, t)
        sys.modules[MODULE] = mod

    def instance(self, t, flavour=0):
        """An object whose type is types[t]; for the awkward kinds the flavour picks length / content."""
        k = self.kinds[t]
        cls = self.types[t]
        if k == "n":
            return None
        if k in "Tt":
            return cls([(), (1, 2), (1, 2, 3), (1,)][flavour % 4])
        if k == "k":
            return cls(1, 2)
        if k == "j":
            return cls()
        if k in "Ss":
            return cls(["100%", "%s %d", "%(x)s", "plain", ""][flavour % 5])
        if k == "I":
            return [0, 7][flavour % 2]
        if k == "B":
            return [b"%s%%", b"", b"%d"][flavour % 3]
        if k == "D":
            return [{"a": 1}, {}, {"%s": "%d"}][flavour % 3]
        if k == "L":
            return [[1, 2], [], ["%s"]][flavour % 3]
        return cls()


BUILTIN_KINDS = {"T": tuple, "S": str, "B": bytes, "D": dict, "L": list, "I": int}
AWKWARD_KINDS = "TSBDLItkjsrqzy"
FALSY_TYPE_KINDS = "zy"
BAD_REPR_KINDS = "rq"


def _raising_repr(self):
    raise RuntimeError("this object cannot be shown")


def _nonstr_repr(self):
    return 42


def _false_bool(self):
    return False


def _zero_len(self):
    return 0


def parse_src(tok):
    """`3` / `3n` / `3~2` -> (type index, is the object None, flavour)."""
    tok, _, fl = tok.partition("~")
    return int(tok.rstrip("n")), tok.endswith("n"), int(fl or 0)


def value_kind(hier, t, is_none):
    if is_none:
        return "None"
    return {"I": "int", "z": "falsy-object", "y": "falsy-object", "T": "tuple", "t": "tuple-subclass", "k": "namedtuple", "j": "namedtuple", "S": "str", "s": "str-subclass",
            "B": "bytes", "D": "dict", "L": "list", "r": "repr-raises", "q": "repr-not-str"}.get(hier.kinds[t], "plain")


class Ad(object):
    """An adapter built by an instrumented factory; prov = offer ids that built it; root / step =
    (histories) the pool object it was built from and the assignment step that built it."""
    __slots__ = ("prov", "root", "step")

    def __init__(self, prov, root=None, step=None):
        self.prov = prov
        self.root = root
        self.step = step


class FalsyAd(Ad):
    """An adapter that is alive and falsy."""
    __slots__ = ()

    def __bool__(self):
        return False


class EmptyAd(Ad):
    """An adapter with __len__ 0."""
    __slots__ = ()

    def __len__(self):
        return 0


class DictAd(dict):
    """An adapter that is an empty container (dict subclass)."""

    def __init__(self, prov, root=None, step=None):
        dict.__init__(self)
        self.prov = prov
        self.root = root
        self.step = step


ADS = (Ad, DictAd)
AD_CLASS = {"z": FalsyAd, "e": EmptyAd, "g": DictAd}
FALSY_OFFER_KINDS = "zeg"

CUR_STEP = [None]


class Default(object):
    """The default value of a trait / the `default` argument (remembers the history step that made it)."""

    def __init__(self):
        self.step = CUR_STEP[0]

    def __bool__(self):
        # a default (the `default` argument, a trait's default value) is handed back as it is, falsy or not
        return False


class FactoryError(ValueError):
    pass


class Ctx:
    """Factory table + log of one adapt call."""

    def __init__(self, ftab):
        self.bykey = {}
        self.byord = {}
        if ftab.strip() not in ("", "-"):
            for e in ftab.split(";"):
                e = e.strip()
                if not e:
                    continue
                k, v = e.split("=")
                if k.startswith("#"):
                    self.byord[int(k[1:])] = v
                else:
                    o, prov = k.split("@")
                    prov = tuple(int(x) for x in prov.split(".")) if prov != "-" else ()
                    self.bykey[(int(o), prov)] = v
        self.reset(None)

    def reset(self, src, root=None, step=None):
        self.src = src
        self.log = []
        self.root = root
        self.step = step

    def prov_of(self, obj):
        if obj is self.src:
            return ()
        return obj.prov

    def make_factory(self, oid, ident, kind="n"):
        ctx = self
        adcls = AD_CLASS.get(kind, Ad)

        def factory(adaptee):
            prov = ctx.prov_of(adaptee)
            k = len(ctx.log)
            r = ctx.byord.get(k)
            if r is None:
                r = ctx.bykey.get((oid, prov))
            if r == "n" or (r is None and ident and adaptee is None):
                # (an identity factory handed the object None returns None: that is a refusal)
                ctx.log.append((oid, "-", prov))
                return None
            if r == "r":
                ctx.log.append((oid, "!", prov))
                raise FactoryError("factory raises")
            ctx.log.append((oid, "+", prov))
            return adaptee if ident else adcls(prov + (oid,), ctx.root, ctx.step)
        return factory

    def show_log(self):
        if not self.log:
            return "log=-"
        return "log=" + ",".join("%d%s" % (o, r) for o, r, _ in self.log)

    def last_walk(self):
        """Offer ids of the final walk (everything after the last failing call)."""
        ids = []
        for o, r, _ in self.log:
            if r == "+":
                ids.append(o)
            else:
                ids = []
        return tuple(ids)


def parse_offers(s):
    out = []
    if s.strip() in ("", "-"):
        return out
    for o in s.split(";"):
        i, f, t, k, kind = o.strip().split(":")
        out.append((int(i), int(f), int(t), int(k), kind))
    return out


def show_offers(offers):
    return ";".join("%d:%d:%d:%d:%s" % o for o in offers) if offers else "-"


def register_one(m, hier, offer, ctx, objs, info):
    """Register one offer tuple on manager m (objs: id -> offer object or True, info: id -> classes)."""
    from traits.adaptation.api import AdaptationOffer
    (i, f, t, k, kind) = offer
    F, T = hier.types[f], hier.types[t]
    ident = kind == "p"
    info.setdefault(i, (F, T, ident))
    if kind in ("f", "p") and i not in objs:
        m.register_factory(ctx.make_factory(i, ident, kind), F, T)
        objs[i] = True
        return
    if i not in objs or objs[i] is True:
        if kind == "l":
            objs[i] = AdaptationOffer(factory=ctx.make_factory(i, ident, kind),
                                      from_protocol=hier.names[f], to_protocol=hier.names[t])
        else:
            objs[i] = AdaptationOffer(factory=ctx.make_factory(i, ident, kind), from_protocol=F, to_protocol=T)
    m.register_offer(objs[i])


def build_manager(hier, offers, ctx, want_objs=False):
    """A fresh AdaptationManager with the offers registered in order.
    Returns (manager, {id: (from_cls, to_cls, ident)})."""
    from traits.adaptation.api import AdaptationManager
    m = AdaptationManager()
    objs = {}
    info = {}
    for offer in offers:
        register_one(m, hier, offer, ctx, objs, info)
    if want_objs:
        return m, info, objs
    return m, info


# --------------------------------------------------------------------------
# brute-force oracle: every offer-simple applicable chain, straight from the statement
# --------------------------------------------------------------------------

class TooBig(Exception):
    pass


def enum_chains(src_type, target, info, limit=4000):
    """All sequences of distinct registered offers, applicable step by step
    (issubclass(current, offer.from)), whose last to_protocol provides target.
    info: {id: (from_cls, to_cls, ident)}.  Returns list of tuples of ids."""
    out = []
    ids = sorted(info)
    count = [0]

    def rec(cur, chain):
        for i in ids:
            if i in chain:
                continue
            F, T, _ = info[i]
            if not issubclass(cur, F):
                continue
            count[0] += 1
            if count[0] > limit:
                raise TooBig()
            c2 = chain + (i,)
            if issubclass(T, target):
                out.append(c2)
            rec(T, c2)
    rec(src_type, ())
    return out


def chain_succeeds(chain, info, bykey, src_is_none=False):
    prov = ()
    for i in chain:
        if bykey.get((i, prov)):
            return False
        if not info[i][2]:
            prov = prov + (i,)
        elif src_is_none and prov == ():
            return False    # an identity factory handed None returns None
    return True


def chain_valid(chain, src_type, target, info):
    """Statement-level validity of one chain; returns None or a reason."""
    if len(set(chain)) != len(chain):
        return "offer-reused"
    cur = src_type
    for i in chain:
        if i not in info:
            return "unregistered"
        F, T, _ = info[i]
        if not issubclass(cur, F):
            return "step-not-applicable"
        cur = T
    if not chain:
        return "empty"
    if not issubclass(cur, target):
        return "target-not-provided"
    return None


# --------------------------------------------------------------------------
# generators
# --------------------------------------------------------------------------

def falsify(rng, offers, share=0.3):
    """Replay-stable switch: a share of the ordinary offers (kind n, on the line as z / e / g) build adapters that
    are alive but falsy."""
    out = []
    seen = {}
    for o in offers:
        if o[0] in seen:
            out.append(seen[o[0]])
            continue
        o2 = o
        if o[4] == "n" and rng.random() < share:
            o2 = o[:4] + (rng.choice(FALSY_OFFER_KINDS),)
        seen[o[0]] = o2
        out.append(o2)
    return out


def random_spec(rng, nmax=6, family=None):
    n = rng.randint(1, nmax)
    family = family or rng.choice(["plain", "plain", "abc", "abc", "traits", "mixed"])
    kinds_by_family = {"plain": "c", "abc": "cca", "traits": "hiib", "mixed": "cahib"}
    ts = []
    for i in range(n):
        r = rng.random()
        if r < 0.04 and "o" not in ts:
            ts.append("o")
            continue
        if 0.04 <= r < 0.09 and "n" not in ts:
            ts.append("n")
            continue
        kind = rng.choice(kinds_by_family[family])
        if rng.random() < 0.12:
            # instances alive but falsy (__bool__ False / HasTraits with __len__ 0)
            kind = {"c": "z", "h": "y"}.get(kind, kind)
        nb = rng.choice([0, 0, 1, 1, 1, 2, 2, 3]) if i else 0
        cand = [j for j in range(i) if ts[j][0] not in "on"]
        bases = rng.sample(cand, min(nb, len(cand)))
        if rng.random() < 0.5:
            bases.sort(reverse=True)
        ts.append("%s%d:%s" % (kind, i, ",".join(map(str, bases))))
    spec = "T=" + ";".join(ts)
    regs = []
    if family != "plain":
        for _ in range(rng.choice([0, 0, 1, 1, 2, 3])):
            a, c = rng.randrange(n), rng.randrange(n)
            if a != c and ts[a][0] in "aib":
                regs.append("%d<%d" % (a, c))
    if regs:
        spec += "/R=" + ";".join(regs)
    return spec


def random_offers(rng, hier, kmax=8, lazy_ok=True):
    n = hier.n
    k = rng.choice([0, 1, 1, 2, 2, 3, 3, 4, 4, 5, 6, 7, 8])
    k = min(k, kmax)
    offers = []
    next_id = 0
    for _ in range(k):
        r = rng.random()
        if offers and r < 0.10:
            # the same offer object registered again
            o = rng.choice(offers)
            if o[4] in ("n", "l"):
                offers.append(o)
                continue
        if offers and r < 0.25:
            # a distinct offer with the same endpoints
            o = rng.choice(offers)
            offers.append((next_id, o[1], o[2], o[3], "n"))
            next_id += 1
            continue
        f, t = rng.randrange(n), rng.randrange(n)
        kind = rng.choice("nnnnnffp" + ("l" if lazy_ok else ""))
        if kind == "l" and (hier.kinds[f] in "on" or hier.kinds[t] in "on"):
            kind = "n"
        offers.append((next_id, f, t, hier.key_of(f), kind))
        next_id += 1
    return offers


def random_ftab(rng, hier, offers, info, queries):
    """Mostly entries that some real chain will hit."""
    entries = {}
    chains = []
    for q in queries:
        w = q.split()
        if w[0] in ("a", "d", "s", "t", "ga", "gd", "gs"):
            s, t = w[-2], w[-1]
            if "n" in s and w[0] == "t":
                continue
            try:
                chains += enum_chains(hier.types[parse_src(s)[0]], hier.types[int(t)], info, limit=300)
            except TooBig:
                pass
    m = rng.choice([0, 0, 1, 1, 2, 3, 4])
    for _ in range(m):
        if chains and rng.random() < 0.85:
            c = rng.choice(chains)
            j = rng.randrange(len(c))
            prov = tuple(i for i in c[:j] if not info[i][2])
            key = "%d@%s" % (c[j], ".".join(map(str, prov)) if prov else "-")
        elif offers:
            o = rng.choice(offers)[0]
            prov = tuple(rng.sample(sorted(info), min(len(info), rng.choice([0, 0, 1, 2]))))
            key = "%d@%s" % (o, ".".join(map(str, prov)) if prov else "-")
        else:
            continue
        entries[key] = "r" if rng.random() < 0.06 else "n"
    return entries


def show_ftab(entries):
    return ";".join("%s=%s" % kv for kv in entries.items()) if entries else "-"


def too_big(hier, offers, queries, limit=1500):
    """Bound on the number of paths the real search may push (it never extends an arrived path, so
    this over-estimates): registry entries counted with multiplicity, applicability decided the way
    the code decides it (bucket head's from_protocol), so that duplicates and name collisions are
    accounted for."""
    heads = {}
    for (i, f, t, k, kind) in offers:
        heads.setdefault(k, hier.types[f])
    for q in queries:
        w = q.split()
        if w[0] in ("a", "d", "s", "t", "ga", "gd", "gs"):
            s = w[-2]
            if "n" in s and w[0] == "t":
                continue
            count = [0]

            def rec(cur, used):
                for (i, f, t, k, kind) in offers:
                    if i in used:
                        continue
                    if not issubclass(cur, heads[k]):
                        continue
                    count[0] += 1
                    if count[0] > limit:
                        raise TooBig()
                    rec(hier.types[t], used | {i})
            try:
                rec(type(None) if "n" in s else hier.types[parse_src(s)[0]], frozenset())
            except TooBig:
                return True
    return False


def info_of(hier, offers):
    info = {}
    for (i, f, t, k, kind) in offers:
        info.setdefault(i, (hier.types[f], hier.types[t], kind == "p"))
    return info


def make_line(hier, offers, ftab, queries):
    return "A|%s|%s|%s|%s|%s|%s" % (hier.spec, hier.P(), hier.M(), show_offers(offers),
                                     ftab if isinstance(ftab, str) else show_ftab(ftab), ";".join(queries))


def random_queries(rng, hier, nq=None):
    n = hier.n
    nq = nq or rng.choice([3, 4, 6, 8])
    qs = []
    none_idx = [i for i in range(n) if hier.kinds[i] == "n"]
    for _ in range(nq):
        s, t = rng.randrange(n), rng.randrange(n)
        sn = "%dn" % s if hier.kinds[s] == "n" else str(s)
        r = rng.random()
        if r < 0.40:
            qs.append("a %s %d" % (sn, t))
        elif r < 0.55:
            qs.append("d %s %d" % (sn, t))
        elif r < 0.65:
            qs.append("s %s %d" % (sn, t))
        elif r < 0.70:
            qs.append("m %d %d" % (s, t))
        else:
            cls = rng.choice(["I", "S", "S", "A", "A", "FS", "FA", "FI", "BI"])
            mode = rng.choice([0, 1, 1, 1, 2, 2])
            an = rng.choice([0, 1])
            if hier.kinds[s] == "n" or (none_idx and rng.random() < 0.3):
                # the value None (only when NoneType is in the universe, so that isinstance(None, klass) is in P)
                sn = "%dn" % (s if hier.kinds[s] == "n" else none_idx[0])
            qs.append("t %s %d %d %s %d" % (cls, mode, an, sn, t))
    return list(dict.fromkeys(qs))


def random_case(rng, nmax=6, kmax=8, ordinal=False, collide=False):
    for _ in range(50):
        spec = random_spec(rng, nmax)
        if collide:
            # give two distinct plain types the same name
            parts = spec.split("/")[0][2:].split(";")
            named = [i for i, p in enumerate(parts) if p[0] not in "on"]
            if len(named) < 2:
                continue
            a, b = rng.sample(named, 2)
            pa = parts[a]
            nm = pa[1:].partition(":")[0]
            pb = parts[b]
            parts[b] = pb[0] + nm + ":" + pb[1:].partition(":")[2]
            spec = "T=" + ";".join(parts) + ("/" + spec.split("/")[1] if "/" in spec else "")
        try:
            hier = Hier(spec)
        except TypeError:
            continue
        offers = falsify(rng, random_offers(rng, hier, kmax, lazy_ok=not collide))
        info = info_of(hier, offers)
        queries = random_queries(rng, hier)
        if too_big(hier, offers, queries):
            continue
        ft = random_ftab(rng, hier, offers, info, queries)
        if ordinal:
            for _ in range(rng.choice([1, 1, 2])):
                ft["#%d" % rng.randrange(0, 5)] = rng.choice("nnr")
        return make_line(hier, offers, ft, queries)
    raise RuntimeError("could not generate a case")


def random_chain_case(rng):
    """Long chains: a backbone 0 -> 1 -> ... -> k with shortcuts, detours, back edges, parallel offers and
    conditional refusals, so that longer alternatives, failed walks and cycles are the norm."""
    for _ in range(50):
        n = rng.randint(3, 6)
        ts = []
        for i in range(n):
            kind = rng.choice("ccca")
            bases = []
            if i and rng.random() < 0.25:
                bases = [rng.randrange(i)]
            ts.append("%s%d:%s" % (kind, i, ",".join(map(str, bases))))
        spec = "T=" + ";".join(ts)
        try:
            hier = Hier(spec)
        except TypeError:
            continue
        order = list(range(n))
        rng.shuffle(order)
        offers = []
        nid = 0
        for a, b in zip(order, order[1:]):
            if rng.random() < 0.9:
                offers.append((nid, a, b, hier.key_of(a), rng.choice("nnnfp")))
                nid += 1
        extra = rng.randint(0, max(0, 8 - len(offers)))
        for _ in range(extra):
            a, b = rng.randrange(n), rng.randrange(n)
            if offers and rng.random() < 0.15:
                o = rng.choice(offers)
                if o[4] == "n":
                    offers.append(o)
                    continue
            offers.append((nid, a, b, hier.key_of(a), "n"))
            nid += 1
        rng.shuffle(offers)
        offers = falsify(rng, offers[:8])
        info = info_of(hier, offers)
        queries = []
        for _ in range(rng.choice([2, 3, 4])):
            s, t = order[rng.randrange(0, max(1, n // 2))], order[rng.randrange(n // 2, n)]
            queries.append("%s %d %d" % (rng.choice("aaads"), s, t))
        queries.append("t %s %d %d %d %d" % (rng.choice(["S", "A", "FS", "FA", "BI"]), rng.choice([1, 2]),
                                              rng.choice([0, 1]), order[0], order[-1]))
        queries = list(dict.fromkeys(queries))
        if too_big(hier, offers, queries):
            continue
        ft = random_ftab(rng, hier, offers, info, queries)
        for _ in range(rng.choice([0, 1, 2])):
            more = random_ftab(rng, hier, offers, info, queries)
            ft.update(more)
        return make_line(hier, offers, ft, queries)
    raise RuntimeError("could not generate a chain case")


def random_forward_case(rng):
    """Trait-level stream for the PYTHON validator (BaseInstance.validate): Supports / AdaptsTo / Instance declared
    with a forward-reference string (first assignment; the engine repeats it on a fresh holder = C validator) and
    BaseInstance(adapt=...), over short chains most of whose adapters are alive but FALSY (__bool__ False,
    __len__ 0, empty dict subclass), with a few conditional refusals; next to each the same query on a trait
    declared with the class, and adapt() itself."""
    for _ in range(50):
        n = rng.randint(2, 5)
        ts = []
        for i in range(n):
            kind = rng.choice("cccai")
            bases = []
            if i and rng.random() < 0.25:
                bases = [rng.randrange(i)]
            ts.append("%s%d:%s" % (kind, i, ",".join(map(str, bases))))
        try:
            hier = Hier("T=" + ";".join(ts))
        except TypeError:
            continue
        order = list(range(n))
        rng.shuffle(order)
        offers = []
        nid = 0
        for a, b in zip(order, order[1:]):
            offers.append((nid, a, b, hier.key_of(a), rng.choice("nnnnp")))
            nid += 1
        for _ in range(rng.randint(0, 3)):
            a, b = rng.randrange(n), rng.randrange(n)
            offers.append((nid, a, b, hier.key_of(a), "n"))
            nid += 1
        rng.shuffle(offers)
        offers = falsify(rng, offers, share=rng.choice([0.5, 0.8, 1.0]))
        info = info_of(hier, offers)
        queries = []
        for _ in range(rng.choice([2, 3, 4])):
            lo = rng.randrange(0, n - 1)
            s_, t_ = order[lo], order[rng.randrange(lo + 1, n)]
            if rng.random() < 0.15:
                s_, t_ = t_, s_
            if hier.kinds[s_] == "i":
                continue                                   # an Interface has no instances
            base = rng.choice("SAI")
            mode = rng.choice([1, 1, 2])
            an = rng.choice([0, 1])
            queries.append("t %s %d %d %d %d" % (rng.choice(["F" + base, "F" + base, "BI"]), mode, an, s_, t_))
            if rng.random() < 0.5:
                queries.append("t %s %d %d %d %d" % (base, mode, an, s_, t_))
            if rng.random() < 0.3:
                queries.append("d %d %d" % (s_, t_))
        queries = list(dict.fromkeys(queries))
        if not queries or too_big(hier, offers, queries):
            continue
        ft = random_ftab(rng, hier, offers, info, queries) if rng.random() < 0.4 else {}
        return make_line(hier, offers, ft, queries)
    raise RuntimeError("could not generate a forward-reference case")


def random_specific_case(rng):
    """One-step specificity: a source type providing several protocols (by inheritance and by ABC
    registration, so that MRO distances tie), protocols related by subclassing, one offer per protocol
    (some several) straight to the target, registered in random order, some refusing."""
    for _ in range(50):
        k = rng.randint(2, 4)
        fam = rng.choice(["i", "a", "mixed"])
        ts = []
        for i in range(k):
            kind = {"i": "i", "a": "a", "mixed": rng.choice("aac")}[fam]
            bases = []
            if i and rng.random() < 0.6:
                bases = rng.sample(range(i), rng.choice([1, 1, 2]) if i > 1 else 1)
            ts.append("%s%d:%s" % (kind, i, ",".join(map(str, bases))))
        src = k
        sb = rng.sample(range(k), rng.choice([0, 0, 1, 2])) if fam != "i" else []
        ts.append("%s%d:%s" % ("h" if fam == "i" else "c", src, ",".join(map(str, sb))))
        tgt = k + 1
        ts.append("c%d:" % tgt)
        regs = []
        for i in range(k):
            if i not in sb and ts[i][0] in "ai" and rng.random() < 0.75:
                regs.append("%d<%d" % (i, src))
        spec = "T=" + ";".join(ts) + ("/R=" + ";".join(regs) if regs else "")
        try:
            hier = Hier(spec)
        except TypeError:
            continue
        offers = []
        nid = 0
        for i in range(k):
            for _ in range(rng.choice([1, 1, 1, 2])):
                offers.append((nid, i, tgt, hier.key_of(i), "n"))
                nid += 1
        rng.shuffle(offers)
        offers = falsify(rng, offers[:8])
        ft = {}
        for o in offers:
            if rng.random() < 0.2:
                ft["%d@-" % o[0]] = "n"
        queries = ["a %d %d" % (src, tgt), "t S 1 1 %d %d" % (src, tgt)] + ["m %d %d" % (src, i) for i in range(k)]
        return make_line(hier, offers, ft, queries)
    raise RuntimeError("could not generate a specificity case")


def random_awkward_case(rng):
    """Adaptee VALUES of awkward kinds — tuples of length 0/2/3/1, namedtuples, tuple and str subclasses, str /
    bytes containing '%', dicts, lists, objects whose __repr__ raises or is not a str — mostly in queries that
    FAIL without a default (the path that builds the error message), through the manager and through the
    module-level functions; the search itself only sees their types."""
    for _ in range(50):
        kinds = rng.sample(list("TSBDLItkjsrqzy"), rng.randint(1, 4))
        ts = []
        for kd in kinds:
            i = len(ts)
            ts.append(kd if kd in BUILTIN_KINDS else "%s%d:" % (kd, i))
        for _ in range(rng.randint(1, 3)):
            i = len(ts)
            ts.append("%s%d:" % (rng.choice("cca"), i))
        n = len(ts)
        regs = []
        for a in range(n):
            if ts[a][0] == "a" and rng.random() < 0.4:
                regs.append("%d<%d" % (a, rng.randrange(len(kinds))))
        spec = "T=" + ";".join(ts) + ("/R=" + ";".join(regs) if regs else "")
        try:
            hier = Hier(spec)
        except TypeError:
            continue
        offers = []
        for nid in range(rng.choice([0, 0, 1, 2, 3])):
            f, t = rng.randrange(n), rng.randrange(n)
            offers.append((nid, f, t, hier.key_of(f), rng.choice("nnfzeg")))
        ft = {}
        for o in offers:
            if rng.random() < 0.3:
                ft["%d@-" % o[0]] = "n"
        qs = []
        for _ in range(rng.randint(3, 7)):
            s_ = rng.randrange(len(kinds)) if rng.random() < 0.85 else rng.randrange(n)
            t_ = rng.randrange(n)
            tok = "%d~%d" % (s_, rng.randrange(5))
            bad = hier.kinds[s_] in BAD_REPR_KINDS
            r = rng.random()
            if bad:
                # their repr cannot be built: only the calls that never build a message (see the report)
                qs.append("%s %s %d" % (rng.choice(["d", "gd", "s", "gs"]), tok, t_))
            elif r < 0.45:
                qs.append("a %s %d" % (tok, t_))
            elif r < 0.7:
                qs.append("ga %s %d" % (tok, t_))
            elif r < 0.85:
                qs.append("%s %s %d" % (rng.choice(["d", "gd", "s", "gs"]), tok, t_))
            else:
                qs.append("t %s %d %d %s %d" % (rng.choice("SAI"), rng.choice([1, 1, 2]), rng.choice([0, 1]), tok, t_))
        qs = list(dict.fromkeys(qs))
        if too_big(hier, offers, qs):
            continue
        return make_line(hier, offers, ft, qs)
    raise RuntimeError("could not generate an awkward-value case")


def awkward_sweep():
    """Every awkward kind x every flavour x every call style, no offers (so every adaptation of a
    non-provided protocol fails), plus one offer that makes it succeed."""
    for kd in "TSBDLItkjszy":
        spec = "T=%s;c1:" % (kd if kd in BUILTIN_KINDS else kd + "0:")
        hier = Hier(spec)
        for offers in ([], [(0, 0, 1, 0, "n")], [(0, 0, 1, 0, "z")], [(0, 0, 1, 0, "e"), (1, 0, 1, 0, "p")],
                       [(0, 0, 1, 0, "p")], [(0, 0, 0, 0, "g"), (1, 0, 1, 0, "g")]):
            qs = []
            for fl in range(5):
                for call in ("a", "ga", "d", "gd", "s", "gs"):
                    qs.append("%s 0~%d 1" % (call, fl))
                qs.append("t S 1 1 0~%d 1" % fl)
                qs.append("t A 1 0 0~%d 1" % fl)
                qs.append("t I 2 1 0~%d 1" % fl)
                qs.append("a 0~%d 0" % fl)
            yield make_line(hier, offers, {}, qs)
    for kd in "rq":
        hier = Hier("T=%s0:;c1:" % kd)
        yield make_line(hier, [], {}, ["d 0 1", "gd 0 1", "s 0 1", "gs 0 1", "a 0 0", "ga 0 0"])


def random_late_case(rng):
    """Late ABC registration: the same adapt / supports_protocol / trait queries before and after a class
    (the source type, one of its bases, or an intermediate to_protocol) is registered with a protocol
    (`P.register(T)`, `@provides` after the fact).  Every answer must follow the subclass relation
    current at the call; the line carries the new issubclass table after each registration."""
    for _ in range(80):
        n = rng.randint(3, 6)
        fam = rng.choice(["abc", "abc", "traits", "mixed"])
        ts = []
        for i in range(n):
            if i < 2 or rng.random() < 0.4:
                kind = {"abc": "a", "traits": "i", "mixed": rng.choice("ai")}[fam]
            else:
                kind = {"abc": "c", "traits": "h", "mixed": rng.choice("ch")}[fam]
            bases = []
            if i and rng.random() < 0.35:
                bases = [rng.randrange(i)]
            ts.append("%s%d:%s" % (kind, i, ",".join(map(str, bases))))
        spec = "T=" + ";".join(ts)
        protos = [i for i in range(n) if ts[i][0] in "ai"]
        try:
            hier = Hier(spec)
        except TypeError:
            continue
        offers = []
        nid = 0
        for _ in range(rng.randint(1, 6)):
            f = rng.choice(protos) if rng.random() < 0.75 else rng.randrange(n)
            t = rng.randrange(n)
            offers.append((nid, f, t, hier.key_of(f), rng.choice("nnnnfp")))
            nid += 1
        offers = falsify(rng, offers)
        info = info_of(hier, offers)
        base = []
        for _ in range(rng.choice([2, 3, 4])):
            s_, t_ = rng.randrange(n), rng.randrange(n)
            r = rng.random()
            if r < 0.55:
                base.append("a %d %d" % (s_, t_))
            elif r < 0.7:
                base.append("d %d %d" % (s_, t_))
            elif r < 0.8:
                base.append("s %d %d" % (s_, t_))
            else:
                base.append("t %s %d %d %d %d" % (rng.choice("SAI"), rng.choice([1, 1, 2]), rng.choice([0, 1]), s_, t_))
        base = list(dict.fromkeys(base))
        if too_big(hier, offers, base):
            continue
        P0, M0 = hier.P(), hier.M()
        queries = list(base)
        ok = True
        nreg = 0
        for _ in range(rng.choice([1, 1, 2, 3])):
            a, c = rng.choice(protos), rng.randrange(n)
            if a == c:
                continue
            if hier.late_register(a, c):
                nreg += 1
            if too_big(hier, offers, base):
                ok = False
                break
            queries.append("R %d %d %s" % (a, c, hier.P()))
            queries += base
        if not ok or not nreg:
            continue
        ft = {}
        for o in offers:
            if rng.random() < 0.12:
                ft["%d@-" % o[0]] = "n"
        return "A|%s|%s|%s|%s|%s|%s" % (spec, P0, M0, show_offers(offers), show_ftab(ft), ";".join(queries))
    raise RuntimeError("could not generate a late-registration case")


def random_history_case(rng):
    """Histories on ONE trait of ONE object: the same pool object assigned several times to an AdaptsTo /
    Supports / Instance(adapt=...) trait, with the answer of adapt() changing in between — a factory-table
    entry flipped (the state of the value changes a conditional factory's mind) or an offer registered
    (a more specific one, an identity one, a detour).  Protocols 0..k-1, source type k, target k+1,
    intermediate type k+2."""
    for _ in range(50):
        k = rng.randint(1, 3)
        fam = rng.choice(["i", "a", "mixed"])
        ts = []
        for i in range(k):
            kind = {"i": "i", "a": "a", "mixed": rng.choice("aac")}[fam]
            bases = []
            if i and rng.random() < 0.5:
                bases = [rng.randrange(i)]
            ts.append("%s%d:%s" % (kind, i, ",".join(map(str, bases))))
        src, tgt, mid = k, k + 1, k + 2
        sb = rng.sample(range(k), min(k, rng.choice([0, 1, 1, 2]))) if fam != "i" else []
        skind = "h" if fam == "i" else "c"
        if rng.random() < 0.25:
            skind = {"h": "y", "c": "z"}[skind]       # the assigned object is alive but falsy
        ts.append("%s%d:%s" % (skind, src, ",".join(map(str, sb))))
        ts.append("c%d:" % tgt)
        ts.append("c%d:" % mid)
        regs = ["%d<%d" % (i, src) for i in range(k) if i not in sb and ts[i][0] in "ai" and rng.random() < 0.8]
        spec = "T=" + ";".join(ts) + ("/R=" + ";".join(regs) if regs else "")
        try:
            hier = Hier(spec)
        except TypeError:
            continue
        cand = []
        nid = 0
        for f in list(range(k)) + [src, src]:
            cand.append((nid, f, tgt, hier.key_of(f), rng.choice("nnnp")))
            nid += 1
        cand.append((nid, rng.choice(list(range(k)) + [src]), mid, hier.key_of(src), "n"))
        cand[-1] = cand[-1][:3] + (hier.key_of(cand[-1][1]), "n")
        nid += 1
        cand.append((nid, mid, tgt, hier.key_of(mid), "n"))
        nid += 1
        rng.shuffle(cand)
        cand = falsify(rng, cand)
        n0 = rng.randint(1, max(1, len(cand) - 1))
        offers, later = cand[:n0], cand[n0:]
        ft = {}
        for o in offers:
            if rng.random() < 0.2:
                ft["%d@-" % o[0]] = "n"
        cls = rng.choice("AAAAASI")
        mode = rng.choice([1, 1, 1, 2, 0])
        an = rng.choice([0, 1])
        pool = [str(src)] + [str(rng.choice([src, src, mid] + list(range(k)))) for _ in range(rng.choice([0, 1, 2]))]
        steps = ["a0"]
        refused = set(key for key in ft)
        known = list(offers)
        for _ in range(rng.randint(2, 7)):
            r = rng.random()
            if r < 0.5:
                steps.append("a%d" % (0 if rng.random() < 0.7 else rng.randrange(len(pool))))
            elif r < 0.8 or not later:
                o = rng.choice(known)
                prov = "-" if rng.random() < 0.8 else str(rng.choice(known)[0])
                key = "%d@%s" % (o[0], prov)
                if key in refused:
                    refused.discard(key)
                    steps.append("f%s=+" % key)
                else:
                    refused.add(key)
                    steps.append("f%s=%s" % (key, "r" if rng.random() < 0.05 else "n"))
            else:
                o = later.pop()
                known.append(o)
                steps.append("r%d:%d:%d:%d:%s" % o)
        if steps[-1][0] != "a":
            steps.append("a0")
        q = "h %s %d %d %d %s %s" % (cls, mode, an, tgt, ",".join(pool), " ".join(steps))
        queries = [q, "a %d %d" % (src, tgt)]
        return make_line(hier, offers, ft, queries)
    raise RuntimeError("could not generate a history case")


# ---- exhaustive small scope ------------------------------------------------

HIER3 = [
    "T=c0:;c1:;c2:",
    "T=c0:;c1:0;c2:",
    "T=c0:;c1:0;c2:1",
    "T=c0:;c1:0;c2:0",
    "T=c0:;c1:;c2:0,1",
    "T=c0:;c1:;c2:1,0",
    "T=a0:;c1:;c2:/R=0<1",
    "T=a0:;c1:;c2:1/R=0<1",
    "T=a0:;a1:0;c2:/R=1<2",
    "T=i0:;i1:0;h2:/R=1<2",
    "T=i0:;i1:;h2:/R=0<2;1<2",
    "T=a0:;a1:;c2:/R=0<2;1<2",
]

HIER4 = [
    "T=c0:;c1:;c2:;c3:",
    "T=c0:;c1:0;c2:1;c3:2",
    "T=c0:;c1:0;c2:0;c3:1,2",
    "T=c0:;c1:0;c2:0;c3:2,1",
    "T=c0:;c1:;c2:0,1;c3:2",
    "T=a0:;a1:0;c2:;c3:2/R=1<2",
    "T=i0:;i1:0;i2:;h3:/R=1<3;2<3",
    "T=i0:;i1:0;i2:;h3:/R=0<3;2<3",
    "T=a0:;a1:;a2:0,1;c3:/R=2<3",
    "T=a0:;c1:;c2:1;c3:1/R=0<1",
    "T=o;c1:;a2:;n/R=2<3",
    "T=i0:;i1:0;i2:1;h3:/R=2<3",
]


def exhaustive(hspecs, max_offers, fail_sets=True, min_offers=0):
    """Every ordered sequence of min_offers..max_offers offers over all (from, to) pairs with from != to,
    every factory table of `_tables`, every (source, target) pair."""
    for spec in hspecs:
        hier = Hier(spec)
        n = hier.n
        pairs = [(f, t) for f in range(n) for t in range(n) if f != t]
        P, M = hier.P(), hier.M()
        queries = []
        for s in range(n):
            for t in range(n):
                sn = "%dn" % s if hier.kinds[s] == "n" else str(s)
                queries.append("a %s %d" % (sn, t))
        qs = ";".join(queries)
        for k in range(min_offers, max_offers + 1):
            for combo in itertools.product(pairs, repeat=k):
                offers = [(i, f, t, hier.key_of(f), "n") for i, (f, t) in enumerate(combo)]
                ostr = show_offers(offers)
                for ents in _tables(k, fail_sets):
                    yield "A|%s|%s|%s|%s|%s|%s" % (spec, P, M, ostr, ";".join(ents) if ents else "-", qs)


def _tables(k, fail_sets):
    """Factory tables of the exhaustive scope: for k <= 2 offers every subset of the keys
    (offer, provenance) that can occur; for k >= 3 every set of offers failing unconditionally."""
    if not fail_sets or k == 0:
        yield []
        return
    keys = {}
    for i in range(k):
        keys[i] = []
        for r in range(0, k):
            for prov in itertools.permutations([j for j in range(k) if j != i], r):
                keys[i].append("%d@%s=n" % (i, ".".join(map(str, prov)) if prov else "-"))
    if k <= 2:
        allk = [e for i in range(k) for e in keys[i]]
        for r in range(len(allk) + 1):
            for sub in itertools.combinations(allk, r):
                yield list(sub)
    else:
        for r in range(k + 1):
            for fs in itertools.combinations(range(k), r):
                yield [e for i in fs for e in keys[i]]


# ---- CPython pieces --------------------------------------------------------

def random_sort_case(rng):
    n = rng.randint(0, 9)
    style = rng.random()
    if style < 0.5:
        lt = [[rng.random() < 0.4 and i != j for j in range(n)] for i in range(n)]
    else:
        # (distance, unrelated/sub) shaped like the real comparator
        d = [rng.randrange(3) for _ in range(n)]
        sub = [[rng.random() < 0.3 for _ in range(n)] for _ in range(n)]
        lt = [[d[i] < d[j] or (d[i] == d[j] and i != j and sub[i][j]) for j in range(n)] for i in range(n)]
    perm = list(range(n))
    rng.shuffle(perm)
    rows = ",".join("".join("1" if x else "0" for x in r) for r in lt) if n else ""
    return "so|%d|%s|%s" % (n, rows, ",".join(map(str, perm)) if perm else "-")


def run_sort_case(case):
    import functools
    _, n, rows, perm = case.split("|")
    n = int(n)
    lt = [[c == "1" for c in r] for r in rows.split(",")] if rows else []
    perm = [int(x) for x in perm.split(",")] if perm.strip() not in ("", "-") else []

    def cmp(i, j):
        if lt[i][j]:
            return -1
        return 1 if lt[j][i] else 0
    out = sorted(perm, key=functools.cmp_to_key(cmp))
    return ",".join(map(str, out))


def random_heap_case(rng):
    ops = []
    size = 0
    for _ in range(rng.randint(1, 25)):
        if size and rng.random() < 0.45:
            ops.append("o")
            size -= 1
        else:
            ops.append("p %d %d" % (rng.randrange(3), rng.randrange(4)))
            size += 1
    return "hq|" + ";".join(ops)


def run_heap_case(case):
    import heapq
    ops = case.split("|")[1].split(";")
    h, c, out = [], 0, []
    for op in ops:
        w = op.split()
        if w[0] == "p":
            heapq.heappush(h, (int(w[1]), int(w[2]), c))
            c += 1
        elif h:
            out.append(str(heapq.heappop(h)[2]))
        else:
            out.append("empty")
    return " ".join(out)
