"""C20 — synchronised traits converge and stop when unsynchronised (cluster `sync`)."""
import gc
import re
import sys
import weakref

from . import seqlib as S
from . import synclib as L

PROPERTY = "C20"
DRIVER = "TraitsVerif/Driver/Sync.lean"
PROPS_MODULES = ["TraitsVerif.Props.C20"]
TRANSLATORS = ["syncprog", "synclink"]
RULE = ("seeded two-sided histories of 1-12 commands on 2-5 real HasTraits objects with scalar traits x, y and "
        "List traits l, m (and, in a quarter of the cases, classes of seven other shapes: List traits under different "
        "names with partial overlaps - a name that is a List trait in one class, a scalar trait in another, absent in a "
        "third -, names containing `_items`; a hub List trait with two or three List partners, removal of one link "
        "among several, in-place mutations of the hub before and after): assignment (valid / invalid) to either side, every list mutator of seqlib.random_op "
        "(extended slices with negative steps, sort, reverse, *=) on either list, whole-list assignment, "
        "sync_trait add / remove at any point (mutual / one-way, alias names, two partners, chains, occasionally "
        "cycles, self links and cross-kind links), `del partner; gc.collect()` at any point followed by a fresh "
        "partner; a stream of hub histories with an armed trigger `kd` (a recording handler of one partner drops the "
        "last reference to another object - a partner not yet visited, one already visited, the hub, the watcher "
        "itself, an unrelated object - DURING the propagation, for scalar and List traits, one-way and mutual "
        "links), followed by changes on both sides, a fresh partner and removals; a stream of `#sy` histories "
        "(implementation + oracle only) with mixed partner kinds: a hub List trait with 2-4 List and Any partners "
        "in any order, mutual or one-way (own vs shared list objects), whole-value assignments from every side, "
        "in-place mutations of the List sides, removals; "
        "thorough additionally kills the second side before every command of a history.  A case is "
        "non-trivial when some command changed a value, raised or propagated; distinct = distinct output line")
TRUSTED = ["Py.List / Py.Slice and Model.TraitList (shared with C05; correspondence-checked there)",
           "change detection (`old != new` in ctraits setattr) is modelled as structural inequality of the harness values "
           "(ints, numeric strs, lists of ints)",
           "registration of _sync_trait_modified is not modelled as state: it is registered exactly while the partner "
           "table of the trait is non-empty, or stays registered after a partner died, when it returns at once "
           "(on_trait_change does not register a handler twice); registration of _sync_trait_items_modified IS "
           "state of the model (World.hooked)",
           "List traits have no minlen/maxlen (maxlen = sys.maxsize treated as unbounded; Model.guardLen is used for "
           "the exceptions the length guard raises before validation)",
           "CPython's recursion limit is the model's depth budget; C20_terminates shows it is never reached",
           "list.sort = merge sort on ints in the driver",
           "translate/syncprog.py (source text of _sync_trait_modified / _sync_trait_items_modified -> PyLSync terms: "
           "generic control flow, pure local bindings substituted, every remaining condition / effect must be one of "
           "the atoms of PyLSync.Cond / PyLSync.Act; fails closed) and the interpreter of Model/PyLSync.lean: live dict "
           "iteration = positional iteration with CPython's size check before every step (RuntimeError), a dead "
           "weakref dereferences to None (AttributeError), `partner_list is changed_list` is false inside the model "
           "(List traits copy), `del locked[name]` of an absent key is KeyError; both are exercised by the "
           "correspondence run through the hand-written handlers proved equal to the interpretation",
           "the harness runs with push_exception_handler(reraise_exceptions=False): an exception escaping a "
           "synchronisation handler is swallowed by the notifier machinery and counted (r<n>), as in the model"]
ASSUMPTIONS = ["user handlers only record, or (trigger `kd`) drop the last reference to another object that is not busy "
               "(not the notifying object, not addressed by the running command, none of its sync handlers on the "
               "stack); handlers that raise or re-enter are C19's business",
               "the traits are scalar traits and List traits; a List trait linked to an Any trait (which then holds the "
               "very same list object) is outside the model: the `#hook` corpus case runs on the implementation only",
               "weak references die at `del` + gc.collect() (CPython reference counting)"]
EXHAUSTIVE = {"quick": False, "thorough": False}


def corpus():
    return [
        # F6 (fixed in 7706111): extended-slice events must propagate
        "sy|int:int:int:int,int:int:int:int|li 0 l 1 l 1;as 0 l [1,2,3,4,5];mu 0 l ss N N 2 [7,8,9];mu 1 l ds N N -2;mu 1 l ss 4 0 -2 [5]",
        # F12 (fixed in d1bf550): partner collected, then a list mutation; later partner must still propagate back
        "sy|int:int:int:int,int:int:int:int,int:int:int:int|li 0 l 1 l 1;ki 1;mu 0 l ap 3;li 0 l 2 l 1;mu 2 l ap 4;as 2 l [9]",
        # two partners, aliases, one-way, removal
        "sy|int:int:int:int,int:int:int:int,int:int:int:int|li 0 x 1 y 1;li 0 x 2 x 0;as 0 x 5;as 1 y 6;as 2 x 7;un 0 x 1 y 1;as 0 x 8;as 1 y 9",
        # differing validators: link raises, one registration stays
        "sy|int:int:int:int,rng:rng:rng:rng|as 0 x 5;li 0 x 1 x 1;as 0 x 2;as 1 x 1;mu 0 l ap 9;li 0 l 1 l 1;mu 0 l ap 9;mu 0 l ap 1",
        # self link and alias on the same object
        "sy|int:int:int:int,int:int:int:int|li 0 x 0 y 1;as 0 x 3;as 0 y 4;li 0 x 0 x 1;as 0 x 5;li 0 l 0 m 1;mu 0 l ex [1,2];mu 0 m rv",
        # known finding: three mutually linked lists (a cycle) apply one delta twice
        "sy|int:int:int:int,int:int:int:int,int:int:int:int|li 0 l 1 l 1;li 1 l 2 l 1;li 0 l 2 l 1;mu 0 l ap 9",
        # F61 (repaired): the items handler used to be registered only if the FIRST partner of the trait was a
        # List trait; the oracle reports `sync-diverged:items-handler-not-registered` if that returns
        "#hook|first-partner-not-a-list",
        # known finding: an Any partner holding the sender's own list object makes the items handler recurse
        "#any|partner-shares-list-object",
        # the same inside the model (the first, cross-kind link raises but stays registered)
        "sy|int:int:int:int,int:int:int:int,int:int:int:int|li 0 l 1 x 0;li 0 l 2 l 1;mu 0 l ap 1;mu 2 l ap 5",
        # ... after a removal that must also unregister the items handler, and mixed removals: the handler stays
        # while a List partner is left and goes with the last one
        "sy|int:int:int:int,int:int:int:int,int:int:int:int|li 0 l 1 l 1;un 0 l 1 l 1;li 0 l 1 x 0;li 0 l 2 l 1;mu 0 l ap 1",
        "sy|int:int:int:int,int:int:int:int,int:int:int:int,int:int:int:int|li 0 l 1 l 0;li 0 l 2 x 0;li 0 l 3 l 0;un 0 l 2 x 0;"
        "mu 0 l ap 1;un 0 l 1 l 0;mu 0 l ap 2;un 0 l 3 l 0;mu 0 l ap 3;li 0 l 2 x 0;li 0 l 1 l 0;mu 0 l ap 4",
        # hub with List partners under other names; the partner that stays has no List trait named like the
        # removed alias (m is a scalar there / absent): the items handler must stay
        "sy|x=int:l=*int:n=*int,x=int:m=*int:n=int,y=int:n=*int:m=int:menu=int|li 0 l 1 m 1;li 0 l 2 n 1;as 0 l [1,2,3];"
        "un 0 l 1 m 1;mu 0 l ap 4;mu 0 l ds N N 2;mu 2 n ia [7];un 0 l 2 n 1;mu 0 l ap 5",
        # a List trait whose name contains `_items` (its items event is `menu_items_items`), next to a synchronised
        # scalar trait `menu`
        "sy|x=int:menu_items=*int:menu=int,x=int:menu_items=*int:menu=int,x=int:menu=*int:n=*int|li 0 menu_items 1 menu_items 1;"
        "li 0 menu 1 menu 1;li 0 menu_items 2 menu 0;mu 0 menu_items ap 1;mu 1 menu_items ex [2,3];as 0 menu 5;"
        "mu 0 menu_items ss N N 2 [8,9];mu 2 menu ap 4",
        # List traits whose CTrait-level default-value type is not `trait_list_object` although they are List traits
        # (`_l_default` method on the class / only on a subclass), linked with static ones
        "sy|x=int:l=*int+dm:m=*int,x=int:l=*int+ds:m=*int+so,x=int:l=*int+sub|li 0 l 1 l 1;mu 0 l ap 3;mu 1 l ds N N 2;"
        "li 2 l 0 l 1;mu 2 l ex [8,9];li 1 m 0 m 0;mu 1 m ap 7;mu 0 l rm 9",
        # partner death DURING a propagation (known finding): a handler of the first partner drops the last
        # reference to the third; the hub's handler iterates the live dict -> RuntimeError, the lock stays set,
        # the remaining partner is not updated; a mutual partner's later change no longer comes back
        "sy|int:int:int:int,int:int:int:int,int:int:int:int,int:int:int:int|li 0 x 1 x 1;li 0 x 2 x 0;li 0 x 3 x 0;kd 1 x 3;"
        "as 0 x 2;as 1 x 5;as 0 x 7;as 1 x 8",
        "sy|int:int:int:int,int:int:int:int,int:int:int:int|li 0 l 1 l 1;li 0 l 2 l 1;kd 1 l 2;mu 0 l ap 3;mu 1 l ap 4;mu 0 l ap 5",
        # a change travels THROUGH a partner that dies later in the same command (0 forwards to 1, then 2's handler
        # drops 0): 1 was reached legitimately - reachability is judged on the links as the command found them
        "sy|mod7:mod7:mod7:mod7,mod7:mod7:mod7:mod7,mod7:mod7:mod7:mod7,mod7:mod7:mod7:mod7|li 0 x 3 x 1;li 0 x 1 x 0;kd 2 x 0;"
        "li 2 x 3 x 1;as 3 x -1",
        "sy|int:int:int:int,int:int:int:int,int:int:int:int,int:int:int:int|li 0 l 2 l 1;li 0 l 1 l 0;kd 3 l 0;li 2 l 3 l 0;mu 2 l ap 5",
        # ... the victim is busy (the hub itself / the command's object) or no partner of the iterating table: nothing happens
        "sy|int:int:int:int,int:int:int:int,int:int:int:int,int:int:int:int|li 0 x 1 x 1;li 0 x 2 x 1;kd 1 x 0;kd 2 x 3;kd 2 x 2;as 0 x 2;as 3 x 1;as 2 x 4",
        # mixed partner kinds (implementation + oracle only): a List trait with a List partner and Any partners - one
        # mutual (holds a list object of its own), one one-way (holds the hub's very list object); every in-place
        # mutation must reach every side, also after a plain list was assigned from the Any side (seeded C20-m10)
        "#sy|x=int:l=*int,x=int:l=*int,x=int:z=any,x=int:z=any|li 0 l 1 l 1;li 0 l 2 z 1;li 0 l 3 z 0;mu 0 l in 0 7;"
        "as 0 l [1,2,3];mu 1 l ap 4;as 2 z [5,6];mu 0 l ap 7;mu 1 l ds N N 2;mu 0 l so;un 0 l 2 z 1;mu 0 l ap 9",
        # regression (F104, repaired by 78fd598): two Any partners of one List trait hold ONE list object that is no
        # longer the hub's (the mutual link replaced the hub's list): an in-place mutation was applied to it once
        # per partner
        "#sy|x=int:l=*int,x=int:l=*int,x=int:z=any,x=int:z=any|li 0 l 2 z 0;li 0 l 3 z 1;li 0 l 1 l 1;mu 0 l in 0 4",
        # stale items handler after the partner died: later links still propagate
        "sy|int:int:int:int,int:int:int:int,int:int:int:int,int:int:int:int|li 0 l 1 l 0;ki 1;li 0 l 2 x 0;li 0 l 3 l 0;mu 0 l ap 1",
    ]


def generate(rng, tier):
    if tier == "quick":
        n, ngc = 1500, 40
    elif tier == "thorough":
        n, ngc = 32000, 3000
    else:
        n, ngc = 10000, 800
    for _ in range(n):
        yield L.random_history(rng, gc_heavy=(rng.random() < 0.3))
    for _ in range(n // 3):
        yield L.random_shape_history(rng)
    for _ in range(n // 6):
        yield L.random_doom_history(rng)
    for _ in range(n // 5):
        yield L.random_any_history(rng)
    for _ in range(ngc):
        base = L.random_history(rng, maxcmds=9)
        yield from L.with_gc_everywhere(base)


def _hit(sig, what, **kw):
    d = {"signature": sig, "what": what}
    d.update(kw)
    return d


# ------------------------------------------------------------------- running

def _copy(v):
    return list(v) if isinstance(v, list) else v


class _Guard:
    """Keeps a runaway propagation (e.g. a mutant without the re-entrancy lock on a
    network with two partners: a call tree of branching 2 and depth recursion-limit/18)
    from hanging the check: after CALL_BUDGET handler calls in one command the recursion
    limit is clamped just above the current depth — every further nested propagation then
    ends in the RecursionError CPython would raise anyway, only sooner.  Never triggers on
    a terminating propagation (at most a few dozen calls per command)."""
    CALL_BUDGET = 300

    def __init__(self):
        self.calls = 0
        self.tripped = False
        self.base = sys.getrecursionlimit()
        self.limit = self.base

    def tick(self):
        self.calls += 1
        if self.calls > self.CALL_BUDGET:
            self.tripped = True
            try:                      # the interpreter's own depth count is only available in this message
                sys.setrecursionlimit(1)
            except RecursionError as e:
                m = re.search(r"recursion depth (\d+)", str(e))
                if m:     # only ever lower it: a nested call must not win new depth by ticking again
                    self.limit = min(self.limit, int(m.group(1)) + 10)
                    try:
                        sys.setrecursionlimit(self.limit)
                    except RecursionError:
                        pass

    def reset(self):
        self.calls = 0
        self.limit = self.base
        if self.tripped:
            sys.setrecursionlimit(self.base)

    def done(self):
        sys.setrecursionlimit(self.base)


def _attach(o, rec, guard, spec, fire=None):
    # two handlers: the name alone does not tell a trait `menu_items` from the items event of a trait `menu`.
    # They are registered at birth, hence run before the synchronisation handlers; after recording they fire
    # the triggers armed on the trait (`kd`): partner death during the propagation
    def h(obj, name, old, new):
        guard.tick()
        rec[("t", name)].append((_copy(old), _copy(new)))
        if fire is not None:
            fire(name)

    def hi(obj, name, old, new):
        guard.tick()
        rec[("i", name[:-6])].append((new.index, list(new.removed), list(new.added)))
        if fire is not None:
            fire(name[:-6])
    for n in L.names(spec):
        o.on_trait_change(h, n)
    for n in L.lists(spec):
        o.on_trait_change(hi, n + "_items")


def _new_rec(spec):
    r = {("t", n): [] for n in L.names(spec)}
    r.update({("i", n): [] for n in L.lists(spec)})
    return r


def _state(o, spec):
    return {n: _copy(getattr(o, n)) for n in L.names(spec)}


def _locks(o):
    t = o.__dict__.get("__sync_trait__")
    if not t:
        return []
    return sorted(t.get("", {}).keys())


def _digit(n):
    return str(min(n, 9))


class _Unborn:
    """Place of an object of the case that has not been created yet: objects are created when a command first
    addresses them, and the next one right after a partner was collected (so that it is likely to get the
    address, hence the id(), of the dead one, as in `del b; c = B()`)."""


UNBORN = _Unborn()


def _live(o):
    return o is not None and o is not UNBORN


def _dead_entries(o):
    """White box: entries of the partner tables whose partner has been garbage-collected."""
    t = o.__dict__.get("__sync_trait__") or {}
    return [(name, alias) for name, dic in t.items() if name != "" for (ref, alias) in dic.values() if ref() is None]


def _show_obj(o, rec, spec):
    if o is None:
        return "dead"
    if o is UNBORN:
        st = {d[0]: L.default_of(d) for d in spec}
        cnt = "0" * (len(spec) + len(L.lists(spec)))
        lk = []
    else:
        st = _state(o, spec)
        cnt = "".join(_digit(len(rec[("t", n)])) for n in L.names(spec)) + \
            "".join(_digit(len(rec[("i", n)])) for n in L.lists(spec))
        lk = _locks(o)
    return "%s,c=%s,k=%s" % (",".join("%s=%s" % (n, L.show_val(st[n])) for n in L.names(spec)), cnt,
                             "+".join(lk) if lk else "-")


def _reach(edges, start):
    seen, todo = {start}, [start]
    while todo:
        u = todo.pop()
        for (a, b) in edges:
            if a == u and b not in seen:
                seen.add(b)
                todo.append(b)
    return seen


def _component(edges, start):
    und = set(edges) | {(b, a) for (a, b) in edges}
    return _reach(und, start)


def _has_cycle(edges, comp):
    und = {frozenset((a, b)) for (a, b) in edges if a != b and a in comp}
    return len(und) >= len(comp)


def _kind(specs, pair):
    _, il, kind = L.decl(specs[pair[0]], pair[1])
    return ("L:" if il else "S:") + kind


def _uniform(specs, pairs):
    ks = {_kind(specs, p) for p in pairs}
    return len(ks) == 1 and next(iter(ks))[2:] in L.IDEMPOTENT


def _py_replay(snap, events):
    out = list(snap)
    for (ix, removed, added) in events:
        if isinstance(ix, slice):
            if added:
                out[ix] = added
            else:
                del out[ix]
        else:
            out[ix:ix + len(removed)] = added
    return out


def run_impl(case):
    if case.startswith("#hook"):
        return _run_hook_case()
    if case.startswith("#any"):
        return _run_shared_list_case()
    from traits.api import push_exception_handler, pop_exception_handler
    _, specs, cmds = L.parse_case(case)
    objs = [UNBORN for _ in specs]
    recs = [_new_rec(sp) for sp in specs]
    guard = _Guard()
    swallowed = []
    push_exception_handler(lambda obj, name, old, new: swallowed.append(S.exc_name(sys.exc_info()[1])),
                           reraise_exceptions=False, main=True)
    was_enabled = gc.isenabled()
    gc.disable()
    try:
        return _run(specs, cmds, objs, recs, swallowed, guard, L.falsy_mode(case))
    finally:
        guard.done()
        pop_exception_handler()
        if was_enabled:
            gc.enable()


def _run(specs, cmds, objs, recs, swallowed, guard, falsy=""):
    hits, tags, outs = [], set(), []
    D = set()          # links the history has definitely established (oracle's own book-keeping)
    U = set()          # registrations left behind by a sync_trait call that raised (unspecified by the property)
    killed = False
    crossed = set()    # traits that ever were one end of a List / non-List link (finding F61 stays with them)
    tainted = False    # a divergence was already reported: later differences are consequences
    tags.add("objs:%d" % len(objs))
    if falsy:
        tags.add("falsy:" + falsy)

    has_any = any(d[2] == "any" for sp in specs for d in sp)

    def isany(pair):
        return L.kind_of(specs[pair[0]], pair[1]) == "any"
    doom = {}          # armed triggers: (watcher object, trait name) -> [victim object, ...]
    busy = set()       # the objects the running command addresses
    fired = []         # victims collected by triggers during the running command
    midkill = False    # some partner died during a propagation in this history

    def fire(i, name):
        for j in doom.get((i, name), ()):
            if j == i or j in busy or objs[j] is None:
                continue
            if objs[j] is UNBORN:
                objs[j] = None
                fired.append(j)
                continue
            if _locks(objs[j]):        # one of its synchronisation handlers is on the stack
                continue
            wr = weakref.ref(objs[j])
            objs[j] = None
            gc.collect()
            fired.append(j)
            if wr() is not None:
                hits.append(_hit("sync-partner-kept-alive:during-propagation", "object %d survives del + gc.collect() "
                                 "inside a handler although it is not busy" % j))

    def born(i):
        if objs[i] is UNBORN:
            objs[i] = L.make_class(specs[i], falsy)()
            _attach(objs[i], recs[i], guard, specs[i], lambda name, i=i: fire(i, name))

    for ci, cmd in enumerate(cmds):
        k = cmd[0]
        tags.add(k)
        for r in recs:
            for v in r.values():
                del v[:]
        del swallowed[:]
        guard.reset()
        guard.tripped = False
        if k != "ki" and (objs[cmd[1]] is None or (k in ("li", "un") and objs[cmd[3]] is None)):
            outs.append("skip")
            continue
        if k != "ki":
            born(cmd[1])
            if k in ("li", "un"):
                born(cmd[3])
        if k == "kd":
            doom.setdefault((cmd[1], cmd[2]), []).append(cmd[3])
            tags.add("kd:" + ("self" if cmd[3] == cmd[1] else "other"))
            outs.append("ok r0 %s" % " ".join(_show_obj(o, r, sp) for o, r, sp in zip(objs, recs, specs)))
            continue
        busy.clear()
        busy.add(cmd[1])
        if k in ("li", "un"):
            busy.add(cmd[3])
        del fired[:]
        alive = [i for i, o in enumerate(objs) if _live(o)]
        before = {i: _state(objs[i], specs[i]) for i in alive}
        # identity of the list objects held (an Any trait can hold the very list object of another trait)
        idents = {}
        if has_any:
            for i in alive:
                for n in L.names(specs[i]):
                    v = getattr(objs[i], n)
                    if isinstance(v, list):
                        idents.setdefault(id(v), []).append((i, n))
        exc = None
        ret = None
        try:
            if k == "as":
                setattr(objs[cmd[1]], cmd[2], _copy(cmd[3]))
            elif k == "mu":
                ret = S.apply_op(getattr(objs[cmd[1]], cmd[2]), cmd[3])
            elif k == "li":
                objs[cmd[1]].sync_trait(cmd[2], objs[cmd[3]], cmd[4], mutual=bool(cmd[5]))
            elif k == "un":
                objs[cmd[1]].sync_trait(cmd[2], objs[cmd[3]], cmd[4], mutual=bool(cmd[5]), remove=True)
            elif k == "ki":
                i = cmd[1]
                if objs[i] is UNBORN:
                    objs[i] = None
                elif objs[i] is not None:
                    wr = weakref.ref(objs[i])
                    old_id = id(objs[i])
                    objs[i] = None
                    gc.collect()
                    if wr() is not None:
                        hits.append(_hit("sync-partner-kept-alive", "object survives del + gc.collect() although the "
                                         "harness holds no reference: a synchronisation table keeps it alive"))
                    killed = True
                    # white box, at once: no table may still list the dead partner
                    left = [(j, _dead_entries(objs[j])) for j in range(len(objs))
                            if _live(objs[j]) and _dead_entries(objs[j])]
                    if left:
                        hits.append(_hit("sync-dead-partner-in-table", "a partner table still lists a garbage-collected "
                                         "partner after its death (its (id, alias) key can be taken for a new object "
                                         "allocated at the same address)", entries=left, command=cmd))
                    # the fresh partner the history uses next is created now: `del b; c = B()` usually reuses
                    # the address
                    nxt = [j for c2 in cmds[ci + 1:] if c2[0] != "ki" for j in ([c2[1]] + ([c2[3]] if c2[0] in ("li", "un") else []))
                           if objs[j] is UNBORN]
                    if nxt:
                        born(nxt[0])
                        if id(objs[nxt[0]]) == old_id:
                            tags.add("id-reused")
        except Exception as e:
            exc = e
        alive2 = [i for i, o in enumerate(objs) if _live(o)]
        after = {i: _state(objs[i], specs[i]) for i in alive2}
        res = "ok" if exc is None else "err:" + S.exc_name(exc)
        if exc is None and ret is not None:
            res = "ok=%s" % L.show_scalar(ret)
        outs.append("%s r%d %s" % (res, min(len(swallowed), 9), " ".join(_show_obj(o, r, sp) for o, r, sp in zip(objs, recs, specs))))
        if exc is not None:
            tags.add("err:" + S.exc_name(exc))

        # ------------------------------------------------------------ oracle
        def val(st, pair):
            return st[pair[0]][pair[1]]

        def calls(pair, items=False):
            return recs[pair[0]][("i" if items else "t", pair[1])]

        def islist(pair):
            return L.is_list(specs[pair[0]], pair[1])

        E_pre = None
        if fired:
            # partners collected by a trigger while the command was propagating: their links are gone (but the
            # propagation ran, in part, on the link graph as it was: a cycle through the victim counts, F60)
            E_pre = set(D) | set(U)
            killed = midkill = True
            tags.add("died-during-propagation")
            D = {(a, b) for (a, b) in D if a[0] not in fired and b[0] not in fired}
            U = {(a, b) for (a, b) in U if a[0] not in fired and b[0] not in fired}
        sfx = ":partner-died-during-propagation" if midkill else ":after-partner-gc" if killed else ""
        # (1) lock tables are empty between commands, nothing was swallowed by the notifier machinery
        stuck = [(i, _locks(objs[i])) for i in alive2 if _locks(objs[i])]
        if stuck:
            hits.append(_hit("sync-stuck-lock:partner-died-during-propagation" if midkill else
                             "sync-stuck-lock-after-partner-gc" if killed else "sync-stuck-lock",
                             "lock table not empty after the command", locks=stuck, command=cmd))
        if swallowed:
            hits.append(_hit("sync-handler-raised" + sfx, "a synchronisation handler raised (swallowed by the "
                             "notifier machinery): %s" % swallowed, command=cmd))
        if midkill and (stuck or swallowed):
            # the propagation was aborted half-way and a lock is left behind: what follows (partners not
            # updated, later changes not reaching the locked side) are consequences of this one defect
            tainted = True
            if swallowed:
                tags.add("aborted:" + "+".join(sorted(set(swallowed))))
        if k == "ki":
            D = {(a, b) for (a, b) in D if a[0] != cmd[1] and b[0] != cmd[1]}
            U = {(a, b) for (a, b) in U if a[0] != cmd[1] and b[0] != cmd[1]}
        allpairs = [(i, n) for i in alive2 for n in L.names(specs[i])]
        changed = [p for p in allpairs if p[0] in before and val(before, p) != val(after, p)]
        called = [p for p in allpairs if calls(p) or (islist(p) and calls(p, True))]
        runaway = [p for p in allpairs if len(calls(p)) > 8 or (islist(p) and len(calls(p, True)) > 8)]
        if runaway or guard.tripped:
            hits.append(_hit("sync-runaway-propagation", "more than 8 handler calls on one trait for one command",
                             pairs=runaway, command=cmd))
        if k in ("un", "ki"):
            if exc is not None:
                hits.append(_hit("sync-raised:" + k, "%s raised %s" % (k, S.exc_name(exc))))
            if changed or called:
                hits.append(_hit("sync-leak:" + k, "removing a link / collecting a partner changed or notified",
                                 changed=changed, called=called))
            if k == "un":
                p, q = (cmd[1], cmd[2]), (cmd[3], cmd[4])
                D.discard((p, q))
                U.discard((p, q))
                if cmd[5]:
                    D.discard((q, p))
                    U.discard((q, p))
            continue
        p = (cmd[1], cmd[2])
        D0 = set(D)
        spec_p = specs[p[0]]
        opk = k
        starts = [p]
        acc, must_fail = set(), False      # acceptable exception classes; must the command fail?
        if k == "as":
            try:
                y = L.pure_validate_attr(spec_p, p[1], cmd[3])
                if exc is None and val(after, p) != y:
                    hits.append(_hit("own-value:as", "assigned trait does not hold the validated value",
                                     expected=y, observed=val(after, p)))
            except L.Reject:
                acc.add("TraitError")
                must_fail = True
        elif k == "mu":
            op = cmd[3]
            opk = "mu:" + op[0] + ("-ext" if op[0] in ("ss", "ds") and abs(op[1].step or 1) > 1 else "")
            tags.add(opk)
            kind = L.kind_of(spec_p, p[1])
            shadow = list(val(before, p))
            vop = None
            try:
                vop = op
                if op[0] in ("si", "in"):
                    vop = (op[0], op[1], L.pure_validate(kind, op[2]))
                elif op[0] == "ap":
                    vop = (op[0], L.pure_validate(kind, op[1]))
                elif op[0] == "ss":
                    vop = (op[0], op[1], [L.pure_validate(kind, x) for x in op[2]])
                elif op[0] in ("ex", "ia"):
                    vop = (op[0], [L.pure_validate(kind, x) for x in op[1]])
            except L.Reject:
                vop = None
                acc.add("TraitError")
                must_fail = True
            if vop is not None:
                try:
                    S.apply_op(shadow, vop)
                except Exception as e2:
                    acc.add(S.exc_name(e2))
                    must_fail = True
            try:
                S.apply_op(list(val(before, p)), op)
            except Exception as e2:      # the builtin rejects the raw operation anyway: that class is fine too
                acc.add(S.exc_name(e2))
            if exc is None and not must_fail and val(after, p) != shadow:
                hits.append(_hit("own-value:" + opk, "mutated list differs from the builtin list on validated items",
                                 expected=shadow, observed=val(after, p)))
        elif k == "li":
            q = (cmd[3], cmd[4])
            mutual = bool(cmd[5])
            tags.add("li:" + ("mutual" if mutual else "oneway") + (":alias" if p[1] != q[1] else "")
                     + (":self" if p[0] == q[0] else "") + (":cross" if islist(p) != islist(q) else "")
                     + (":othername" if islist(p) and islist(q) and p[1] != q[1] and p[0] != q[0] else ""))
            if islist(p) != islist(q):
                crossed.update((p, q))
            # what the documented behaviour needs to assign: partner := own value (then, mutual, own := partner's)
            cur = {p: val(before, p), q: val(before, q)}
            new_edge = (p, q) not in D
            if U & {(p, q), (q, p)}:
                acc.add("TraitError")      # a half-registered link: whether the assignment is repeated is unspecified
            try:
                if (p, q) not in D and (p, q) not in U:
                    cur[q] = L.pure_validate_attr(specs[q[0]], q[1], cur[p])
                if mutual and (q, p) not in D and (q, p) not in U:
                    cur[p] = L.pure_validate_attr(spec_p, p[1], cur[q])
            except L.Reject:
                acc.add("TraitError")
                must_fail = True
            starts = [q, p] if mutual else [q]
            if exc is None:
                D.add((p, q))
                U.discard((p, q))
                if mutual:
                    D.add((q, p))
                    U.discard((q, p))
            else:
                # the call raised half-way: which registrations stay is not specified; remember them as "maybe"
                U.add((p, q))
                if mutual:
                    U.add((q, p))
                tags.add("li:raised")
        if exc is not None:
            if S.exc_name(exc) not in acc:
                if not must_fail:
                    hits.append(_hit("sync-raised:%s%s" % (opk, sfx), "%s raised %s although the object's own trait "
                                     "accepts the operation" % (k, S.exc_name(exc)), command=cmd))
                else:
                    hits.append(_hit("wrong-exception:" + opk, "expected %s, raised %s" % (sorted(acc), S.exc_name(exc))))
            if k != "li" and (changed or called):
                hits.append(_hit("failed-op-changed:" + opk, "a rejected operation changed or notified something",
                                 changed=changed, called=called))
            if k != "li":
                continue
        elif must_fail and not (k == "li" and U & {(p, (cmd[3], cmd[4])), ((cmd[3], cmd[4]), p)}):
            hits.append(_hit("missing-exception:" + opk, "operation succeeded where %s was expected" % sorted(acc)))
        E = D | U
        # reachability is judged on the link graph as it was when the command started: a change that travelled
        # through a partner before that partner died (trigger `kd`) is legitimate; the deaths only remove the
        # obligations of the dead objects themselves
        E_all = E if E_pre is None else (E | E_pre)
        # (2) nothing outside what the links reach from the changed trait changes or is notified
        allowed = set()
        for s in starts:
            allowed |= _reach(E_all, s)
        # (a trait that is not a List trait, e.g. Any, may hold the very list object of another trait: its contents
        # then change with that list, link or no link - only a notification counts for it)
        leak = [r for r in (set(called) | {c for c in changed if not isany(c)}) if r not in allowed]
        if leak:
            gone = "removed-or-never-linked"
            hits.append(_hit("sync-leak:%s%s" % (k, sfx), "a change reached a trait no link leads to (%s)" % gone,
                             pairs=leak, command=cmd, links=sorted(D)))
        # (3) handlers: every call is a real change, every change is notified, no call twice for one change
        for r in allpairs:
            if r[0] not in before:
                continue
            cs = calls(r)
            chain_ok = all(o != n for (o, n) in cs)
            cur = val(before, r)
            for (o, n) in cs:
                chain_ok = chain_ok and o == cur
                cur = n
            if islist(r):
                ev = calls(r, True)
                if ev and cs:
                    chain_ok = False
                if ev:
                    try:
                        cur = _py_replay(val(before, r), ev)
                    except Exception:
                        cur = None
            if isany(r) and isinstance(val(before, r), list) and not cs:
                continue      # a list held by a non-List trait changes in place without any notification
            if not chain_ok or cur != val(after, r):
                hits.append(_hit("sync-notify-untruthful:%s" % opk, "handler calls on %s do not add up to the change "
                                 "(doubled, missing or stale notification)" % (r,), calls=cs, before=val(before, r),
                                 after=val(after, r)))
        comp = _component(E_all, p)
        for s in starts:
            comp |= _component(E_all, s)
        uniform = _uniform(specs, comp) and not any((a in comp) for (a, b) in U)
        tags.add("uniform" if uniform else "mixed")
        cyc = _has_cycle(E, comp)
        if E_pre is not None:
            comp_pre = _component(E_pre, p)
            for s0 in starts:
                comp_pre |= _component(E_pre, s0)
            cyc = cyc or _has_cycle(E_pre, comp_pre)
        if len(comp) > 2:
            tags.add("cycle" if cyc else "tree")
        if tainted:
            continue
        if uniform:
            twice = [r for r in comp if len(calls(r)) > 1 or (islist(r) and len(calls(r, True)) > 1)]
            if twice and not (cyc and k == "mu"):
                hits.append(_hit("sync-notified-twice:%s" % opk, "one change, several handler calls on the same trait",
                                 pairs=twice, command=cmd))
        # (4) convergence on every mutual link, (5) one-way: source -> target
        ev_p = calls(p, True) if k == "mu" else []
        ext = bool(ev_p) and isinstance(ev_p[0][0], slice)
        if ext:
            tags.add("ev-slice")
        cross = any(islist(x) != islist(y) for (x, y) in E if x in comp)
        for (a, b) in sorted(D):
            if a not in comp or a[0] not in after or b[0] not in after:
                continue
            if not uniform and k == "mu" and a == p and ev_p and not cyc and islist(p) and not (U & {(a, b), (b, a)}):
                # mixed partner kinds: every partner of the mutated List trait that held an equal list (or, for
                # a partner that is not a List trait, e.g. Any: a list of equal contents) before the mutation and
                # accepts the added items unchanged holds the new contents afterwards - provided the items
                # handler is installed, i.e. the mutated trait has a List partner (documented: items are
                # synchronised for List traits)
                has_list_partner = any(x == p and islist(y) for (x, y) in D)
                kb = _kind(specs, b)[2:]
                try:
                    accepts = all(L.pure_validate(kb, x) == x for ev in ev_p for x in ev[2])
                except L.Reject:
                    accepts = False
                vb0, vb1 = val(before, b), val(after, b)
                # a list object shared by several partners (two Any partners holding one object that is not the
                # mutated list itself) used to receive the delta once per holder (F104, repaired by 78fd598)
                shared = [hs for hs in idents.values() if b in hs and p not in hs
                          and any(h != b and (p, h) in D for h in hs)]
                if (has_list_partner and accepts and shared and isinstance(vb0, list) and vb0 == val(before, a)
                        and kb == "any" and vb1 != val(after, a)):
                    tainted = True
                    hits.append(_hit("sync-diverged:partners-share-list-object", "link %s -> %s: the partner and "
                                     "another partner of the same trait hold ONE list object (not the mutated "
                                     "one); the delta was applied to it once per partner" % (a, b), command=cmd,
                                     left=val(after, a), right=vb1, holders=shared, links=sorted(D)))
                    continue
                if (has_list_partner and accepts and not shared and isinstance(vb0, list) and vb0 == val(before, a)
                        and (kb == "any" or _kind(specs, b) == _kind(specs, a)) and vb1 != val(after, a)
                        and not (islist(b) and p in crossed and not calls(b, True))):
                    tainted = True
                    hits.append(_hit("sync-diverged:mixed-partners:%s%s" % (opk, ":partner-not-a-list-trait" if not islist(b) else ""),
                                     "link %s -> %s: the partner held the same contents before the in-place mutation "
                                     "and differs after it" % (a, b), command=cmd, left=val(after, a), right=vb1,
                                     links=sorted(D)))
                    continue
            if not uniform:
                # the one divergence that is decidable without uniform validators: a mutual List-List link of
                # equal idempotent kind, both lists equal before an in-place mutation of one of them, whose
                # trait also has (or had registered, by a call that raised) a partner that is not a List trait
                if (k == "mu" and (cross or p in crossed) and (b, a) in D and a < b and p in (a, b) and ev_p
                        and _uniform(specs, {a, b}) and islist(a)
                        and val(before, a) == val(before, b) and val(after, a) != val(after, b)
                        and not calls(b if p == a else a, True)):
                    tainted = True
                    hits.append(_hit("sync-diverged:items-handler-not-registered", "mutual List link %s <-> %s: the "
                                     "mutation of %s never reached the partner; the trait's first partner was not a "
                                     "List trait" % (a, b, p), command=cmd, left=val(after, a), right=val(after, b),
                                     links=sorted(E)))
                continue
            mutual_link = (b, a) in D
            if mutual_link:
                if a > b:
                    continue
                # sides that differed already (a divergence that arose while the component was outside the
                # checked scope, e.g. mixed validators or a cycle with a partner that died since) are not this
                # command's doing - unless the command itself must make them equal: an assignment that changes
                # one of the two sides, or the call that creates the link
                was_equal = (a[0] in before and b[0] in before and val(before, a) == val(before, b))
                forces = ((k == "as" and p in (a, b) and p in changed)
                          or (k == "li" and {a, b} == {p, (cmd[3], cmd[4])} and ((a, b) not in D0 or (b, a) not in D0)))
                bad = val(after, a) != val(after, b) and (was_equal or forces)
            else:
                # one-way: the source's change must arrive; a change of the target must not come back (checked by (2))
                src_changed = a in starts or a == p
                if k == "li":
                    bad = new_edge and (a, b) == (p, (cmd[3], cmd[4])) and val(after, a) != val(after, b)
                elif k == "as":
                    bad = a == p and a in changed and val(after, a) != val(after, b)
                else:
                    bad = a == p and bool(ev_p) and val(before, a) == val(before, b) and val(after, a) != val(after, b)
                del src_changed
            if not bad:
                continue
            tainted = True
            if k == "mu" and cyc:
                sig = "sync-diverged:list-cycle"
            elif (k == "mu" and p in crossed and p in (a, b) and val(before, a) == val(before, b)
                  and not calls(b if p == a else a, True)):
                sig = "sync-diverged:items-handler-not-registered"
            elif ext:
                sig = "sync-diverged:extended-slice"
            elif k == "mu" and len(calls(p, True)) + sum(len(calls(r, True)) for r in comp) > 8:
                sig = "sync-diverged:unbounded-recursion"
            else:
                sig = "sync-diverged:%s%s%s" % ("" if mutual_link else "one-way:", opk, sfx)
            hits.append(_hit(sig, "%s link %s -> %s: sides differ after the command" % (
                "mutual" if mutual_link else "one-way", a, b), command=cmd, left=val(after, a), right=val(after, b),
                links=sorted(D)))
    return " ; ".join(outs), hits, tags


def _run_hook_case():
    """Finding F61 (impl + oracle only; the Any trait is outside the model):
    `sync_trait` used to register the `_items` handler only when the trait's
    FIRST partner was a List trait.  With a first partner of another kind, a
    later List partner linked mutually never saw in-place mutations of this
    side, although the reverse direction worked.  Hits if that returns."""
    from traits.api import HasTraits, List, Int, Any

    class O(HasTraits):
        l = List(Int)
        z = Any

    a, b, c = O(), O(), O()
    a.sync_trait("l", b, "z")      # first partner of a.l: not a List trait
    a.sync_trait("l", c)           # mutual List-List link
    a.l.append(1)
    c.l.append(5)
    out = "a=%s c=%s" % (S.show_list(a.l), S.show_list(c.l))
    hits = []
    if list(a.l) != list(c.l):
        hits.append(_hit("sync-diverged:items-handler-not-registered",
                         "a.l <-> c.l linked mutually, but a.l's first partner was not a List trait: "
                         "a.l.append(1) does not reach c.l", no_shrink=True, a=list(a.l), c=list(c.l)))
    return out, hits, ["hook-case"]


def _run_shared_list_case():
    """Known finding (impl + oracle only; the Any trait is outside the model): a List trait with a List partner
    and, one-way, an Any partner.  The Any trait holds the very list object of the sender, so applying the delta
    to it changes the sender's list again, which notifies the sender's items handler again ... : unbounded
    recursion ended by RecursionError, the item inserted ~100 times, KeyErrors from `del locked[name]`."""
    from traits.api import HasTraits, List, Int, Any, push_exception_handler, pop_exception_handler

    class O(HasTraits):
        l = List(Int)
        z = Any

    swallowed = []
    push_exception_handler(lambda obj, name, old, new: swallowed.append(S.exc_name(sys.exc_info()[1])),
                           reraise_exceptions=False, main=True)
    try:
        a, b, c = O(), O(), O()
        a.sync_trait("l", b, mutual=False)
        a.sync_trait("l", c, "z", mutual=False)
        shared = c.z is a.l
        a.l.append(4)
        la, lb = len(a.l), len(b.l)
    finally:
        pop_exception_handler()
    hits = []
    if la != 1 or lb != 1 or swallowed:
        hits.append(_hit("sync-runaway-propagation:partner-shares-list-object",
                         "a.l synchronised one-way with b.l and with the Any trait c.z (c.z is a.l: %s): a.l.append(4) "
                         "left %d items in a.l, %d in b.l, %d exceptions swallowed (%s)" % (
                             shared, la, lb, len(swallowed), sorted(set(swallowed))), no_shrink=True))
    return "a=%d b=%d swallowed=%d" % (min(la, 2), min(lb, 2), min(len(swallowed), 1)), hits, ["any-case"]


def nontrivial(case, out):
    return "err:" in out or re.search(r"c=(?!000000)", out) is not None
