"""Shared pieces of the `attr` cluster (C02, C10): value catalogue with real
`==` / `!=` tables, table-driven trait types, recording handlers, the line
protocol of Driver/Attr.lean.

Nothing from `traits` is imported at module level (the engine activates the
scratch build first)."""
import itertools

from .seqlib import exc_name

UNINIT, UNDEF, NONE = 0, 1, 2     # fixed pool ids (Model/Wrappers.lean)


class HandlerError(RuntimeError):
    """Raised by a recording handler told to raise."""


class _EqRaises:
    """`==` and `!=` raise."""
    __hash__ = object.__hash__

    def __eq__(self, other):
        raise ValueError("== raises")

    def __ne__(self, other):
        raise ValueError("!= raises")


class _Inconsistent:
    """`a == b` and `a != b` are both true: violates the hypothesis of C02_same_sequence."""
    __hash__ = object.__hash__

    def __eq__(self, other):
        return True

    def __ne__(self, other):
        return True


class _EqTrueNeRaises:
    __hash__ = object.__hash__

    def __eq__(self, other):
        return True

    def __ne__(self, other):
        raise ValueError("!= raises")


class _Plain:
    pass


def catalogue():
    """name -> fresh object; called once per case so that identities are private to the case."""
    import numpy as np
    from traits.api import HasTraits
    from traits.trait_base import Undefined, Uninitialized

    class Veto(HasTraits):
        pass
    veto = Veto()
    veto._trait_veto_notify(True)

    # HasTraits values that are alive but falsy (an empty container-like model / an object defining __bool__)
    class EmptyModel(HasTraits):
        def __len__(self):
            return 0

    class Off(HasTraits):
        def __bool__(self):
            return False
    cat = [
        ("Uninitialized", Uninitialized), ("Undefined", Undefined), ("None", None),
        ("int1", 1), ("float1", 1.0), ("true", True), ("int7", 7),
        ("big_a", int("1" + "0" * 20)), ("big_b", int("1" + "0" * 20)),
        ("str_a", "".join(["a", "b"])), ("str_b", "".join(["a", "b"])), ("str_c", "zz"),
        ("nan", float("nan")), ("nan2", float("nan")),
        ("tup_a", tuple([1, 2])), ("tup_b", tuple([1, 2])),
        ("arr_a", np.array([1, 2])), ("arr_b", np.array([1, 2])), ("arr1", np.array([1])), ("arr1b", np.array([1])),
        ("eqraises", _EqRaises()), ("incons", _Inconsistent()), ("eqtrue_neraises", _EqTrueNeRaises()),
        ("plain_a", _Plain()), ("plain_b", _Plain()),
        ("list_a", [1, 2]), ("list_b", [1, 2]),
        ("veto", veto), ("ht_fl", EmptyModel()), ("ht_fb", Off()),
        # Expression values: valid (an equal-not-identical pair, another one, the default), invalid; `code_k` stands
        # for "the code object compile() returned" (a new object at every validation)
        ("expr_a", "".join(["1+", "1"])), ("expr_b", "".join(["1+", "1"])), ("expr_c", "".join(["2*", "3"])),
        ("expr_0", "".join(["0", " "])), ("expr_bad", "".join(["1 ", "+"])),
        ("code_k", compile("0", "<string>", "eval")),
    ]
    return cat


CAT_NAMES = ["Uninitialized", "Undefined", "None", "int1", "float1", "true", "int7", "big_a", "big_b", "str_a",
             "str_b", "str_c", "nan", "nan2", "tup_a", "tup_b", "arr_a", "arr_b", "arr1", "arr1b", "eqraises",
             "incons", "eqtrue_neraises", "plain_a", "plain_b", "list_a", "list_b", "veto", "ht_fl", "ht_fb", "expr_a", "expr_b", "expr_c", "expr_0",
             "expr_bad", "code_k"]
EXPR_OK = {"expr_a", "expr_b", "expr_c", "expr_0"}
INT_NAMES = {"int1", "int7", "big_a", "big_b"}
STR_NAMES = {"str_a", "str_b", "str_c"}
INST_NAMES = {"None", "veto", "ht_fl", "ht_fb"}        # what Instance(HasTraits) accepts
NO_DEFAULT = {"list_a", "list_b", "Uninitialized", "veto"}    # never used as a constant default


def tri(f):
    try:
        return "y" if bool(f()) else "n"
    except Exception:
        return "r"


class Pool:
    """The values of one case: objects, ids (= positions), real == / != tables."""

    def __init__(self, names):
        cat = dict(catalogue())
        self.names = list(names)
        self.objs = [cat[n] for n in self.names]
        assert self.names[:3] == ["Uninitialized", "Undefined", "None"]
        assert len({id(o) for o in self.objs}) == len(self.objs), "pool objects must be distinct"
        self.ids = {id(o): i for i, o in enumerate(self.objs)}
        n = len(self.objs)
        self.eq = [[tri(lambda a=a, b=b: a == b) for b in self.objs] for a in self.objs]
        self.ne = [[tri(lambda a=a, b=b: a != b) for b in self.objs] for a in self.objs]
        self.veto = [i for i, nm in enumerate(self.names) if nm == "veto"]
        self.codek = self.names.index("code_k") if "code_k" in self.names else None
        self.n = n

    def idof(self, o):
        return self.ids.get(id(o), None)

    def show(self, o):
        i = self.idof(o)
        if i is None and self.codek is not None and isinstance(o, type(self.objs[self.codek])):
            return str(self.codek)       # a freshly compiled code object
        return "?" if i is None else str(i)

    def spec(self):
        return "n=%d eq=%s ne=%s veto=%s" % (
            self.n, "/".join("".join(r) for r in self.eq), "/".join("".join(r) for r in self.ne),
            ",".join(map(str, self.veto)) or "-")


def kv(field):
    return dict(p.split("=", 1) for p in field.split())


# ---------------------------------------------------------------------------
# Table-driven trait type

def make_tab_trait(pool, vtab, dflt, kind="T", cmp=2, orig=0, porig=0, post="-", vk=None, state=None, only=None):
    """A TraitType whose `validate` is the table `vtab` (list over pool ids:
    '=' same object, 'T' TraitError, 'E' ValueError, or a pool id to map to;
    None = no validate at all), with the requested flags.  `state` collects the
    post_setattr log and the validator ordinal.  `only`: the definition is shared by several names and only the
    calls made for that name are counted / logged (the table applies to all of them)."""
    from traits.api import TraitType, TraitError
    from traits.constants import ComparisonMode

    ns = {}
    if vtab is not None:
        def validate(self, object, name, value):
            if only is None or name == only:
                n = state["nval"]
                state["nval"] += 1
                if vk is not None and n == vk:
                    raise TraitError("validator fails at call %d" % n)
            i = pool.idof(value)
            act = vtab[i] if i is not None else "T"
            if act == "=":
                return value
            if act == "T":
                self.error(object, name, value)
            if act == "E":
                raise ValueError("validator raises")
            return pool.objs[int(act)]
        ns["validate"] = validate
    if post != "-":
        def post_setattr(self, object, name, value):
            if only is not None and name != only:
                return
            n = len(state["post"])
            state["post"].append(value)
            if post.startswith("k") and n == int(post[1:]):
                raise RuntimeError("post_setattr raises")
        ns["post_setattr"] = post_setattr

    def as_ctrait(self):
        ct = TraitType.as_ctrait(self)
        if orig:
            ct.setattr_original_value = True
        if porig:
            ct.post_setattr_original_value = True
        return ct
    ns["as_ctrait"] = as_ctrait
    Tab = type("Tab", (TraitType,), ns)
    md = {"comparison_mode": ComparisonMode(cmp)}
    if kind == "E":
        md["type"] = "event"
    if dflt is None:
        return Tab(**md)
    return Tab(pool.objs[dflt], **md)


# ---------------------------------------------------------------------------
# Handler behaviours (Python twin of Driver/Attr.lean `parseBeh`)

class Failure(RuntimeError):
    """An application error carrying a code and a detail string (first argument is not a string)."""

    def __init__(self, code, detail=""):
        super().__init__(code, detail)
        self.code = code


def rich_exception(j):
    """Exception variant j for behaviour `e<j>`: classes and argument shapes a handler may raise (Exception
    subclasses only)."""
    variants = [
        lambda: RuntimeError(17, "busy"), lambda: RuntimeError(), lambda: NotImplementedError(int),
        lambda: RecursionError(3), lambda: KeyError(3), lambda: ValueError("plain"),
        lambda: RuntimeError(("tuple", "payload")), lambda: Failure(17, "device busy"), lambda: Exception(),
        lambda: RuntimeError("text message"), lambda: RuntimeError(None), lambda: RuntimeError(b"bytes"),
        lambda: ZeroDivisionError(), lambda: NotImplementedError(), lambda: RecursionError(("deep", 3)),
    ]
    return variants[j % len(variants)]()


N_RICH = 15


def beh_action(spec, n):
    """spec: o | r | e<j> | k<n> | x | x<n>; n = number of earlier handler calls."""
    if spec == "o":
        return "stay"
    if spec == "r" or spec[0] == "e":
        return "raise"
    if spec[0] == "k":
        return "raise" if n == int(spec[1:]) else "stay"
    if spec == "x":
        return "remove"
    if spec[0] == "x":
        return "remove" if n == int(spec[1:]) else "stay"
    raise AssertionError(spec)


class ExcHandlers:
    """push/pop of both notification exception-handler stacks (nothing is printed or logged).
    `default=True`: nothing is pushed — the library's DEFAULT exception handlers (log and carry on) are what
    runs; the "traits" logger is silenced for the duration."""

    def __init__(self, reraise_legacy=False, reraise_observe=False, default=False):
        self.rl, self.ro, self.default = reraise_legacy, reraise_observe, default

    def __enter__(self):
        if self.default:
            import logging
            lg = logging.getLogger("traits")
            self._saved = (lg.propagate, list(lg.handlers), lg.disabled)
            lg.handlers = [logging.NullHandler()]
            lg.propagate = False
            return self
        from traits.api import push_exception_handler
        from traits.observation.api import push_exception_handler as push_obs
        push_exception_handler(lambda *a: None, reraise_exceptions=self.rl)
        push_obs(lambda e: None, reraise_exceptions=self.ro)
        return self

    def __exit__(self, *a):
        if self.default:
            import logging
            lg = logging.getLogger("traits")
            lg.propagate, lg.handlers, lg.disabled = self._saved
            return False
        from traits.api import pop_exception_handler
        from traits.observation.api import pop_exception_handler as pop_obs
        pop_obs()
        pop_exception_handler()
        return False


def show_exc(e):
    return exc_name(e)


def subsets(xs):
    for r in range(len(xs) + 1):
        yield from itertools.combinations(xs, r)
